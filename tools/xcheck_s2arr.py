"""Cross-check of the symbolic 2-D array model (pyvc/npmodels.py: S2Arr, s2_*; 1-D sum / sqrt / norm / a[:, None]) and of the
functools.cached_property / copy.deepcopy model (pyvc/interp.py, pyvc/models.py) against numpy / CPython on concrete inputs.

Run:  /verif/.venv/bin/python tools/xcheck_s2arr.py [rounds]      (exit 0 = every model agrees)

Every expression of EXPRS is evaluated twice through the pyvc interpreter -- on arrays with a SYMBOLIC number of rows and on
arrays whose row count is a concrete int (the two forms contract setups use) --, the resulting z3 terms are evaluated under a
concrete assignment of the rows (together with the facts the models assumed: ghost roots, prefix sums), and compared cell by
cell with what numpy computes for the same expression on the same data (integers exactly, reals to 1e-9).  Expressions numpy
rejects (shape errors) must be rejected by the model as a ProgExc(ValueError / IndexError) as well.
"""
import ast
import os
import random
import sys
from fractions import Fraction

sys.path.insert(0, os.path.dirname(os.path.dirname(os.path.abspath(__file__))))
import numpy as np
import z3

from pyvc import models, narr, npmodels  # noqa: F401
from pyvc.engine import Frame, ProgExc, Unsupported
from pyvc.npmodels import S2Arr
from pyvc.spec import Registry
from pyvc.values import NArr, SArr, Sym, to_z3
from pyvc.verify import Verifier

bad = count = refused = 0

# name -> (shape kind, dtype): "nk3" = (n,3) float, "nk4", "n1" = (n,1), "n" 1-D float of length n, "ni" int index array of length m into rows,
# "mask" bool of length n, "M33"/"M44"/"M34" concrete matrices, "v3"/"v4" concrete vectors, "s" scalar
EXPRS = [
    # astype / T / copy / shape
    "A.astype(np.float64)", "A.astype(np.float32).T", "A.T.T", "A.copy()", "J.astype(np.float64)", "A.T.copy()", "A.transpose()",
    # elementwise with scalars, row vectors, (n,k), (n,1), 1-D along the transposed axis
    "A + 1.5", "2 * A", "A - s", "s - A", "A * s", "A / 2", "-A", "A + v3", "v3 - A", "A * v3", "A / w3", "A + A2", "A - A2", "A * A2", "A / P2",
    "A + C1", "A - C1", "C1 * A", "A / Q1", "A.T / q", "A.T + a", "a * A.T", "A.T - A2.T", "A ** 2", "A + R13", "A.T + K31", "A * [1.0, 2.0, 3.0]",
    "(A - A2) * (A - A2)", "A > 0", "A <= A2", "A == A", "(A > 0) & (A2 > 0)", "~(A > A2)",
    "a[:, None] * v3", "a[:, None] + A", "A - a[:, None]", "a[None, :] + A.T",
    # matrix products
    "A.dot(M33)", "A @ M33", "A.dot(M33.T)", "A @ M34", "H.dot(M44.T)", "H.dot(M44.T).T", "M33.dot(A.T)", "M33 @ A.T", "A.dot(v3)", "A @ v3", "np.dot(A, M33)",
    "np.dot(M33, A.T)", "v3 @ A.T", "A.dot(M33[:3, :3].T) + M34[:3, 3]", "np.matmul(A, M33)", "A.dot(2.0)",
    # indexing
    "A[:, 0]", "A[:, -1]", "A[:, 1:3]", "A[:, :2]", "A[:, [2, 0]]", "A[1]", "A[-1]", "A[1, 2]", "A[0][1]", "A[1:]", "A[:-1]", "A[1:3]", "A[1:, :2]", "A[1:, 0]",
    "A[idx]", "A[idx][:, 1]", "A[idx, 2]", "A[mask]", "A[[0, 2]]", "A[[2, 1], 1]", "A.T[0]", "A.T[1:3]", "A.T[2, 1]", "A.T[:, 1]", "A.T[:, 1:]", "A.T[:2, 1:]", "A[...]", "A[..., 1]",
    "A[1:] - A[idx[1:]]", "A[:]", "H[:, :3] / H[:, 3:]", "(H.T / H.T[3]).T[:, :3]", "H.T[:3] / H.T[3]",
    # reductions
    "np.sum(A, axis=1)", "A.sum(axis=1)", "A.sum(axis=-1)", "A.sum(axis=0)", "A.sum()", "np.sum(A)", "A.T.sum(axis=0)", "A.T.sum(axis=1)", "A.sum(axis=1, keepdims=True)",
    "A.mean(axis=1)", "np.mean(A, axis=0)", "a.sum()", "np.sum(a)", "a.mean()", "np.sum(A * A2, axis=1)", "A.sum(axis=0, keepdims=True)",
    # norm / sqrt
    "np.linalg.norm(A, axis=1)", "np.linalg.norm(A - A2, axis=1)", "np.linalg.norm(A, axis=-1)", "np.linalg.norm(A.T, axis=0)", "np.linalg.norm(A, axis=0)", "np.linalg.norm(A)",
    "np.linalg.norm(a)", "np.linalg.norm(A, axis=1, keepdims=True)", "A / np.linalg.norm(P2, axis=1, keepdims=True)", "np.sqrt(P2)", "np.sqrt(q)", "np.sqrt(np.sum(A ** 2, axis=1))",
    "np.sqrt(((A[1:] - A[idx[1:]]) ** 2).sum(axis=1)).sum()", "np.linalg.norm(A[1:] - A[idx[1:]], axis=1).sum()", "np.linalg.norm(A, ord=2, axis=1)",
    # diff / einsum / stacking
    "np.diff(A, axis=0)", "np.diff(A, axis=1)", "np.diff(A.T, axis=1)", "np.diff(A)", "np.einsum('ij,ij->i', A, A2)", "np.einsum('ij,ij->i', A - A2, A - A2)", "np.einsum('ij->i', A)",
    "np.einsum('ij,j->i', A, v3)", "np.einsum('ij,kj->ik', A, M33)", "np.einsum('ij,ij->ij', A, A2)",
    "np.hstack([A, A2])", "np.hstack([A, C1])", "np.column_stack([A, a])", "np.column_stack([a, q])", "np.concatenate([A, C1], axis=1)", "np.concatenate([A, A2], axis=0)[:, 1]",
    "np.concatenate([A.T, A2.T], axis=0)", "np.hstack([A, np.ones_like(a)[:, None]])", "np.stack([a, q], axis=1) + v3[:2]",
    # shape errors numpy raises
    "A + v4", "A.dot(M44)", "A[:, 3]", "np.hstack([A, A2]) + v3", "M44.dot(A.T)", "A[1, 2, 3]",
]


def eng():
    e = Verifier(Registry(), "C12")
    e.pc = []
    return e


def rat(x):
    return z3.RealVal(str(Fraction(float(x))))


def env_for(n, m, symbolic, rng):
    """(pyvc values, numpy values, z3 bindings)"""
    vals, nps, binds = {}, {}, []
    nsym = z3.Int("xn") if symbolic else n
    msym = z3.Int("xm") if symbolic else m
    if symbolic:
        binds += [(nsym, z3.IntVal(n)), (msym, z3.IntVal(m))]

    def arr1(name, data, kind, length):
        c = z3.Const("x_" + name, z3.ArraySort(z3.IntSort(), z3.RealSort() if kind == "real" else (z3.IntSort() if kind == "int" else z3.BoolSort())))
        conc = z3.K(z3.IntSort(), z3.RealVal(0) if kind == "real" else (z3.IntVal(0) if kind == "int" else z3.BoolVal(False)))
        for j, x in enumerate(data):
            conc = z3.Store(conc, j, rat(x) if kind == "real" else (z3.IntVal(int(x)) if kind == "int" else z3.BoolVal(bool(x))))
        binds.append((c, conc))
        return c

    def two(name, data, kind="real"):
        cols = [arr1(f"{name}{c}", data[:, c], kind, n) for c in range(data.shape[1])]
        vals[name], nps[name] = S2Arr(cols, nsym, kind), data

    def one(name, data, kind, length):
        vals[name], nps[name] = SArr(arr1(name, data, kind, length), length, kind, name=name), data

    q8 = lambda *sh: np.round(rng.uniform(-4, 4, size=sh) * 8) / 8  # dyadic: exactly representable, products stay exact enough
    pos = lambda *sh: np.round(rng.uniform(0.5, 4, size=sh) * 8) / 8
    two("A", q8(n, 3)), two("A2", q8(n, 3)), two("P2", pos(n, 3)), two("H", np.hstack([q8(n, 3), pos(n, 1)])), two("C1", q8(n, 1)), two("Q1", pos(n, 1))
    two("J", rng.integers(-3, 4, size=(n, 2)), "int")
    one("a", q8(n), "real", nsym), one("q", pos(n), "real", nsym)
    one("idx", rng.integers(-n, n, size=m), "int", msym), one("mask", rng.integers(0, 2, size=n).astype(bool), "bool", nsym)
    for name, data in (("M33", q8(3, 3)), ("M44", q8(4, 4)), ("M34", q8(3, 4)), ("v3", q8(3)), ("w3", pos(3)), ("v4", q8(4)), ("R13", q8(1, 3)), ("K31", q8(3, 1))):
        vals[name], nps[name] = NArr(data.shape, [Fraction(float(x)) for x in data.reshape(-1)], "real"), data
    s = float(q8(1)[0])
    vals["s"], nps["s"] = Fraction(s), s
    return vals, nps, binds


def cells(v):
    """model value -> (shape with z3 / int extents, getter(index tuple) -> z3 term or python scalar)"""
    if isinstance(v, S2Arr):
        sh = (v.nz(), v.k)
        if v.transposed:
            return sh[::-1], (lambda ix: z3.Select(v.cols[ix[0]], ix[1]))
        return sh, (lambda ix: z3.Select(v.cols[ix[1]], ix[0]))
    if isinstance(v, SArr):
        return (v.nz(),), (lambda ix: z3.Select(v.arr, ix[0]))
    if isinstance(v, NArr):
        st = np.arange(len(v.items)).reshape(v.shape)
        return v.shape, (lambda ix: v.items[int(st[ix])])
    return (), (lambda ix: v)


def number(model, t):
    if isinstance(t, Sym):
        t = t.z
    if isinstance(t, z3.ExprRef):
        r = model.eval(t, model_completion=True)
        if z3.is_true(r) or z3.is_false(r):
            return bool(z3.is_true(r))
        if z3.is_int_value(r):
            return r.as_long()
        if z3.is_rational_value(r):
            return float(Fraction(r.numerator_as_long(), r.denominator_as_long()))
        if z3.is_algebraic_value(r):
            return float(r.approx(30).as_fraction())
        raise AssertionError(f"not a value: {r}")
    if isinstance(t, Fraction):
        return float(t) if t.denominator != 1 else int(t)
    return t


def one_case(expr, n, m, symbolic, rng):
    global bad, count, refused
    vals, nps, binds = env_for(n, m, symbolic, rng)
    count += 1
    if os.environ.get("XV"):
        print(expr, "symbolic" if symbolic else "concrete", flush=True)
    try:
        with np.errstate(all="ignore"):
            want = eval(expr, {"np": np}, dict(nps))
        want_exc = None
    except (ValueError, IndexError) as e:
        want, want_exc = None, type(e)
    e = eng()
    try:
        got = e.ev(ast.parse(expr, mode="eval").body, Frame(vars=dict(vals), globs={"np": np}))
        got_exc = None
    except ProgExc as x:
        got, got_exc = None, x.cls
    except Unsupported as x:
        if want_exc is None:
            refused += 1
            print(f"REFUSED ({'symbolic' if symbolic else 'concrete'} n): {expr}: {x}")
            bad += 1
        return
    if got_exc is not None or (want_exc is not None and not e.obligs):
        if not (want_exc is not None and got_exc is not None and issubclass(got_exc, (ValueError, IndexError))):
            bad += 1
            print("MISMATCH", expr, "numpy raises", want_exc, "model raises", got_exc)
        return
    sub = lambda t: z3.simplify(z3.substitute(t, *binds))

    def ground(f):
        """a fact with the concrete data substituted; universally quantified positions are instantiated over the concrete range"""
        f = sub(f)
        if z3.is_quantifier(f) and f.is_forall():
            nv = f.num_vars()
            out = []
            import itertools

            for tup in itertools.product(range(-1, 2 * max(n, m) + 2), repeat=nv):
                out.append(z3.simplify(z3.substitute_vars(f.body(), *[z3.IntVal(x) for x in reversed(tup)])))
            return z3.And(*out)
        return f

    s = z3.Solver()
    s.set("timeout", 20000)
    for f in e.pc:
        s.add(ground(f))
    if s.check() != z3.sat:
        # a shape / safety condition the model demanded is assumed once it has been emitted: on operands numpy rejects, that very
        # condition is false on the data and makes the collected facts contradictory -- which is the model saying "rejected"
        if want_exc is not None and any(z3.is_false(ground(ob.goal)) for ob in e.obligs if ob.kind in ("safety", "shape")):
            return
        bad += 1
        print("MISMATCH", expr, "assumed facts are not satisfiable on the concrete data (or timeout)")
        return
    mdl0 = s.model()

    class _M:
        def eval(self, t, model_completion=True):
            return mdl0.eval(sub(t), model_completion=True)

    mdl = _M()
    failed = [ob.name for ob in e.obligs if ob.kind in ("safety", "shape") and not z3.is_true(z3.simplify(mdl0.eval(ground(ob.goal), model_completion=True)))]
    if want_exc is not None:
        # numpy rejects the operands: the model must have said so -- by raising (handled above) or by a shape / safety OBLIGATION that is false on this data
        if not failed:
            bad += 1
            print("MISMATCH", expr, "numpy raises", want_exc, "but every shape / safety condition of the model holds")
        return
    if failed:  # conditions the model emitted must HOLD on data numpy accepts
        bad += 1
        print("MISMATCH", expr, "model demands", failed[0], "which fails on data numpy accepts")
        return
    shape, get = cells(got)
    shape = tuple(number(mdl, d) if isinstance(d, z3.ExprRef) else d for d in shape)
    w = np.asarray(want)
    if shape != w.shape:
        bad += 1
        print("MISMATCH", expr, "shape: model", shape, "numpy", w.shape)
        return
    for ix in np.ndindex(*shape):
        gv, wv = number(mdl, get(ix)), w[ix].item()
        ok = (gv == wv) if isinstance(wv, (bool, int)) and isinstance(gv, (bool, int)) else abs(float(gv) - float(wv)) <= 1e-9 * max(1.0, abs(float(wv)))
        if not ok:
            bad += 1
            print("MISMATCH", expr, "cell", ix, "model", gv, "numpy", wv, "(symbolic n)" if symbolic else "(concrete n)")
            return


# ------------------------------------------------------------------------------------------------ cached_property / deepcopy
def cached_property_cases():
    """functools.cached_property: computed once per OBJECT, stored in its __dict__; copy.deepcopy / copy.copy carry the stored value along"""
    global bad, count
    import copy
    import functools

    class Box:
        def __init__(self, v):
            self.v = v
            self.calls = 0

        @functools.cached_property
        def twice(self):
            self.calls += 1
            return 2 * self.v

    b = Box(3)
    first, second = b.twice, b.twice
    c = copy.deepcopy(b)
    c.v = 10
    d = copy.deepcopy(Box(3))
    d.v = 10
    real = dict(first=first, second=second, calls=b.calls, in_dict="twice" in b.__dict__, copy_keeps=c.twice, copy_calls=c.calls, unqueried_copy=d.twice)
    # the same through the model: the class above is not a repository class, so the engine's rule is exercised on its own terms --
    # bind_member stores the value in Obj.fields, deepcopy_value copies Obj.fields
    from pyvc.values import Obj

    e = eng()
    o = Obj(Box, dict(v=3, calls=0))
    calls = []

    def invoke(f, args, kwargs):
        calls.append(1)
        args[0].fields["calls"] += 1
        return 2 * args[0].fields["v"]

    e.invoke = invoke
    e.func_from_py = lambda f, cls=None: f
    r = e.find_method(Box, "twice")
    m_first = e.getattr_(o, "twice")
    m_second = e.getattr_(o, "twice")
    c2 = models.deepcopy_value(o)
    c2.fields["v"] = 10
    d2 = models.deepcopy_value(Obj(Box, dict(v=3, calls=0)))
    d2.fields["v"] = 10
    model = dict(first=m_first, second=m_second, calls=o.fields["calls"], in_dict="twice" in o.fields, copy_keeps=e.getattr_(c2, "twice"), copy_calls=c2.fields["calls"],
                 unqueried_copy=e.getattr_(d2, "twice"))
    for k in real:
        count += 1
        if real[k] != model[k]:
            bad += 1
            print("MISMATCH cached_property", k, "model:", model[k], "CPython:", real[k])
    assert r[0] == "raw"


def main():
    rounds = int(sys.argv[1]) if len(sys.argv) > 1 else 2
    rng = np.random.default_rng(20260930)
    random.seed(7)
    for expr in EXPRS:
        for _ in range(rounds):
            n = int(rng.integers(3, 6))
            m = int(rng.integers(2, 5))
            for symbolic in (True, False):
                one_case(expr, n, m, symbolic, rng)
    cached_property_cases()
    print(f"xcheck_s2arr: {count} comparisons over {len(EXPRS)} expressions, {bad} mismatches ({refused} refused by the model)")
    return 1 if bad else 0


if __name__ == "__main__":
    sys.exit(main())
