#!/bin/sh
# tools/harm_take.sh C05-h [extra props]: take a finished sub-agent's harmless edit out of its scratch worktree, remove the worktree, evaluate
cd "$(dirname "$0")/.."
id=$1; shift; wt=/tmp/harmwt/$id
mkdir -p .scratch/newharm/$id
if [ -d $wt/_harmless ]; then cp $wt/_harmless/patch.diff $wt/_harmless/equiv.py $wt/_harmless/meta.json .scratch/newharm/$id/ && git -C /repo worktree remove --force $wt; fi
.venv/bin/python tools/harmless_eval.py .scratch/newharm/$id $id "$@" 2>&1 | tail -12
