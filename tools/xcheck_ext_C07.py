"""Cross-check of the symbolic-length numpy models used by cat_tree (pyvc/ext_C07.py: np.pad, np.delete; pyvc/npmodels.py:
concat_sarr = np.concatenate of 1-D arrays) against numpy on random concrete inputs.

Run:  /verif/.venv/bin/python tools/xcheck_ext_C07.py [cases=300]      (exit 0 = every model agrees with numpy)

The real model functions are run through a pyvc engine on arrays of SYMBOLIC length n whose first cells are pinned to the numbers of the
case (n == len is added to the path condition); length and every cell of the result are then compared with numpy's, by asking z3 whether
the path condition admits a different value (it must not).  np.delete: also negative positions and out-of-range positions (IndexError).
"""
import os
import random
import sys

sys.path.insert(0, os.path.dirname(os.path.dirname(os.path.abspath(__file__))))
import numpy as np
import z3

from pyvc import ext_C07 as X
from pyvc import npmodels
from pyvc.engine import ProgExc
from pyvc.spec import Registry
from pyvc.values import PList, SArr, Sym, fresh
from pyvc.verify import Verifier

bad = 0


def sym_array(E, vals, name):
    a = SArr.fresh("int", name=name)
    E.assume(a.nz() == len(vals))
    for i, x in enumerate(vals):
        E.assume(z3.Select(a.arr, i) == int(x))
    return a


def agree(E, out, want, what):
    global bad
    s = z3.Solver()
    s.add(*E.pc)
    diff = [out.nz() != len(want)] + [z3.Select(out.arr, i) != int(x) for i, x in enumerate(want)]
    s.add(z3.Or(*diff))
    if s.check() != z3.unsat:
        bad += 1
        print("MISMATCH", what, "numpy:", list(want))


def engine():
    E = Verifier(Registry(), "C07")
    E.cur_key = "xcheck:models"
    return E


def main():
    cases = int(sys.argv[1]) if len(sys.argv) > 1 else 300
    rng = random.Random(7)
    for _ in range(cases):
        v = [rng.randint(-5, 9) for _ in range(rng.randint(1, 7))]
        w = [rng.randint(-5, 9) for _ in range(rng.randint(0, 5))]
        # np.pad(v, (0, m)) with a symbolic m
        E = engine()
        m = rng.randint(0, 4)
        ms = fresh("int", "m")
        E.assume(ms.z == m)
        agree(E, X.np_pad(E, [sym_array(E, v, "v"), (0, ms)], {}), np.pad(np.array(v), (0, m)), f"pad {v} {m}")
        # np.delete(v, [j]) with a symbolic j (in range, negative, out of range)
        j = rng.randint(-len(v) - 1, len(v))
        E = engine()
        js = fresh("int", "j")
        E.assume(js.z == j)
        try:
            want = np.delete(np.array(v), [j])
        except IndexError:
            want = None
        try:
            got = X.np_delete(E, [sym_array(E, v, "v"), PList([js])], {})
        except ProgExc as e:
            got = None
            if want is not None or e.cls is not IndexError:
                globals()["bad"] += 1
                print("MISMATCH delete raises", v, j)
        if got is not None:
            if want is None:
                globals()["bad"] += 1
                print("MISMATCH delete should raise", v, j)
            else:
                agree(E, got, want, f"delete {v} {j}")
        # np.concatenate([v, w])
        E = engine()
        agree(E, npmodels.concat_sarr(E, [sym_array(E, v, "v"), sym_array(E, w, "w")]), np.concatenate([np.array(v, dtype=int), np.array(w, dtype=int)]), f"concat {v} {w}")
    print(f"np.pad / np.delete / np.concatenate (symbolic lengths): {cases} random cases each, mismatches: {bad}")
    return 1 if bad else 0


if __name__ == "__main__":
    sys.exit(main())
