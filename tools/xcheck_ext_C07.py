"""Cross-check of the symbolic-length numpy models used by cat_tree (pyvc/ext_C07.py: np.pad, np.delete; pyvc/npmodels.py:
concat_sarr = np.concatenate of 1-D arrays) against numpy on random concrete inputs.

Run:  /verif/.venv/bin/python tools/xcheck_ext_C07.py [cases=300]      (exit 0 = every model agrees with numpy)

The real model functions are run through a pyvc engine on arrays of SYMBOLIC length n whose first cells are pinned to the numbers of the
case (n == len is added to the path condition); length and every cell of the result are then compared with numpy's, by asking z3 whether
the path condition admits a different value (it must not).  np.delete: also negative positions and out-of-range positions (IndexError).
"""
import os
import random
import sys

sys.path.insert(0, os.path.dirname(os.path.dirname(os.path.abspath(__file__))))
import numpy as np
import z3

from pyvc import ext_C07 as X
from pyvc import npmodels
from pyvc.engine import ProgExc
from pyvc.spec import Registry
from pyvc.values import PList, SArr, Sym, fresh
from pyvc.verify import Verifier

bad = 0


def sym_array(E, vals, name):
    a = SArr.fresh("int", name=name)
    E.assume(a.nz() == len(vals))
    for i, x in enumerate(vals):
        E.assume(z3.Select(a.arr, i) == int(x))
    return a


def agree(E, out, want, what):
    global bad
    s = z3.Solver()
    s.add(*E.pc)
    diff = [out.nz() != len(want)] + [z3.Select(out.arr, i) != int(x) for i, x in enumerate(want)]
    s.add(z3.Or(*diff))
    if s.check() != z3.unsat:
        bad += 1
        print("MISMATCH", what, "numpy:", list(want))


def engine():
    E = Verifier(Registry(), "C07")
    E.cur_key = "xcheck:models"
    return E


def main():
    cases = int(sys.argv[1]) if len(sys.argv) > 1 else 300
    rng = random.Random(7)
    for _ in range(cases):
        v = [rng.randint(-5, 9) for _ in range(rng.randint(1, 7))]
        w = [rng.randint(-5, 9) for _ in range(rng.randint(0, 5))]
        # np.pad(v, (0, m)) with a symbolic m
        E = engine()
        m = rng.randint(0, 4)
        ms = fresh("int", "m")
        E.assume(ms.z == m)
        agree(E, X.np_pad(E, [sym_array(E, v, "v"), (0, ms)], {}), np.pad(np.array(v), (0, m)), f"pad {v} {m}")
        # np.delete(v, [j]) with a symbolic j (in range, negative, out of range)
        j = rng.randint(-len(v) - 1, len(v))
        E = engine()
        js = fresh("int", "j")
        E.assume(js.z == j)
        try:
            want = np.delete(np.array(v), [j])
        except IndexError:
            want = None
        try:
            got = X.np_delete(E, [sym_array(E, v, "v"), PList([js])], {})
        except ProgExc as e:
            got = None
            if want is not None or e.cls is not IndexError:
                globals()["bad"] += 1
                print("MISMATCH delete raises", v, j)
        if got is not None:
            if want is None:
                globals()["bad"] += 1
                print("MISMATCH delete should raise", v, j)
            else:
                agree(E, got, want, f"delete {v} {j}")
        # np.concatenate([v, w])
        E = engine()
        agree(E, npmodels.concat_sarr(E, [sym_array(E, v, "v"), sym_array(E, w, "w")]), np.concatenate([np.array(v, dtype=int), np.array(w, dtype=int)]), f"concat {v} {w}")
    print(f"np.pad / np.delete / np.concatenate (symbolic lengths): {cases} random cases each, mismatches: {bad}")
    gather_cases(cases, rng)
    return 1 if bad else 0


def gather_cases(cases, rng):
    """concrete-shape arrays (pyvc/narr.py): `a[idx]` with an integer index ARRAY -- empty (nothing selected by a mask: the result is an empty
    array of a's kind, not an IndexError), with symbolic entries pinned to the numbers of the case (in range, negative, out of range ->
    IndexError), and the gather of a gather `a[a[mask]]` of cat_tree's refactored child list"""
    global bad
    from pyvc import narr
    from pyvc.values import NArr

    def run(E, a, idx):
        try:
            return narr.getitem(E, a, idx)
        except ProgExc as e:
            return e.cls

    for _ in range(cases):
        v = [rng.randint(-5, 9) for _ in range(rng.randint(1, 6))]
        n = len(v)
        ix = [rng.randint(-n - 1, n) for _ in range(rng.randint(0, 4))]
        a_np = np.array(v)
        try:
            want = a_np[np.array(ix, dtype=np.intp)]
        except IndexError:
            want = IndexError
        for symbolic in (False, True):
            E = engine()
            E.strict_index = False  # the verifier's default turns the bounds of a symbolic index into a safety obligation; here the program semantics (wrap-around, IndexError) is what is compared
            items = []
            for x in ix:
                if symbolic:
                    sx = fresh("int", "ix")
                    E.assume(sx.z == x)
                    items.append(sx)
                else:
                    items.append(x)
            got = run(E, NArr((n,), list(v), "int"), NArr((len(ix),), items, "int"))
            if want is IndexError or got is IndexError:
                if want is not got:
                    bad += 1
                    print("MISMATCH gather raises", v, ix, symbolic, got)
                continue
            s = z3.Solver()
            s.add(*E.pc)
            from pyvc.values import to_z3
            ok = isinstance(got, NArr) and got.kind == "int" and got.shape == want.shape
            if ok and len(ix):
                s.add(z3.Or(*[to_z3(g, "int") != int(w) for g, w in zip(got.items, want)]))
                ok = s.check() == z3.unsat
            if not ok:
                bad += 1
                print("MISMATCH gather", v, ix, symbolic, got)
        # a[a[mask]] where a holds positions and the mask selects nothing / something
        m = [rng.random() < 0.4 for _ in range(n)]
        E = engine()
        pos = NArr((n,), list(range(n)), "int")
        ch = narr.getitem(E, pos, NArr((n,), m, "bool"))
        got = run(E, pos, ch)
        want = np.arange(n)[np.arange(n)[np.array(m)]]
        if not (isinstance(got, NArr) and got.kind == "int" and [int(x) for x in got.items] == want.tolist() and isinstance(ch, NArr) and ch.kind == "int"):
            bad += 1
            print("MISMATCH gather of a mask gather", n, m, got)
    print(f"a[idx] with integer index arrays (empty / symbolic entries / gather of a mask gather): {cases} random cases, mismatches so far: {bad}")


if __name__ == "__main__":
    sys.exit(main())
