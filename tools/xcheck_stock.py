"""Cross-check of the STOCK models (pyvc/stock_np.py) against numpy on concrete inputs.

Run:  /verif/.venv/bin/python tools/xcheck_stock.py [cases=40] [seed=0]          (exit 0 = every model agrees)

Every model is reached the way a carrier reaches it: `models.lookup_model(np.X)` / `models.method_of(E, a, "x")` / `models.setitem` on an engine
of a property that installs NO extension module (C04), so what is exercised is the stock path.  Operands are 1-D arrays of SYMBOLIC length
pinned to the numbers of the case (length and every cell assumed equal to the case's values); numpy computes the answer on the same numbers; then z3
is asked about the path condition the model left behind:
   entailed:  pc => (model result == numpy's result)      -- the model determines the answer and it is numpy's
   admitted:  pc and (model result == numpy's result) is satisfiable -- the model leaves the answer (partly) open but never excludes numpy's
`unknown` answers are counted as inconclusive (reported, not a failure; the run fails when more than 5 % are inconclusive).
Exceptions: where numpy raises, the model must raise the same class (ProgExc) or leave a refutable safety obligation.

Covered (each with random cases incl. empty arrays, duplicates, negative numbers; int and, where numpy allows, float / bool operands):
  np.argsort (default: admitted + keys sorted + permutation; kind='stable': entailed), a.argsort(), np.sort, a.sort(), np.lexsort,
  np.searchsorted (left / right; array, scalar and list needles; sorter=), a.searchsorted, np.take / a.take, np.put / a.put,
  a[idx] = values (scatter), a[mask] = values, np.flatnonzero, np.nonzero / a.nonzero() / np.where(mask) [0],
  np.bincount(minlength=), np.add.at, np.unique (plain / return_index / return_inverse / return_counts), np.isin / np.in1d (invert=),
  np.setdiff1d, np.intersect1d, np.min / np.max / a.min / a.max (initial=), np.argmin / np.argmax / a.argmin / a.argmax,
  np.zeros / ones / full / empty (symbolic n), zeros_like / ones_like / full_like / empty_like, np.concatenate / hstack / append, np.repeat,
  np.arange (float step), np.fromiter, a.astype (int <-> float <-> bool), a.tolist(), np.count_nonzero (int operand), np.logical_and / or / not,
  np.cumsum (list operand), a.cumsum(), and the native route (concrete NArr operands evaluated by numpy itself).
"""
import os
import random
import sys
from fractions import Fraction

sys.path.insert(0, os.path.dirname(os.path.dirname(os.path.abspath(__file__))))
import numpy as np
import z3

from pyvc import models
from pyvc.engine import ProgExc, Unsupported
from pyvc.spec import Registry
from pyvc.values import NArr, PList, SArr, Sym, to_z3
from pyvc.verify import Verifier

bad = inconclusive = checks = 0
RNG = random.Random(int(sys.argv[2]) if len(sys.argv) > 2 else 0)
CASES = int(sys.argv[1]) if len(sys.argv) > 1 else 40


def engine():
    E = Verifier(Registry(), "C04")
    E.cur_key = "xcheck:stock"
    return E


def zval(x, kind):
    if kind == "bool":
        return z3.BoolVal(bool(x))
    if kind == "int":
        return z3.IntVal(int(x))
    f = Fraction(float(x))
    return z3.RealVal(f"{f.numerator}/{f.denominator}")


def kind_of_np(a):
    return "bool" if a.dtype.kind == "b" else "int" if a.dtype.kind in "iu" else "real"


def pin(E, vals, name="a", kind=None):
    vals = np.asarray(vals)
    kind = kind or kind_of_np(vals)
    a = SArr.fresh(kind, name=name, dtype=vals.dtype)
    E.assume(a.nz() == len(vals))
    for i, x in enumerate(vals):
        E.assume(z3.Select(a.arr, i) == zval(x, kind))
    return a


def same(out, want):
    """z3 formula: the model value `out` equals numpy's `want`"""
    if isinstance(want, tuple):
        if not isinstance(out, tuple) or len(out) != len(want):
            return z3.BoolVal(False)
        return z3.And(*[same(o, w) for o, w in zip(out, want)]) if want else z3.BoolVal(True)
    if isinstance(want, (np.ndarray, list)):
        want = np.asarray(want)
        if hasattr(out, "materialize"):  # npmodels.FirstTrue: np.nonzero(mask)[0] of the older stock model, the whole array on demand
            out = out.materialize(CUR[0])
        if isinstance(out, SArr):
            k = out.kind
            return z3.And(out.nz() == len(want), *[z3.Select(out.arr, i) == zval(x, k) for i, x in enumerate(want)])
        if isinstance(out, NArr):
            if out.shape != want.shape:
                return z3.BoolVal(False)
            return z3.And(*[to_z3(o, out.kind) == zval(x, out.kind) for o, x in zip(out.items, want.ravel())]) if want.size else z3.BoolVal(True)
        if isinstance(out, PList):
            if out.items is None:
                k = out.kinds[0]
                return z3.And(zn(out.n) == len(want), *[z3.Select(out.cols[0], i) == zval(x, k) for i, x in enumerate(want)])
            return same(NArr((len(out.items),), out.items, kind_of_np(want)), want)
        return z3.BoolVal(False)
    k = "bool" if isinstance(want, (bool, np.bool_)) else "int" if isinstance(want, (int, np.integer)) else "real"
    return to_z3(out, k) == zval(want, k)


CUR = [None]


def zn(n):
    return z3.IntVal(n) if isinstance(n, int) else n


WHAT = [""]


def solve(E, extra, limit=int(os.environ.get("XCHECK_MS", "6000"))):
    global inconclusive
    s = z3.Solver()
    s.set("timeout", limit)
    s.add(*E.pc)
    s.add(extra)
    r = s.check()
    if r == z3.unknown:
        inconclusive += 1
        if os.environ.get("XCHECK_V"):
            print("inconclusive:", WHAT[0])
        return None
    return r


def mismatch(what):
    global bad
    bad += 1
    print("MISMATCH", what)


def entailed(E, fact, what):
    global checks
    checks += 1
    WHAT[0] = "entailed " + what
    if solve(E, z3.Not(fact)) == z3.sat:
        mismatch("not entailed: " + what)


def admitted(E, fact, what):
    global checks
    checks += 1
    WHAT[0] = "admitted " + what
    if solve(E, fact) == z3.unsat:
        mismatch("excluded: " + what)


def consistent(E, what):
    global checks
    checks += 1
    WHAT[0] = "consistent " + what
    if solve(E, z3.BoolVal(True)) == z3.unsat:
        mismatch("model facts contradict the pinned operands: " + what)


def call(E, fn, args, kwargs=None):
    m = models.lookup_model(fn)
    assert m is not None, fn
    return m(E, list(args), dict(kwargs or {}))


def meth(E, a, name, args=(), kwargs=None):
    m = models.method_of(E, a, name)
    return m.model(E, m.recv, list(args), dict(kwargs or {}))


def run(what, sym, real, mode="entailed"):
    """sym(E) -> model value;  real() -> numpy value (or raises)"""
    E = CUR[0] = engine()
    try:
        want = real()
    except Exception as e:  # noqa: BLE001
        want = e
    n0 = len(E.obligs)
    try:
        got = sym(E)
    except ProgExc as e:
        global checks
        checks += 1
        if not (isinstance(want, Exception) and issubclass(e.cls, type(want)) or isinstance(want, Exception) and issubclass(type(want), e.cls)):
            mismatch(f"{what}: model raises {e.cls.__name__}, numpy gives {want!r}")
        return
    except Unsupported as e:
        mismatch(f"{what}: unsupported: {e}")
        return
    if isinstance(want, Exception):
        # numpy raises: acceptable only if the model emitted a safety obligation that is refutable on these operands
        refutable = False
        for ob in E.obligs[n0:]:
            s = z3.Solver()
            s.set("timeout", 10000)
            s.add(*ob.hyps)
            s.add(z3.Not(ob.goal))
            if s.check() == z3.sat:
                refutable = True
        checks += 1
        if not refutable:
            mismatch(f"{what}: numpy raises {type(want).__name__}, the model neither raises nor owes a refutable obligation")
        return
    if mode == "facts":  # counting models (recursively defined ghost counters): z3 finds no MODEL of such axioms in reasonable time, so the
        return E, got   # caller checks entailed consequences only (their satisfiability checks are in tools/xcheck_tables.py / xcheck_C18.py)
    if mode != "entailed-only":
        consistent(E, what)
    (admitted if mode == "admitted" else entailed)(E, same(got, want), f"{what}: numpy gives {want!r}")
    return E, got


def ints(n=None, lo=-3, hi=6):
    n = RNG.randint(0, 5) if n is None else n
    return np.array([RNG.randint(lo, hi) for _ in range(n)], dtype=np.int64)


def floats(n=None):
    n = RNG.randint(0, 5) if n is None else n
    return np.array([RNG.randint(-8, 8) / 4 for _ in range(n)], dtype=np.float64)


def bools(n=None):
    n = RNG.randint(0, 5) if n is None else n
    return np.array([RNG.random() < 0.5 for _ in range(n)], dtype=bool)


def operand():
    return RNG.choice([ints, ints, floats])()


# ------------------------------------------------------------------------------------------------------------------ order
def order_block():
    for _ in range(CASES):
        v = operand()
        run(f"argsort stable {v}", lambda E: call(E, np.argsort, [pin(E, v)], {"kind": "stable"}), lambda: np.argsort(v, kind="stable"))
        run(f"a.argsort(kind=mergesort) {v}", lambda E: meth(E, pin(E, v), "argsort", [], {"kind": "mergesort"}), lambda: np.argsort(v, kind="stable"))
        r = run(f"argsort default {v}", lambda E: call(E, np.argsort, [pin(E, v)]), lambda: np.argsort(v), "admitted")
        if r:  # whatever permutation: a[order] is the sorted sequence
            E, o = r
            a = pin(E, v, "again")
            entailed(E, z3.And(*[z3.Select(a.arr, z3.Select(o.arr, i)) == zval(x, a.kind) for i, x in enumerate(np.sort(v))]), f"a[argsort(a)] sorted {v}")
        run(f"sort {v}", lambda E: call(E, np.sort, [pin(E, v)]), lambda: np.sort(v))

        def sort_in_place(E):
            a = pin(E, v)
            meth(E, a, "sort")
            return a

        run(f"a.sort() {v}", sort_in_place, lambda: np.sort(v))
        k2 = ints(len(v), 0, 2)
        run(f"lexsort ({v}, {k2})", lambda E: call(E, np.lexsort, [(pin(E, v, "k1"), pin(E, k2, "k2"))]), lambda: np.lexsort((v, k2)))
        vb = bools(len(v))
        run(f"argsort stable bool {vb}", lambda E: call(E, np.argsort, [pin(E, vb)], {"kind": "stable"}), lambda: np.argsort(vb, kind="stable"))


def search_block():
    for _ in range(CASES):
        keys = np.sort(operand())
        nd = ints() if keys.dtype.kind == "i" else floats()
        for side in ("left", "right"):
            run(f"searchsorted {keys} {nd} {side}", lambda E: call(E, np.searchsorted, [pin(E, keys, "k"), pin(E, nd, "v")], {"side": side}), lambda: np.searchsorted(keys, nd, side=side))
            x = int(RNG.randint(-4, 7))
            run(f"searchsorted scalar {keys} {x} {side}", lambda E: call(E, np.searchsorted, [pin(E, keys, "k"), x, side]), lambda: np.searchsorted(keys, x, side))
            run(f"a.searchsorted {keys} {x} {side}", lambda E: meth(E, pin(E, keys, "k"), "searchsorted", [x], {"side": side}), lambda: keys.searchsorted(x, side=side))
            lst = [int(t) for t in ints(2)]
            run(f"searchsorted list needles {keys} {lst} {side}", lambda E: call(E, np.searchsorted, [pin(E, keys, "k"), PList(lst)], {"side": side}), lambda: np.searchsorted(keys, lst, side=side))
        raw = ints()
        so = np.argsort(raw, kind="stable")
        run(f"searchsorted sorter {raw} {nd}", lambda E: call(E, np.searchsorted, [pin(E, raw, "k"), pin(E, np.asarray(nd, dtype=np.int64), "v")], {"sorter": pin(E, so, "so")}),
            lambda: np.searchsorted(raw, np.asarray(nd, dtype=np.int64), sorter=so))


# ------------------------------------------------------------------------------------------------------------------ gather / scatter
def index_block():
    for _ in range(CASES):
        v = operand()
        n = len(v)
        idx = np.array([RNG.randint(0, max(n - 1, 0)) for _ in range(RNG.randint(0, 4))], dtype=np.int64) if n else np.array([], dtype=np.int64)
        run(f"take {v} {idx}", lambda E: call(E, np.take, [pin(E, v), pin(E, idx, "i")]), lambda: np.take(v, idx))
        run(f"a.take {v} {idx}", lambda E: meth(E, pin(E, v), "take", [pin(E, idx, "i")]), lambda: v.take(idx))
        perm = np.array(RNG.sample(range(n), RNG.randint(0, n)), dtype=np.int64)
        vals = (ints if v.dtype.kind == "i" else floats)(len(perm))

        def scatter(E, how):
            a = pin(E, v)
            if how == "setitem":
                models.setitem(E, a, pin(E, perm, "i"), pin(E, vals, "w"))
            elif how == "put":
                call(E, np.put, [a, pin(E, perm, "i"), pin(E, vals, "w")])
            else:
                meth(E, a, "put", [pin(E, perm, "i"), pin(E, vals, "w")])
            return a

        def real_scatter():
            w = v.copy()
            w[perm] = vals
            return w

        for how in ("setitem", "put", "a.put"):
            run(f"{how} {v}[{perm}] = {vals}", lambda E: scatter(E, how), real_scatter)
        oob = np.array([n + 1], dtype=np.int64)
        run(f"scatter out of bounds {v}[{oob}]", lambda E: (models.setitem(E, pin(E, v), pin(E, oob, "i"), pin(E, v[:1] if n else ints(1), "w")), 0)[1],
            lambda: v.copy().__setitem__(oob, (v[:1] if n else ints(1))))
        mask = bools(n)
        mv = (ints if v.dtype.kind == "i" else floats)(int(mask.sum()))

        def mask_store(E):
            a = pin(E, v)
            models.setitem(E, a, pin(E, mask, "m"), pin(E, mv, "w"))
            return a

        def real_mask_store():
            w = v.copy()
            w[mask] = mv
            return w

        run(f"{v}[{mask}] = {mv}", mask_store, real_mask_store)
        if n:
            wrong = (ints if v.dtype.kind == "i" else floats)(int(mask.sum()) + 2)
            run(f"{v}[{mask}] = {wrong} (too many)", lambda E: (models.setitem(E, pin(E, v), pin(E, mask, "m"), pin(E, wrong, "w")), 0)[1], lambda: v.copy().__setitem__(mask, wrong))

        def self_mask(E):  # hit[hit] = values: the mask is the array itself
            a = pin(E, mask)
            models.setitem(E, a, a, pin(E, bools(int(mask.sum())) if False else sm, "w"))
            return a

        sm = bools(int(mask.sum()))

        def real_self_mask():
            w = mask.copy()
            w[w] = sm
            return w

        run(f"m[m] = {sm} for m = {mask}", self_mask, real_self_mask)
        z = RNG.choice([mask, ints(n, -1, 1)])
        run(f"flatnonzero {z}", lambda E: call(E, np.flatnonzero, [pin(E, z)]), lambda: np.flatnonzero(z))
        run(f"nonzero {z}", lambda E: call(E, np.nonzero, [pin(E, z)]), lambda: np.nonzero(z))
        run(f"a.nonzero() {z}", lambda E: meth(E, pin(E, z), "nonzero"), lambda: z.nonzero())
        run(f"where(mask) {mask}", lambda E: call(E, np.where, [pin(E, mask)]), lambda: np.where(mask))


# ------------------------------------------------------------------------------------------------------------------ counting / sets
def count_block():
    for _ in range(CASES):
        x = ints(lo=0, hi=4)
        ml = RNG.randint(0, 6)
        r = run(f"bincount {x} minlength={ml}", lambda E: call(E, np.bincount, [pin(E, x)], {"minlength": ml}), lambda: np.bincount(x, minlength=ml), "facts")
        if r:
            E, out = r
            want = np.bincount(x, minlength=ml)
            entailed(E, out.nz() == len(want), f"bincount length {x} {ml}")
            for v in sorted(set(int(t) for t in x)):
                entailed(E, z3.Select(out.arr, v) >= 1, f"bincount {x}: a present value {v} is counted at least once")
            for v in [t for t in range(len(want)) if want[t] >= 2]:
                entailed(E, z3.Select(out.arr, v) >= 2, f"bincount {x}: a value {v} present twice is counted at least twice")
        neg = np.append(x, -1)
        run(f"bincount negative {neg}", lambda E: call(E, np.bincount, [pin(E, neg)]), lambda: np.bincount(neg))
        tgt = ints(RNG.randint(1, 5))
        idx = ints(lo=0, hi=len(tgt) - 1)
        c = RNG.randint(-2, 3)

        def add_at(E):
            a = pin(E, tgt)
            call(E, np.add.at, [a, pin(E, idx, "i"), c])
            return a

        def real_add_at():
            w = tgt.copy()
            np.add.at(w, idx, c)
            return w

        r = run(f"add.at {tgt} {idx} {c}", add_at, real_add_at, "facts")
        if r and len(idx) == 0:
            entailed(r[0], same(r[1], tgt), f"add.at with no index leaves {tgt}")
        elif r and c > 0:
            for v in sorted(set(int(t) for t in idx)):
                entailed(r[0], z3.Select(r[1].arr, v) >= int(tgt[v]) + c, f"add.at {tgt} {idx} {c}: cell {v} grows by at least c")
        a, b = ints(), ints()
        for kw in ({}, {"return_index": True}, {"return_inverse": True}, {"return_counts": True}, {"return_index": True, "return_inverse": True, "return_counts": True}):
            if "return_counts" in kw:
                r = run(f"unique {a} {kw}", lambda E: call(E, np.unique, [pin(E, a)], kw), lambda: np.unique(a, **kw), "facts")
                if r:  # values (and index / inverse) are determined; every count is at least 1
                    want = np.unique(a, **kw)
                    entailed(r[0], same(tuple(r[1][:-1]), tuple(want[:-1])), f"unique {a} {kw}: all but the counts")
                    entailed(r[0], z3.And(*[z3.Select(r[1][-1].arr, q) >= 1 for q in range(len(want[0]))]) if len(want[0]) else z3.BoolVal(True), f"unique counts >= 1 {a}")
            else:
                run(f"unique {a} {kw}", lambda E: call(E, np.unique, [pin(E, a)], kw), lambda: np.unique(a, **kw), "entailed-only")
        run(f"unique (values) {a}", lambda E: call(E, np.unique, [pin(E, a)]), lambda: np.unique(a))
        run(f"isin {a} {b}", lambda E: call(E, np.isin, [pin(E, a), pin(E, b, "b")]), lambda: np.isin(a, b))
        run(f"isin invert {a} {b}", lambda E: call(E, np.isin, [pin(E, a), pin(E, b, "b")], {"invert": True}), lambda: np.isin(a, b, invert=True))
        if hasattr(np, "in1d"):
            run(f"in1d {a} {b}", lambda E: call(E, np.in1d, [pin(E, a), pin(E, b, "b")]), lambda: np.isin(a, b))
        run(f"setdiff1d {a} {b}", lambda E: call(E, np.setdiff1d, [pin(E, a), pin(E, b, "b")]), lambda: np.setdiff1d(a, b), "admitted")
        run(f"intersect1d {a} {b}", lambda E: call(E, np.intersect1d, [pin(E, a), pin(E, b, "b")]), lambda: np.intersect1d(a, b), "admitted")
        r = run(f"intersect1d len {a} {b}", lambda E: call(E, np.intersect1d, [pin(E, a), pin(E, b, "b")]), lambda: np.intersect1d(a, b), "admitted")
        if r and len(a) <= 3 and len(b) <= 3:
            entailed(r[0], same(r[1], np.intersect1d(a, b)), f"intersect1d determined {a} {b}")
        z = ints(lo=-1, hi=1)
        run(f"count_nonzero {z}", lambda E: call(E, np.count_nonzero, [pin(E, z)]), lambda: int(np.count_nonzero(z)), "entailed-only")
        m1, m2 = bools(len(z)), bools(len(z))
        run(f"logical_and {m1} {m2}", lambda E: call(E, np.logical_and, [pin(E, m1), pin(E, m2, "b")]), lambda: np.logical_and(m1, m2))
        run(f"logical_or {m1} {z}", lambda E: call(E, np.logical_or, [pin(E, m1), pin(E, z, "b")]), lambda: np.logical_or(m1, z))
        run(f"logical_not {z}", lambda E: call(E, np.logical_not, [pin(E, z)]), lambda: np.logical_not(z))


# ------------------------------------------------------------------------------------------------------------------ reductions
def reduce_block():
    for _ in range(CASES):
        v = operand()
        ini = RNG.choice([None, int(RNG.randint(-5, 8))])
        kw = {} if ini is None else {"initial": ini}
        for fn, nm in ((np.min, "min"), (np.max, "max")):
            run(f"np.{nm} {v} {kw}", lambda E: call(E, fn, [pin(E, v)], kw), lambda: fn(v, **kw).item() if True else None)
            run(f"a.{nm}() {v} {kw}", lambda E: meth(E, pin(E, v), nm, [], kw), lambda: getattr(v, nm)(**kw).item())
        run(f"np.amax axis=None {v}", lambda E: call(E, np.amax, [pin(E, v)], {"axis": None}), lambda: np.amax(v, axis=None).item())
        for fn, nm in ((np.argmin, "argmin"), (np.argmax, "argmax")):
            run(f"np.{nm} {v}", lambda E: call(E, fn, [pin(E, v)]), lambda: int(fn(v)))
            run(f"a.{nm}() {v}", lambda E: meth(E, pin(E, v), nm), lambda: int(getattr(v, nm)()))
        b = bools()
        run(f"argmax bool {b}", lambda E: meth(E, pin(E, b), "argmax"), lambda: int(b.argmax()))
        w = ints()
        run(f"cumsum list {w}", lambda E: call(E, np.cumsum, [PList.fresh("int", None) if False else pin_list(E, w)]), lambda: np.cumsum(w))
        run(f"a.cumsum() {w}", lambda E: meth(E, pin(E, w), "cumsum"), lambda: w.cumsum())


def pin_list(E, vals):
    p = PList.fresh("int", None, name="l", tup=False)
    E.assume(zn(p.n) == len(vals))
    for i, x in enumerate(vals):
        E.assume(z3.Select(p.cols[0], i) == int(x))
    return p


# ------------------------------------------------------------------------------------------------------------------ allocation / shape
def alloc_block():
    for _ in range(CASES):
        n = RNG.randint(0, 4)

        def symn(E):
            s = Sym(z3.Int("n"), "int")
            E.assume(s.z == n)
            return s

        dt = RNG.choice([None, np.int32, np.float64, bool])
        kw = {} if dt is None else {"dtype": dt}
        run(f"zeros({n}, {dt})", lambda E: call(E, np.zeros, [symn(E)], kw), lambda: np.zeros(n, **kw))
        run(f"ones(({n},), {dt})", lambda E: call(E, np.ones, [(symn(E),)], kw), lambda: np.ones((n,), **kw))
        fv = RNG.choice([-1, 3, 0])
        run(f"full({n}, {fv}, {dt})", lambda E: call(E, np.full, [symn(E), fv], kw), lambda: np.full(n, fv, **kw))
        r = run(f"empty({n})", lambda E: call(E, np.empty, [symn(E)], {"dtype": np.int64}), lambda: np.zeros(n, dtype=np.int64), "admitted")
        run("zeros(-1)", lambda E: call(E, np.zeros, [(lambda s: (E.assume(s.z == -1), s)[1])(Sym(z3.Int("n"), "int"))]), lambda: np.zeros(-1))
        v = operand()
        run(f"zeros_like {v} {dt}", lambda E: call(E, np.zeros_like, [pin(E, v)], kw), lambda: np.zeros_like(v, **kw))
        run(f"ones_like {v} {dt}", lambda E: call(E, np.ones_like, [pin(E, v)], kw), lambda: np.ones_like(v, **kw))
        run(f"full_like {v} {fv} {dt}", lambda E: call(E, np.full_like, [pin(E, v), fv], kw), lambda: np.full_like(v, fv, **kw))
        run(f"empty_like {v}", lambda E: call(E, np.empty_like, [pin(E, v)]), lambda: np.zeros_like(v), "admitted")
        w = operand()
        run(f"concatenate {v} {w}", lambda E: call(E, np.concatenate, [[pin(E, v), pin(E, w, "b")]]), lambda: np.concatenate([v, w]))
        run(f"concatenate 3 {v} {w}", lambda E: call(E, np.concatenate, [(pin(E, v), NArr((2,), [1, 2], "int"), pin(E, w, "b"))]), lambda: np.concatenate((v, np.array([1, 2]), w)))
        run(f"hstack {v} {w}", lambda E: call(E, np.hstack, [[pin(E, v), pin(E, w, "b")]]), lambda: np.hstack([v, w]))
        run(f"append {v} {w}", lambda E: call(E, np.append, [pin(E, v), pin(E, w, "b")]), lambda: np.append(v, w))
        run(f"append scalar {v} 7", lambda E: call(E, np.append, [pin(E, v), 7]), lambda: np.append(v, 7))
        k = RNG.randint(0, 3)
        run(f"repeat {v} {k}", lambda E: call(E, np.repeat, [pin(E, v), k]), lambda: np.repeat(v, k))
        run(f"repeat scalar 4 x {n}", lambda E: call(E, np.repeat, [4, symn(E)]), lambda: np.repeat(4, n))
        lo, st = RNG.randint(-2, 2) / 2, RNG.choice([0.5, 0.25, 1.5])
        hi = lo + RNG.randint(0, 5) * 0.4
        run(f"arange({lo}, {hi}, {st})", lambda E: call(E, np.arange, [Fraction(lo), Fraction(hi), Fraction(st)]), lambda: np.arange(lo, hi, st))
        src = ints()
        for dt2 in (np.int64, np.float64, bool):
            run(f"fromiter {src} {dt2}", lambda E: call(E, np.fromiter, [pin_list(E, src)], {"dtype": dt2}), lambda: np.fromiter(list(src), dtype=dt2))
            run(f"astype {src} -> {dt2}", lambda E: meth(E, pin(E, src), "astype", [dt2]), lambda: src.astype(dt2))
        f = floats()
        run(f"astype {f} -> int", lambda E: meth(E, pin(E, f), "astype", [np.int64]), lambda: f.astype(np.int64))
        run(f"astype {f} -> bool", lambda E: meth(E, pin(E, f), "astype", [bool]), lambda: f.astype(bool))
        bb = bools()
        run(f"astype {bb} -> int", lambda E: meth(E, pin(E, bb), "astype", [np.int32]), lambda: bb.astype(np.int32))
        run(f"tolist {src}", lambda E: meth(E, pin(E, src), "tolist"), lambda: src.tolist())


def native_block():
    for _ in range(max(CASES // 4, 5)):
        v = ints()
        nv = NArr((len(v),), [int(t) for t in v], "int", np.dtype("int64"))
        run(f"native argsort {v}", lambda E: call(E, np.argsort, [nv], {"kind": "stable"}), lambda: np.argsort(v, kind="stable"))
        run(f"native unique {v}", lambda E: call(E, np.unique, [nv], {"return_index": True}), lambda: np.unique(v, return_index=True), "entailed-only")
        run(f"native flatnonzero {v}", lambda E: call(E, np.flatnonzero, [nv]), lambda: np.flatnonzero(v))
        run(f"native intersect1d {v}", lambda E: call(E, np.intersect1d, [nv, NArr((2,), [1, 2], "int")]), lambda: np.intersect1d(v, [1, 2]), "admitted")


if __name__ == "__main__":
    only = os.environ.get("XCHECK_ONLY")
    for blk in (order_block, search_block, index_block, count_block, reduce_block, alloc_block, native_block):
        if only and only not in blk.__name__:
            continue
        b0, c0, i0 = bad, checks, inconclusive
        blk()
        print(f"{blk.__name__}: checks={checks - c0} mismatches={bad - b0} inconclusive={inconclusive - i0}")
    print(f"xcheck_stock: checks={checks} mismatches={bad} inconclusive={inconclusive}")
    sys.exit(1 if bad or inconclusive * 20 > checks else 0)
