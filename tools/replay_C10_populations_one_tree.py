"""native replay of the FINDING recorded at contracts/C10.py (PopulationsFeatureExtractor._get_impl): run with /venv/bin/python"""
import numpy as np, warnings
warnings.simplefilter("ignore")
from swcgeom.core import Tree, Population, Populations
from swcgeom.analysis import extract_feature
def mk(n):
    return Tree(n, id=np.arange(n), pid=np.arange(-1, n-1), x=np.arange(n, dtype=np.float32), y=np.zeros(n), z=np.zeros(n), r=np.ones(n), type=np.array([1]+[3]*(n-1)))
# one population holding one tree
pops = Populations([Population([mk(3)])])
fe = extract_feature(pops)
try:
    print("one population of one tree:", fe.get("length"))
except Exception as e:
    print("one population of one tree:", type(e).__name__, e)
pops = Populations([Population([mk(3), mk(2)])])
print("one population of two trees:", extract_feature(pops).get("length"))
pops = Populations([Population([mk(3)]), Population([mk(4)])])
print("two populations of one tree:", extract_feature(pops).get("length"))
