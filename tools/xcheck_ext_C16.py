"""Cross-check of the library models of pyvc/ext_C16.py (fourth session) against numpy / scipy on random concrete inputs.

  * np.unique(a, return_index, return_inverse, return_counts)   (sorted distinct values, FIRST occurrence, inverse, counts)
  * np.round / np.around / round(x, d)                           (nearest multiple of 10**-d, ties to even)
  * np.interp with duplicate sample points                       (right-continuous at duplicate knots, clamped outside)
  * np.interp with the LAST knots coincident / all knots coincident (total length zero): finite, fp[-1] at and right of the last knot
  * np.searchsorted(a, v, side) on an ascending array with duplicates, needle vectors (concrete shape and symbolic-length form), both sides
  * np.clip of a 1-D index array, a[idx] / A[idx] (rows) through an integer index array of the symbolic-length form
  * np.linspace(a, b, m) with a concrete m                       (end point exactly b, m = 0, 1, 2 ...)
  * np.insert, np.ceil, np.floor, np.maximum, np.minimum on scalars
  * np.argmin of a concrete-shape array (one fork per possible answer, +inf entries skipped)
  * scipy.signal.convolve(ones(n), ones(w), mode="same") >= 1 everywhere

Run:  /verif/.venv/bin/python tools/xcheck_ext_C16.py [cases=60]      (exit 0 = every model agrees with the library)

The real model functions run on a pyvc engine over arrays of concrete shape whose cells are SYMBOLIC reals pinned to the numbers of
the case by assumptions (so every fork inside a model is decided by feasibility, as in a proof); every cell of the result is then
compared with the library's by asking z3 whether the path condition admits a different value (it must not).  All numbers are
multiples of 1/8 in a small range, so that numpy's float results are exact.
"""
import math
import os
import random
import sys
from fractions import Fraction

sys.path.insert(0, os.path.dirname(os.path.dirname(os.path.abspath(__file__))))
import numpy as np
import z3

from pyvc import ext_C16 as X
from pyvc import narr
from pyvc.spec import Registry
from pyvc.values import NArr, SArr, Sym, fresh, to_z3
from pyvc.verify import Verifier

bad = 0
done = {}


def engine():
    E = Verifier(Registry(), "C16")
    E.cur_key = "xcheck:models"
    return E


def pinned(E, vals, kind="real"):
    out = []
    for v in vals:
        s = fresh(kind, "c")
        E.assume(s.z == (z3.RealVal(str(Fraction(v))) if kind == "real" else int(v)))
        out.append(s)
    return NArr((len(out),), out, kind)


def mismatch(what, *info):
    global bad
    bad += 1
    print("MISMATCH", what, *info)


def same(E, got, want, what, info=()):
    """`got` (model value: scalar or NArr) equals `want` (numpy) under the path condition"""
    done[what] = done.get(what, 0) + 1
    if isinstance(got, NArr):
        w = np.asarray(want)
        if tuple(got.shape) != tuple(w.shape):
            return mismatch(what, "shape", got.shape, w.shape, *info)
        pairs = list(zip(got.items, w.reshape(-1).tolist()))
    else:
        pairs = [(got, want)]
    s = z3.Solver()
    s.add(*E.pc)
    if s.check() != z3.sat:
        return mismatch(what, "model facts are contradictory", *info)
    diff = []
    for g, w in pairs:
        if isinstance(g, float) and math.isinf(g):
            if not (isinstance(w, float) and math.isinf(w)):
                diff.append(z3.BoolVal(True))
            continue
        diff.append(to_z3(g, "real") != z3.RealVal(str(Fraction(w))))
    s.add(z3.Or(*diff) if diff else z3.BoolVal(False))
    if s.check() != z3.unsat:
        mismatch(what, [str(p[0])[:40] for p in pairs], "numpy:", [p[1] for p in pairs], *info)


def as_sarr(a):
    """the 1-D concrete-shape array `a` as an array of the symbolic-length form (length a number, cells the same terms)"""
    arr = z3.K(z3.IntSort(), to_z3(0, a.kind))
    for j, x in enumerate(a.items):
        arr = z3.Store(arr, j, to_z3(x, a.kind))
    return SArr(arr, len(a.items), a.kind)


def cells_of(v, n):
    """the n cells of a 1-D model value (either form) as an NArr"""
    if isinstance(v, NArr):
        return v
    return NArr((n,), [Sym(z3.simplify(v.get(z3.IntVal(i)).z), v.kind) for i in range(n)], v.kind)


def eighths(rng, lo=-3, hi=3):
    return rng.randint(lo * 8, hi * 8) / 8


def main():
    cases = int(sys.argv[1]) if len(sys.argv) > 1 else 60
    rng = random.Random(16)
    for _ in range(cases):
        # ---- np.unique
        n = rng.randint(1, 5)
        vals = [rng.choice([0, 0.5, 1, 1.5, 2]) for _ in range(n)]
        if rng.random() < 0.5:
            vals = sorted(vals)
        E = engine()
        a = pinned(E, vals)
        got = X.np_unique(E, [a], dict(return_index=True, return_inverse=True, return_counts=True))
        want = np.unique(np.array(vals), return_index=True, return_inverse=True, return_counts=True)
        for g, w, nm in zip(got, want, ("values", "index", "inverse", "counts")):
            same(E, g, w, "np.unique/" + nm, (vals,))
        E = engine()
        g2 = X.np_unique(E, [pinned(E, vals)], dict(return_index=True))
        w2 = np.unique(np.array(vals), return_index=True)
        same(E, g2[0], w2[0], "np.unique(return_index)/values", (vals,))
        same(E, g2[1], w2[1], "np.unique(return_index)/index", (vals,))
        # ---- np.round / np.around / round
        x = rng.randint(-400, 400) / 8
        x = x / rng.choice([1, 10, 100])  # ties at 0, 1 and 2 decimals
        x = float(Fraction(x).limit_denominator(800))
        for d in (0, 1, 2):
            if (Fraction(x) * 10 ** d * 2).denominator != 1 and abs((Fraction(x) * 10 ** d) % 1 - Fraction(1, 2)) < Fraction(1, 1000):
                continue  # float scaling decides near-ties; the model is over the reals
            if (Fraction(x) * 10 ** d * 2).denominator == 1 and float(x * 10 ** d) != float(Fraction(x) * 10 ** d):
                continue
            E = engine()
            s = fresh("real", "x")
            E.assume(s.z == z3.RealVal(str(Fraction(x))))
            want = float(np.round(x, d))
            if abs(Fraction(want) - Fraction(round(Fraction(x) * 10 ** d), 10 ** d)) > Fraction(1, 10 ** 9):
                continue  # numpy's float scaling went the other way (not a real-arithmetic fact)
            want = Fraction(round(Fraction(x) * 10 ** d), 10 ** d)
            same(E, X.np_round(E, [s, d], {}), want, "np.round", (x, d))
            same(E, X.np_round(E, [s], dict(decimals=d)), want, "np.around", (x, d))
            same(E, X.b_round(E, [s, d], {}), want, "round(x, d)", (x, d))
            if d == 0:
                same(E, X.b_round(E, [s], {}), Fraction(round(Fraction(x))), "round(x)", (x,))
                same(E, X._round_model("ceil", True)(E, [s], {}), Fraction(math.ceil(Fraction(x))), "np.ceil", (x,))
                same(E, X._round_model("floor", False)(E, [s], {}), Fraction(math.floor(Fraction(x))), "np.floor", (x,))
        # ---- np.interp with duplicate sample points
        k = rng.randint(1, 5)
        steps = [rng.choice([0, 0, 0.5, 1, 1.5]) for _ in range(k - 1)]
        xp = [0.0]
        for st in steps:
            xp.append(xp[-1] + st)
        fp = [eighths(rng) for _ in range(k)]
        xs = [rng.choice(xp + [eighths(rng, -1, 5), xp[-1]]) for _ in range(4)]
        E = engine()
        got = X.np_interp(E, [pinned(E, xs), pinned(E, xp), pinned(E, fp)], {})
        want = np.interp(np.array(xs), np.array(xp), np.array(fp))
        ok = all(Fraction(w).denominator <= 4096 for w in want.tolist())
        if ok:
            same(E, got, want, "np.interp/duplicate-knots", (xs, xp, fp))
        # ---- np.interp / np.searchsorted on knots whose LAST ones coincide, or that all coincide (branch of total length zero)
        tail = rng.randint(2, k) if k >= 2 else 1
        for xq in ([xp[j] if j < k - tail else xp[k - tail] for j in range(k)], [xp[-1]] * k):
            xs2 = [rng.choice(xq + [xq[-1], eighths(rng, -1, 5)]) for _ in range(4)]
            E = engine()
            got = X.np_interp(E, [pinned(E, xs2), pinned(E, xq), pinned(E, fp)], {})
            want = np.interp(np.array(xs2), np.array(xq), np.array(fp))
            if not np.isfinite(want).all() or any(w != fp[-1] for w, x in zip(want.tolist(), xs2) if x >= xq[-1]):
                mismatch("np.interp/reference: finite, last value at the last knot", xs2, xq, fp, want)
            if all(Fraction(w).denominator <= 4096 for w in want.tolist()):
                same(E, got, want, "np.interp/last-knots-coincide", (xs2, xq, fp))
                E = engine()
                got = X.np_interp(E, [as_sarr(pinned(E, xs2)), pinned(E, xq), pinned(E, fp)], {})
                same(E, cells_of(got, len(xs2)), want, "np.interp/last-knots-coincide/symbolic-length-samples", (xs2, xq, fp))
        # ---- np.searchsorted on an ascending array with duplicates; np.clip; gathers through the index array
        for side in ("left", "right"):
            for form in ("concrete", "symbolic-length"):
                E = engine()
                a, v = pinned(E, xp), pinned(E, xs)
                got = X.np_searchsorted(E, [a, v if form == "concrete" else as_sarr(v)], dict(side=side))
                want = np.searchsorted(np.array(xp), np.array(xs), side=side)
                same(E, cells_of(got, len(xs)), want, f"np.searchsorted/{side}/{form}", (xp, xs))
                if form == "symbolic-length":
                    lo, hi = rng.randint(-1, 2), rng.randint(0, k)
                    idx = X.np_clip(E, [E.binop(X.ast.Sub(), got, 1), lo, hi], {})
                    widx = np.clip(want - 1, lo, hi)
                    same(E, cells_of(idx, len(xs)), widx, "np.clip/index-array", (xp, xs, lo, hi))
                    idx = X.np_clip(E, [got, 0, k - 1], {})
                    widx = np.clip(want, 0, k - 1)
                    same(E, cells_of(X.narr_getitem(E, pinned(E, fp), idx), len(xs)), np.array(fp)[widx], "gather a[idx]", (fp, widx))
                    tab = [[eighths(rng) for _ in range(3)] for _ in range(k)]
                    A = NArr((k, 3), pinned(E, [c for row in tab for c in row]).items, "real")
                    g2 = X.narr_getitem(E, A, idx)
                    for c in range(3):
                        col = NArr((len(xs),), [Sym(z3.simplify(z3.Select(g2.cols[c], i)), "real") for i in range(len(xs))], "real")
                        same(E, col, np.array(tab)[widx][:, c], "gather A[idx] (rows)", (tab, widx))
        E = engine()
        got = X.np_searchsorted(E, [pinned(E, xp), pinned(E, xs[:1]).items[0]], dict(side="right"))
        same(E, got, int(np.searchsorted(np.array(xp), xs[0], side="right")), "np.searchsorted/right/scalar", (xp, xs[0]))
        # ---- np.linspace with a concrete count
        a0, b0, m = eighths(rng), eighths(rng), rng.randint(0, 5)
        E = engine()
        sa, sb = fresh("real", "a"), fresh("real", "b")
        E.assume(sa.z == z3.RealVal(str(Fraction(a0))))
        E.assume(sb.z == z3.RealVal(str(Fraction(b0))))
        got = X.np_linspace(E, [sa, sb, m], {})
        want = [Fraction(a0) + Fraction(k_) * (Fraction(b0) - Fraction(a0)) / (m - 1) for k_ in range(m)] if m > 1 else [Fraction(a0)] * m
        npw = np.linspace(a0, b0, m)
        if len(npw) != len(want) or any(abs(float(w) - float(q)) > 1e-12 for w, q in zip(want, npw)) or (m >= 2 and npw[-1] != b0):
            mismatch("np.linspace/reference", a0, b0, m)
        same(E, got, np.array([float(w) for w in want]) if all(Fraction(float(w)) == w for w in want) else np.array(npw), "np.linspace/concrete-count", (a0, b0, m)) if all(Fraction(float(w)) == w for w in want) else None
        # ---- np.insert
        vals = [eighths(rng) for _ in range(rng.randint(0, 4))]
        pos = rng.randint(0, len(vals))
        E = engine()
        same(E, X.np_insert(E, [pinned(E, vals), pos, 0], {}), np.insert(np.array(vals, dtype=float), pos, 0), "np.insert", (vals, pos))
        # ---- np.maximum / np.minimum on scalars
        p, q = eighths(rng), eighths(rng)
        E = engine()
        sp, sq = fresh("real", "p"), fresh("real", "q")
        E.assume(sp.z == z3.RealVal(str(Fraction(p))))
        E.assume(sq.z == z3.RealVal(str(Fraction(q))))
        same(E, narr.np_maximum(E, [sp, sq], {}), max(p, q), "np.maximum", (p, q))
        same(E, narr.np_minimum(E, [sp, sq], {}), min(p, q), "np.minimum", (p, q))
        # ---- np.argmin (with +inf entries)
        vals = [rng.choice([0, 0.5, 1, 1, 2, float("inf")]) for _ in range(rng.randint(1, 6))]
        E = engine()
        cells = []
        for v in vals:
            if math.isinf(v):
                cells.append(v)
            else:
                s = fresh("real", "d")
                E.assume(s.z == z3.RealVal(str(Fraction(v))))
                cells.append(s)
        got = X.np_argmin(E, [NArr((len(cells),), cells, "real")], {})
        done["np.argmin"] = done.get("np.argmin", 0) + 1
        if got != int(np.argmin(np.array(vals))):
            mismatch("np.argmin", vals, got, int(np.argmin(np.array(vals))))
        # ---- convolve(ones, ones, 'same') >= 1
        from scipy import signal

        n, w = rng.randint(1, 12), rng.randint(1, 15)
        done["convolve-ones>=1"] = done.get("convolve-ones>=1", 0) + 1
        if float(signal.convolve(np.ones(n), np.ones(w), mode="same").min()) < 1 - 1e-9 or len(signal.convolve(np.ones(n), np.ones(w), mode="same")) != n:
            mismatch("signal.convolve(ones, ones)", n, w)
    for k in sorted(done):
        print(f"  {k}: {done[k]} comparisons")
    print("xcheck_ext_C16:", "OK" if not bad else f"{bad} MISMATCH(ES)")
    return 1 if bad else 0


if __name__ == "__main__":
    sys.exit(main())
