#!/usr/bin/env python3
"""Cross-check of the dtype-faithful cast model used in the SWC reading chain (pyvc/ext_C05_frame.py: cast_fn / needs_cast / frame_astype,
pyvc/npmodels.py: faithful_cast, contracts/C02.py: _to_numeric) against numpy / pandas.

A. int -> int: numpy's `astype`, `np.asarray(col, dtype=)`, `np.array(col, dtype=)`, pandas' `Series.astype`, `DataFrame.astype(dtype)` and
   `DataFrame.astype({col: dtype})` all give the representative of v modulo 2**bits in the target range (the wrap axiom), on a grid
   around every width boundary; `needs_cast` is False exactly for the pairs on which no grid value changes.
B. float -> int through pandas truncates toward zero (inside the target range); int -> float is exact up to 2**mantissa.
C. `pd.to_numeric(col, downcast=)` never changes a value.
D. the axioms AS ENCODED (z3) admit numpy's values for every dtype pair: tools/xcheck_ext_C05_frame.py part A (`casts()`), run from here.
usage: tools/xcheck_astype_chain.py [--no-z3]
"""
import os
import sys
import warnings

sys.path.insert(0, os.path.dirname(os.path.dirname(os.path.abspath(__file__))))
import numpy as np
import pandas as pd

from pyvc import ext_C05_frame as F

warnings.simplefilter("ignore")
INTS = ["int8", "int16", "int32", "int64", "uint8", "uint16", "uint32", "uint64"]
bad = 0


def mismatch(msg):
    global bad
    bad += 1
    print("MISMATCH", msg)


def grid(dt):
    ii = np.iinfo(dt)
    g = set()
    for b in (0, 7, 8, 15, 16, 24, 31, 32, 53, 62, 63, 64):
        for d in (-2, -1, 0, 1, 2, 44):
            g.update((2 ** b + d, -(2 ** b) + d))
    g.update((0, 7, 255, 256, 300, 1000, 65535, 70000, 10 ** 6))
    return sorted(v for v in g if ii.min <= v <= ii.max)


def wrap(v, dst):
    lo, hi = F._int_range(np.dtype(dst))
    return lo + (v - lo) % (hi - lo + 1)


def main():
    n = 0
    for a in INTS:
        vals = grid(a)
        col = np.array(vals, dtype=a)
        for b in INTS:
            if a == b:
                continue
            want = [wrap(v, b) for v in vals]
            ways = {
                "ndarray.astype": col.astype(b),
                "np.asarray(dtype=)": np.asarray(col, dtype=b),
                "np.array(dtype=)": np.array(col, dtype=b),
                "Series.astype": pd.Series(col).astype(b).to_numpy(),
                "DataFrame.astype(dtype)": pd.DataFrame({"c": col}).astype(b)["c"].to_numpy(),
                "DataFrame.astype({col: dtype})": pd.DataFrame({"c": col, "d": col}).astype({"c": b})["c"].to_numpy(),
            }
            for how, got in ways.items():
                n += 1
                if got.dtype != np.dtype(b) or [int(x) for x in got] != want:
                    mismatch(f"{how} {a}->{b}: {[int(x) for x in got][:6]} != {want[:6]}")
            other = pd.DataFrame({"c": col, "d": col}).astype({"c": b})["d"]
            if other.dtype != np.dtype(a) or [int(x) for x in other] != vals:
                mismatch(f"DataFrame.astype({{col: dtype}}) {a}->{b} touched another column")
            changes = any(w != v for w, v in zip(want, vals))
            (lo_a, hi_a), (lo_b, hi_b) = F._int_range(np.dtype(a)), F._int_range(np.dtype(b))
            if F.needs_cast(a, b) != (not (lo_b <= lo_a and hi_a <= hi_b)) or (changes and not F.needs_cast(a, b)):
                mismatch(f"needs_cast({a}, {b}) = {F.needs_cast(a, b)} but values change: {changes}")
    print(f"A. int -> int: {n} (way, dtype pair) combinations on the width-boundary grid")
    # B
    fl = [0.0, 0.9999, -0.9999, 1.5, -1.5, 255.9, 256.0, -7.25, 70000.75, 123456.7891, 2.0 ** 24 + 1, 1e9 + 0.5]
    for src in ("float64", "float32"):
        for b in INTS:
            col = np.array(fl, dtype=src)
            lo, hi = F._int_range(np.dtype(b))
            if np.dtype(b).kind == "u":
                for f in (lambda: pd.Series(col).astype(b), lambda: pd.DataFrame({"c": col}).astype({"c": b})):
                    try:
                        f()
                        mismatch(f"pandas astype {src}->{b} accepted a negative value (the model raises ValueError)")
                    except ValueError:
                        pass
                col = col[col >= 0]
            for how, got in {"Series.astype": pd.Series(col).astype(b).to_numpy(), "DataFrame.astype": pd.DataFrame({"c": col}).astype({"c": b})["c"].to_numpy(),
                             "np.asarray": np.asarray(col, dtype=b)}.items():
                for v, g in zip(col, got):
                    tr = int(v)
                    if lo <= tr <= hi and int(g) != tr:
                        mismatch(f"{how} {src}->{b}: {float(v)!r} -> {int(g)} (truncation {tr})")
    for a in INTS:
        for b in ("float32", "float64"):
            m = 2 ** F._mant(np.dtype(b))
            vals = [v for v in grid(a) if abs(v) <= m]
            got = pd.DataFrame({"c": np.array(vals, dtype=a)}).astype({"c": b})["c"].to_numpy()
            if [int(x) for x in got] != vals:
                mismatch(f"DataFrame.astype {a}->{b} not exact below 2**mantissa")
            if F.needs_cast(a, b) != (not all(abs(v) <= m for v in F._int_range(np.dtype(a)))):
                mismatch(f"needs_cast({a}, {b})")
    print("B. float -> int truncates inside the target range (pandas and numpy), int -> float exact up to 2**mantissa")
    # C
    for vals in ([0, 7, 255], [0, 256, 300], [1, 65535, 70000], [-1, 5, 10 ** 6], [2 ** 31, 5], [0.5, 123456.7891, 1e-5], [1.0, 2.0, 300.0]):
        for dc in (None, "integer", "signed", "unsigned", "float"):
            s = pd.Series(vals)
            got = pd.to_numeric(s, downcast=dc)
            same = [float(np.float32(x)) if got.dtype == np.float32 else x for x in vals]
            if [float(x) for x in got] != [float(x) for x in same]:
                mismatch(f"pd.to_numeric({vals}, downcast={dc!r}) -> {list(got)} ({got.dtype})")
    print("C. pd.to_numeric(downcast=) keeps every value (float: up to the float32 rounding the proof side cannot see)")
    if "--no-z3" not in sys.argv:
        import tools.xcheck_ext_C05_frame as X5

        X5.casts()
        global bad
        bad += X5.bad
    print("mismatches:", bad)
    return 1 if bad else 0


if __name__ == "__main__":
    sys.exit(main())
