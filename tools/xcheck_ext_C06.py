"""Cross-check of the numpy models added for C06 against numpy on random concrete inputs.

  * vector stores into a 1-D array of symbolic length (pyvc/npmodels.py: _vector_store):
        a[int index array] = scalar,  a[bool mask] = scalar,  a[[i, j, ...]] = scalar
  * np.fromiter(iterable, dtype)  (pyvc/ext_C06.py: _np_fromiter) over a list, an array and a set of ints
  * np.asarray(a, dtype)          (pyvc/narr.py: np_asarray): the argument ITSELF when it already has the dtype, a copy otherwise
  * iteration over an array of concrete length (pyvc/models.py: iterate_concrete)

Run:  /verif/.venv/bin/python tools/xcheck_ext_C06.py [cases=100]      (exit 0 = every model agrees with numpy)

The real model functions are run through a pyvc engine on arrays of SYMBOLIC length whose cells are pinned to the numbers of the case;
length and every cell of the result are then compared with numpy's by asking z3 whether the path condition admits a different value
(it must not).  Out-of-range positions must leave a failed `index-in-bounds` obligation behind.
"""
import os
import random
import sys

sys.path.insert(0, os.path.dirname(os.path.dirname(os.path.abspath(__file__))))
import numpy as np
import z3

from pyvc import ext_C06 as X
from pyvc import models, narr, npmodels
from pyvc.engine import Unsupported
from pyvc.spec import Registry
from pyvc.values import NArr, PList, SArr, Sym, fresh
from pyvc.verify import Verifier

bad = 0


def engine():
    E = Verifier(Registry(), "C06")
    E.cur_key = "xcheck:models"
    return E


def sym_array(E, vals, name, kind="int", dtype=None):
    a = SArr.fresh(kind, name=name, dtype=dtype)
    E.assume(a.nz() == len(vals))
    for i, x in enumerate(vals):
        E.assume(z3.Select(a.arr, i) == (bool(x) if kind == "bool" else int(x)))
    return a


def mismatch(what, *info):
    global bad
    bad += 1
    print("MISMATCH", what, *info)


def agree(E, out, want, what):
    s = z3.Solver()
    s.add(*E.pc)
    if s.check() == z3.unsat:  # (`unknown` on the quantified witness facts of the index-array store is not a refutation)
        return mismatch(what, "model facts are contradictory")
    diff = [out.nz() != len(want)] + [z3.Select(out.arr, i) != int(x) for i, x in enumerate(want)]
    s.add(z3.Or(*diff))
    if s.check() != z3.unsat:
        mismatch(what, "numpy:", list(want))


def safety_failed(E, suffix):
    """some obligation whose name ends with `suffix` is refutable under its hypotheses"""
    for ob in E.obligs:
        if suffix in ob.name:
            s = z3.Solver()
            s.add(*ob.hyps)
            s.add(z3.Not(ob.goal))
            if s.check() == z3.sat:
                return True
    return False


def main():
    cases = int(sys.argv[1]) if len(sys.argv) > 1 else 100
    rng = random.Random(6)
    for _ in range(cases):
        n = rng.randint(1, 7)
        v = [rng.randint(-5, 9) for _ in range(n)]
        val = rng.randint(-9, 9)
        # ---- a[index array] = scalar (repeated positions, any order; now and then a position out of range)
        idx = [rng.randint(0, n - 1) for _ in range(rng.randint(0, 6))]
        oob = rng.random() < 0.15
        if oob:
            idx.append(n + rng.randint(0, 2))
        E = engine()
        a = sym_array(E, v, "a")
        npmodels.setitem(E, a, sym_array(E, idx, "idx"), val)
        if oob:
            if not safety_failed(E, "index-in-bounds"):
                mismatch("index-array store out of range not reported", v, idx)
        else:
            want = np.array(v)
            want[np.array(idx, dtype=np.int64)] = val
            agree(E, a, want, f"a[{idx}] = {val} on {v}")
            if safety_failed(E, "index-in-bounds"):
                mismatch("index-array store in range reported", v, idx)
        # ---- a[[i, j]] = scalar (a concrete list of symbolic positions)
        E = engine()
        a = sym_array(E, v, "a")
        pos = [rng.randint(0, n - 1) for _ in range(rng.randint(0, 3))]
        syms = []
        for p_ in pos:
            q = fresh("int", "p")
            E.assume(q.z == p_)
            syms.append(q)
        npmodels.setitem(E, a, PList(syms), val)
        want = np.array(v)
        if pos:
            want[pos] = val
        agree(E, a, want, f"a[list {pos}] = {val} on {v}")
        # ---- a[mask] = scalar
        mask = [rng.random() < 0.5 for _ in range(n)]
        E = engine()
        a = sym_array(E, v, "a")
        npmodels.setitem(E, a, sym_array(E, mask, "mask", kind="bool"), val)
        want = np.array(v)
        want[np.array(mask)] = val
        agree(E, a, want, f"a[mask {mask}] = {val} on {v}")
        E = engine()  # a mask of another length: numpy raises IndexError
        a = sym_array(E, v, "a")
        npmodels.setitem(E, a, sym_array(E, mask + [True], "mask", kind="bool"), val)
        if not safety_failed(E, "mask-as-long-as-the-array"):
            mismatch("mask of the wrong length not reported", v)
        # ---- np.fromiter over a symbolic list / array / concrete list
        E = engine()
        src = PList.fresh("int", name="l")
        E.assume(src.n == len(v))
        for i, x in enumerate(v):
            E.assume(z3.Select(src.cols[0], i) == x)
        out = X._np_fromiter(E, [src], dict(dtype=np.int64))
        agree(E, out, np.fromiter(v, dtype=np.int64), f"fromiter(list {v})")
        if out.uid == src.uid:
            mismatch("fromiter result aliases its source")
        E = engine()
        src = sym_array(E, v, "s")
        out = X._np_fromiter(E, [src], dict(dtype=np.int64))
        agree(E, out, np.fromiter(np.array(v), dtype=np.int64), f"fromiter(array {v})")
        if out.uid == src.uid or out is src:
            mismatch("fromiter result aliases its source")
        E = engine()
        out = X._np_fromiter(E, [PList(list(v))], dict(dtype=np.int64))
        if list(out.items) != list(np.fromiter(v, dtype=np.int64)):
            mismatch("fromiter(concrete list)", v)
        # ---- np.fromiter over a set: the members, each once, in SOME order (a bijection between positions and members)
        members = sorted(set(v))
        E = engine()
        mem = z3.K(z3.IntSort(), z3.BoolVal(False))
        for x in members:
            mem = z3.Store(mem, x, z3.BoolVal(True))
        st = X.SymSet(mem)
        out = X._np_fromiter(E, [st], dict(dtype=np.int64))
        ks, m, pos, _ = st.enumeration(E)  # the ghost enumeration the model used (cached per set state)
        s = z3.Solver()
        s.add(*E.pc)
        if s.check() != z3.sat:
            mismatch("fromiter(set): facts not satisfiable")
        j = z3.Int("j_probe")
        goals = [z3.And(pos(x) >= 0, pos(x) < out.nz(), z3.Select(out.arr, pos(x)) == x) for x in members]  # every member sits somewhere
        goals.append(z3.Implies(z3.And(j >= 0, j < out.nz()), z3.And(z3.Select(mem, z3.Select(out.arr, j)), pos(z3.Select(out.arr, j)) == j)))  # every cell holds a member, at its own place
        goals.append(out.nz() == m)
        for g in goals:
            s.push()
            s.add(z3.Not(g))
            if s.check() != z3.unsat:
                mismatch("fromiter(set) is not an enumeration of the members", members, g)
            s.pop()
        # ---- iteration over an array of concrete length
        E = engine()
        a = SArr.fresh("int", n, name="c")
        for i, x in enumerate(v):
            E.assume(z3.Select(a.arr, i) == x)
        items = models.iterate_concrete(E, a)
        if len(items) != n:
            mismatch("iteration over a concrete-length array: wrong count")
        else:
            s = z3.Solver()
            s.add(*E.pc)
            s.add(z3.Or(*[it.z != x for it, x in zip(items, list(np.array(v)))]))
            if s.check() != z3.unsat:
                mismatch("iteration over a concrete-length array", v)
    # ---- np.asarray(a, dtype): identity of the result
    pairs = 0
    for have in (np.int32, np.int64, np.float32, np.float64, np.bool_):
        for want in (np.int32, np.int64, np.float32, np.float64):
            real = np.zeros(3, dtype=have)
            same = np.asarray(real, dtype=want) is real
            kind = {"i": "int", "f": "real", "b": "bool"}[np.dtype(have).kind]
            if kind == "real" and np.dtype(want).kind == "i":
                continue  # narrowing reals to ints is refused by the copy model (Unsupported), nothing to compare
            pairs += 1
            E = engine()
            a = SArr.fresh(kind, 3, name="a", dtype=np.dtype(have))
            try:
                out = narr.np_asarray(E, [a], dict(dtype=want))
            except Unsupported:
                pairs -= 1  # a conversion the copy model refuses (bool -> number on a symbolic array): nothing to compare
                continue
            if (out is a) != same:
                mismatch("np.asarray identity", have, want, "numpy same object:", same)
            # width not recorded: the model must explore both outcomes (same kind) or copy (other kind)
            outcomes = set()

            def body():
                a2 = SArr.fresh(kind, 3, name="a")
                outcomes.add(narr.np_asarray(E2, [a2], dict(dtype=want)) is a2)

            E2 = engine()
            E2.explore(body)
            if same not in outcomes:
                mismatch("np.asarray (unrecorded width) misses numpy's outcome", have, want, outcomes)
    n_it = one_shot_iterators(rng, cases)
    print(f"vector stores / np.fromiter / iteration: {cases} random cases each; np.asarray identity: {pairs} dtype pairs; "
          f"one-shot iterators (all / any / list / set / fromiter / second pass, directly and behind a generator expression): {n_it} scripts; mismatches: {bad}")
    return 1 if bad else 0


# ---------------------------------------------------------------------------------------------------------------------------------
# one-shot iterators over a sequence of SYMBOLIC length (pyvc/values.py: Iter, pyvc/models.py: _first_deciding_position, iter_advance,
# drop_prefix): a short script of consumers is run by CPython on `iter(values)` and by the engine on `Iter(symbolic list pinned to the values)`;
# every result (booleans, lists, sets as membership, arrays) must be the one CPython computed -- in particular what a consumer that stops
# early (all / any) leaves in the iterator, also when it pulled the items through a generator expression, and the empty second pass
SCRIPTS = [
    ["all(0 <= i < n for i in it)", "list(it)"],
    ["any(i >= n for i in it)", "list(it)", "list(it)"],
    ["all(it)", "list(it)"],
    ["any(it)", "any(it)", "list(it)"],
    ["all(i != n for i in it)", "all(i != n for i in it)", "list(it)"],
    ["list(it)", "all(0 <= i < n for i in it)", "any(i > 0 for i in it)", "list(it)"],
    ["any(i < 0 or i >= n for i in it)", "[i + 1 for i in it]"],
    ["all(i >= 0 and i < n for i in it)", "[i for i in it]"],
    ["[2 * i for i in it]", "list(it)", "all(i < 0 for i in it)"],
    ["all((i if i < n else -1) >= 0 for i in it)", "list(it)"],
]


def one_shot_iterators(rng, cases):
    import ast

    from pyvc.engine import Frame
    from pyvc.values import Iter

    done = 0
    for _ in range(max(10, cases // 4)):
        n = rng.randint(0, 6)
        vals = [rng.randint(-2, 7) for _ in range(rng.randint(0, 6))]
        for script in SCRIPTS:
            done += 1
            real = iter(list(vals))
            want = [eval(line, {"it": real, "n": n}) for line in script]  # noqa: S307 (fixed texts above)
            E = engine()
            src = PList.fresh("int", name="l")
            E.assume(src.n == len(vals))
            for i, x in enumerate(vals):
                E.assume(z3.Select(src.cols[0], i) == x)
            fr = Frame(vars=dict(it=Iter(src), n=n), globs={"all": all, "any": any, "list": list})
            try:
                got = [E.ev(ast.parse(line, mode="eval").body, fr) for line in script]
            except Unsupported as e:
                mismatch("one-shot iterator script refused", script, vals, e)
                continue
            s = z3.Solver()
            s.add(*E.pc)
            if s.check() != z3.sat:
                mismatch("one-shot iterator: model facts are not satisfiable", script, vals)
                continue
            for line, g, w in zip(script, got, want):
                if isinstance(w, bool):
                    diff = (z3.BoolVal(g) if isinstance(g, bool) else g.z) != w
                else:
                    if isinstance(g, Iter):
                        g = g.seq
                    if g.items is not None:
                        diff = z3.BoolVal(len(g.items) != len(w)) if len(g.items) != len(w) else z3.Or(False, *[(x.z if isinstance(x, Sym) else z3.IntVal(x)) != y for x, y in zip(g.items, w)])
                    else:
                        gn = g.n.z if isinstance(g.n, Sym) else g.n
                        diff = z3.Or(gn != len(w), *[z3.Select(g.cols[0], i) != y for i, y in enumerate(w)])
                s.push()
                s.add(diff)
                if s.check() != z3.unsat:
                    mismatch("one-shot iterator", script, "on", vals, "n =", n, "at", repr(line), "CPython:", w)
                s.pop()
    return done


if __name__ == "__main__":
    sys.exit(main())
