#!/bin/sh
# Build /verif/.venv (python 3.12) offline: z3-solver, cvc5, sympy, jsonschema from the
# wheelhouse, plus a .pth that exposes /venv's site-packages (the repo's own deps).
set -e
cd "$(dirname "$0")"
if [ ! -x .venv/bin/python ] || ! .venv/bin/python -c "import z3, numpy, pandas" 2>/dev/null; then
  rm -rf .venv
  /venv/bin/python -m venv .venv
  PIP_NO_INDEX=1 .venv/bin/python -m pip install -q --no-index --find-links /opt/veriftools/wheels z3-solver cvc5 sympy jsonschema mpmath >/dev/null
  SP=$(.venv/bin/python -c "import site;print(site.getsitepackages()[0])")
  echo "import site; site.addsitedir('/venv/lib/python3.12/site-packages')" > "$SP/zz_repo_deps.pth"
fi
.venv/bin/python -c "import z3, numpy, pandas, scipy; print('setup ok: z3', z3.get_version_string(), 'numpy', numpy.__version__)"
