"""./check <property> [--tier quick|thorough] [--replay file]

Exit codes: 0 held (KNOWN-FINDING lines for listed findings) | 1 violation
(VIOLATION property=<id> replay=<path>) | 2 undecided | 3 machinery error.
"""
from __future__ import annotations

import argparse
import hashlib
import importlib
import json
import os
import sys
import time
import traceback

HERE = os.path.dirname(os.path.abspath(__file__))
sys.path.insert(0, HERE)
REPO = os.environ.get("VERIF_REPO", "/repo")
sys.path.insert(0, REPO)
OUT = os.environ.get("VERIF_EVIDENCE_DIR") or HERE  # seeded-change evaluation writes evidence/replay elsewhere
os.environ.setdefault("VERIF_SCRATCH", os.path.join(HERE, ".scratch"))
os.makedirs(os.environ["VERIF_SCRATCH"], exist_ok=True)

import z3  # noqa: E402

from pyvc import extract  # noqa: E402
from pyvc.engine import Unsupported  # noqa: E402
from pyvc.spec import Registry  # noqa: E402
from pyvc.verify import Verifier, discharge_all  # noqa: E402

ALL_PROPS = [f"C{i:02d}" for i in range(1, 21)]
INTERNAL_KINDS = {"invariant", "annotation", "termination", "yields"}


def _module_info(pid):
    """(exists, DEPENDS, installs global models?) read from the source text, without importing the module"""
    import ast as _ast
    import re as _re

    path = os.path.join(HERE, "contracts", f"{pid}.py")
    if not os.path.exists(path):
        return False, [], False
    src = open(path).read()
    deps = []
    for node in _ast.parse(src).body:
        if isinstance(node, _ast.Assign) and any(isinstance(t, _ast.Name) and t.id == "DEPENDS" for t in node.targets):
            try:
                deps = list(_ast.literal_eval(node.value))
            except Exception:
                deps = []
    has_ext = bool(_re.search(r"ext_C\d\d|EXTRA_MODELS|EXTRA_METHODS", src))
    return True, deps, has_ext


def depends_closure(prop):
    out, todo = [], [prop]
    while todo:
        p = todo.pop()
        for d in _module_info(p)[1]:
            if d not in out and d != prop:
                out.append(d)
                todo.append(d)
    return out


def load_registry(prop=None):
    """Import the contract modules.  Modules that install global library models (pyvc/ext_Cxx.py, EXTRA_MODELS) are
    imported only when they belong to the property being checked or to its DEPENDS closure: those models are
    process-wide and were developed per property, so they must not leak into another property's proof."""
    R = Registry()
    wanted = None if prop is None else {prop, *depends_closure(prop)}
    mods = []
    for pid in ALL_PROPS:
        exists, _, has_ext = _module_info(pid)
        if not exists or (wanted is not None and has_ext and pid not in wanted):
            continue
        m = importlib.import_module(f"contracts.{pid}")
        m.register(R)
        mods.append(m)
    for m in mods:
        # optional second pass, run when every module has registered: a module may derive contracts from the contracts
        # of the properties it DEPENDS on (C03: refinement clauses "proved postconditions ==> step contract")
        if hasattr(m, "finalize"):
            m.finalize(R, prop)
    if prop is not None:
        inherit_overrides(R, wanted)
    return R


def inherit_overrides(R, props):
    """Behavioural subtyping: the contract of a method binds every OVERRIDE of that method in a repository subclass that has no contract of
    its own -- for the variants of the setup whose `self` is an instance of that subclass.  (A change that re-implements `Node.is_tip` as
    `Tree.Node.is_tip` is then verified against the clauses of `Node.is_tip`, under the key of the override.)  Contracts of the checked
    property and of the properties it depends on only; nested functions and setters are not looked at."""
    import copy as _copy
    import inspect

    from pyvc.interp import is_repo_class
    from pyvc.values import Obj
    from pyvc.verify import Setup, resolve_py

    def subclasses(c, acc=None):
        acc = [] if acc is None else acc
        for s_ in c.__subclasses__():
            if s_ not in acc:
                acc.append(s_)
                subclasses(s_, acc)
        return acc

    for key, alts in list(R.alts.items()):
        qual = key.split(":")[-1]
        if "<locals>" in qual or "@" in qual or "." not in qual or not any(c.prop in props and not c.trusted for c in alts):
            continue
        try:
            _, _, owner = resolve_py(key)
        except Exception:
            continue
        if not isinstance(owner, type):
            continue
        name = qual.rsplit(".", 1)[1]
        if name.startswith("__") and name.endswith("__"):
            continue
        for sub in subclasses(owner):
            f = sub.__dict__.get(name)
            f = getattr(f, "fget", f)
            if not inspect.isfunction(f) or not is_repo_class(sub):
                continue
            k2 = extract.func_key(f)
            if k2 is None or k2 in R.alts or k2 == key:
                continue
            for c in alts:
                if c.prop not in props or c.trusted or c.options.get("refines"):
                    continue
                keep = {}
                for vname, su in (c.variants or {"": c.setup}).items():
                    if su is None:
                        continue
                    try:
                        probe = su(Setup(Verifier(R, c.prop)))
                        me = probe.get("self") if isinstance(probe, dict) else None
                    except BaseException:  # the probe is advisory: a setup that cannot be run outside a proof inherits nothing
                        continue
                    if isinstance(me, Obj) and isinstance(me.cls, type) and issubclass(me.cls, sub):
                        keep[vname] = su
                if not keep:
                    continue
                c2 = _copy.copy(c)
                c2.key = k2
                c2.options = dict(c.options, inherited_from=key)
                c2.variants = keep if c.variants else None
                c2.setup = None if c.variants else keep[""]
                R.alts.setdefault(k2, []).append(c2)
                if k2 not in R.keys():
                    dict.__setitem__(R, k2, c2)


def load_known():
    path = os.path.join(HERE, "known_findings.jsonl")
    out = []
    if os.path.exists(path):
        for line in open(path):
            line = line.strip()
            if line.startswith("{"):
                out.append(json.loads(line))
    return out


class BoundedCtx:
    def __init__(self, prop, tier, seed):
        self.prop, self.tier, self.seed = prop, tier, seed
        self.evaluations = 0
        self.distinct = set()
        self.samples = []
        self.violations = []
        self.rules = []
        self.exhaustive = []
        self.notes = []

    def case(self, group, case, nontrivial=True):
        """Record one evaluated case (case must be JSON-serialisable)."""
        self.evaluations += 1
        if nontrivial:
            self.distinct.add(hashlib.sha1((group + json.dumps(case, sort_keys=True, default=str)).encode()).hexdigest())
        if len(self.samples) < 12 and (self.evaluations % 97 == 1 or len(self.samples) < 3):
            self.samples.append({"group": group, "case": case})

    def violation(self, carrier, clause, input, observed, expected, replay=None):
        self.violations.append(dict(carrier=carrier, clause=clause, input=input, observed=str(observed)[:400], expected=str(expected)[:400], replay=replay))

    def rule(self, text, exhaustive=False):
        self.rules.append(text)
        self.exhaustive.append(exhaustive)


def run_bounded(prop, tier, seed):
    try:
        m = importlib.import_module(f"bounded.{prop}")
    except ModuleNotFoundError as e:
        if e.name in (f"bounded.{prop}", "bounded"):
            return None
        raise
    ctx = BoundedCtx(prop, tier, seed)
    m.run(ctx)
    if prop in HISTORY_PROPS:
        # history independence (bounded/history.py): the queries this property speaks about answer on an object with a history
        # (earlier queries, in-place writes, copies, transforms) what they answer on a tree built afresh from its current columns
        from bounded import history

        history.run(ctx, getattr(history, "Q_" + prop))
    from bounded import reuse

    if prop in reuse.PROPS:
        # instance-reuse independence (bounded/reuse.py): one transform instance applied to several trees in turn answers on each
        # what a fresh instance answers
        reuse.run(ctx, prop)
    return ctx


HISTORY_PROPS = ("C03", "C04", "C08", "C09", "C10", "C11")


def finding_matches(k, prop, oblig=None, carrier=None, clause=None, input=None):
    if k.get("property") != prop or k.get("status", "open") != "open":
        return False
    if oblig is not None and k.get("obligation"):
        return k["obligation"] == oblig
    if carrier is not None and k.get("carrier"):
        if k["carrier"] != carrier or (k.get("clause") and k["clause"] != clause):
            return False
        if k.get("input") is not None:
            return json.dumps(k["input"], sort_keys=True) == json.dumps(input, sort_keys=True, default=str)
        return True
    return False


def main():
    ap = argparse.ArgumentParser()
    ap.add_argument("prop")
    ap.add_argument("--tier", default=os.environ.get("VERIF_TIER", "quick"))
    ap.add_argument("--replay")
    ap.add_argument("--no-bounded", action="store_true")
    ap.add_argument("--no-proof", action="store_true")
    ap.add_argument("--write-baseline", action="store_true")
    ap.add_argument("--only")
    ap.add_argument("-v", action="store_true")
    a = ap.parse_args()
    prop, tier = a.prop, a.tier
    seed = int(os.environ.get("VERIF_SEED", "0") or 0)
    t0 = time.time()
    if a.replay:
        return do_replay(prop, a.replay)

    R = load_registry(prop)
    # a property may rest on the contracts of other properties (module attribute DEPENDS = ["C13", ...]): their
    # carriers are re-verified as part of this check, so a change that breaks one of them is reported here too
    depends = depends_closure(prop)
    R.current, R.scope = prop, tuple(depends)
    mine = [c for c in R.values() if (c.prop == prop or c.prop in depends) and not c.trusted and (not a.only or a.only in c.key)]
    timeout_ms = 10000 if tier == "quick" else 60000
    obligs, carriers, errors, assumptions, covers, used_lemmas = [], [], [], set(), [], set()
    if not a.no_proof:
        for c in mine:
            v = Verifier(R, prop)
            R.carrier_prop = c.prop
            for k_, val in c.options.items():
                setattr(v, k_, val)
            try:
                info = v.verify(c)
            except Unsupported as e:
                errors.append(f"{c.key}: unsupported: {e}")
                obligs.extend(v.obligs)  # obligations of the paths explored before the unsupported construct stay valid
                continue
            except KeyError as e:
                errors.append(f"{c.key}: {e}")
                continue
            except Exception as e:  # engine bug: never a violation
                errors.append(f"{c.key}: engine error: {type(e).__name__}: {e}\n{traceback.format_exc(limit=6)}")
                continue
            info["obligations"] = len({o.name for o in v.obligs})
            carriers.append(info)
            if not info["cover"].get("pre", False):
                errors.append(f"{c.key}: vacuous precondition (cover failed)")
            if not info["cover"].get("post", False) and not c.options.get("always_raises"):
                errors.append(f"{c.key}: no path reaches a normal exit (cover failed)")
            obligs.extend(v.obligs)
            covers.extend(v.covers)
            used_lemmas |= v.used_lemmas
            assumptions |= v.assumptions
    if not a.no_proof and not a.only:
        for mod in [prop] + depends:
            try:
                pm = importlib.import_module(f"contracts.{mod}")
                if hasattr(pm, "lemmas"):
                    from pyvc.engine import Oblig

                    for lab, hyps, goal in pm.lemmas():
                        if lab.startswith("cover:"):  # satisfiability guard of a lemma's hypotheses (unsat = vacuous lemma = machinery error)
                            covers.append(Oblig(f"{prop}/lemma/cover/{lab[6:]}", list(hyps), z3.BoolVal(False), "cover", "lemma hypotheses"))
                            continue
                        obligs.append(Oblig(f"{prop}/lemma/{lab}", list(hyps), goal, "lemma", "lemma over the contracts' spec functions"))
                    assumptions |= set(getattr(pm, "LEMMA_ASSUMPTIONS", []))  # what the lemmas take as hypotheses beyond the contracts
            except ModuleNotFoundError:
                pass
            except Exception as e:  # a lemma that can no longer be STATED over the contracts (renamed clause ...): never a silent pass
                errors.append(f"contracts.{mod}.lemmas(): {type(e).__name__}: {e}\n{traceback.format_exc(limit=6)}")
    regex_names = []
    if not a.no_proof:
        # regex-LANGUAGE facts about the patterns of the repository (contracts/regex_facts.py, pyvc/regex_z3.py): a contract module
        # exposes them as regex_facts() -> (assumptions, [(label, hyps, goal, kind, note)]); obligation names <prop>/regex/<label>
        try:
            pm = importlib.import_module(f"contracts.{prop}")
            if hasattr(pm, "regex_facts"):
                from pyvc.engine import Oblig

                r_assume, r_facts = pm.regex_facts()
                for lab, hyps, goal, kind, note in r_facts:
                    if not a.only or a.only in f"{prop}/regex/{lab}":
                        (covers if kind == "cover" else obligs).append(Oblig(f"{prop}/regex/{lab}", list(hyps), goal, kind, note))
                        regex_names.append(f"{prop}/regex/{lab}")
                if regex_names:
                    assumptions |= set(r_assume)
        except ModuleNotFoundError:
            pass
        except Unsupported as e:
            errors.append(f"{prop}/regex: unsupported: {e}")
        except Exception as e:  # a repository module that no longer imports / runs: never a violation
            errors.append(f"{prop}/regex: engine error: {type(e).__name__}: {e}\n{traceback.format_exc(limit=6)}")
    if used_lemmas:
        from pyvc import lemmas as _lm
        from pyvc.engine import Oblig

        for nm in sorted(used_lemmas):
            obligs.append(Oblig(f"{prop}/lemma/{nm}", [], _lm.abstract_goal(nm), "lemma", "abstract lemma instantiated as a proof hint"))
    results = discharge_all(obligs + covers, timeout_ms, cover_timeout_ms=3000) if obligs else {}
    exit_covers = {}
    for name in [n for n in results if "/cover/" in n]:
        for r in results.pop(name):
            if "/cover/assumptions-consistent-at-exit-" in name:
                # must-fail canary: a single exit path may be infeasible without harm (branches are taken when a quick feasibility
                # test cannot refute them); the contract is vacuous only if NO recorded exit of the variant is consistent
                exit_covers.setdefault((name.rsplit("-", 1)[0], r["note"]), []).append(r["verdict"])
            elif r["verdict"] == "unsat":
                errors.append(f"{name}: contradictory precondition / vacuous contract ({r['note']})")
    for (name, variant), verdicts in sorted(exit_covers.items()):
        if all(v_ == "unsat" for v_ in verdicts):
            errors.append(f"{name}: the assumptions collected along every recorded exit path are contradictory: vacuous proof ({variant})")

    # ---------------------------------------------------------------- induction lemmas: schemas checked by Lean
    lean_map = {"tree_induction": ("Lemmas.lean", ["tree_induction", "all_nodes_below_root"]), "count-of-a-singleton-mask": ("Lemmas.lean", ["count_singleton"]),
                "cumsum-of-nonnegatives": ("Lemmas.lean", ["cumsum_monotone"]), "count-of-two-marked-positions": ("Lemmas.lean", ["count_monotone", "count_two"]),
                "traverse client rule": ("TraverseRule.lean", ["inv_of_reach", "traverse_rule_sound", "traverse_rule_sound_no_enter", "traverse_rule_sound_no_leave"]),
                "whitespace-token lemma": ("Tokens.lean", ["token_split_unique", "tokens_unique"]),
                "prim cut-property": ("Prim.lean", ["prim_tree_is_minimum", "prim_tree_connected", "prim_tree_weight_eq", "prim_tree_total_is_least"]),
                "functional-cycle lemmas": ("FunctionalCycle.lean", ["conn_rec_iff", "closing_edge_gives_cycle", "cycle_gives_closing_edge", "functional_cycle"]),
                "component lemmas": ("Components.lean", ["const_on_components", "labels_iff_connected", "all_connected_iff", "separated_not_connected", "fixpoint_labels_edges"]),
                "counting lemma": ("Count.lean", ["count_skips", "count_counts"])}
    used_files = {}
    for a_ in assumptions:
        if a_.startswith("assumed-lemma:"):
            for k, (fn_, ts) in lean_map.items():
                if k in a_:
                    used_files.setdefault(fn_, set()).update(ts)
    if used_files and not a.no_proof:
        all_ok = True
        for fn_, ts in sorted(used_files.items()):
            ok, secs, msg = check_lean(sorted(ts), fn_)
            all_ok = all_ok and ok
            for t in sorted(ts):
                results[f"{prop}/lean/{t}"] = [dict(name=f"{prop}/lean/{t}", verdict="unsat" if ok else "unknown", backend="lean", seconds=secs / len(ts), model=None,
                                                    reason=msg, kind="lemma", note=f"schema checked by `lean lean/{fn_}`")]
            if not ok:
                errors.append(f"lean lemma library lean/{fn_} does not check: " + msg)
        if all_ok:
            assumptions = {(("lemma schema proved in Lean 4 (lean/), instantiated by inspection: " + x[len("assumed-lemma:"):]) if x.startswith("assumed-lemma:") and any(k in x for k in lean_map) else x) for x in assumptions}

    # ---------------------------------------------------------------- verdicts
    base_path = os.path.join(HERE, "baseline", f"{prop}.json")
    baseline = json.load(open(base_path)) if os.path.exists(base_path) else {"discharged": [], "sha": {}}
    sha_now = {c["key"]: c["sha256"] for c in carriers}
    failed, undecided, discharged = [], [], []
    solver_s, backends = 0.0, {}
    for name, rs in sorted(results.items()):
        solver_s += sum(r["seconds"] for r in rs)
        for r in rs:
            backends[r["backend"]] = backends.get(r["backend"], 0) + 1
        # Obligations that only structure the proof (loop invariants, proof-step annotations, variants, per-iteration yield
        # descriptions) are NOT clauses of the property: when one of them stops being provable after an edit, the proof is
        # incomplete (exit 2) - the code may simply have been refactored - and only the bounded stand-in or an externally
        # meaningful obligation (postcondition, precondition at a call, frame / ownership, safety, exception flow, lemma) can
        # turn that into a violation.
        internal = all(r.get("kind") in INTERNAL_KINDS for r in rs)
        if all(r["verdict"] == "unsat" for r in rs):
            discharged.append(name)
        elif any(r["verdict"] == "sat" for r in rs) and not internal:
            failed.append((name, [r for r in rs if r["verdict"] == "sat"][0]))
        else:
            bad = [r for r in rs if r["verdict"] != "unsat"][0]
            fn = name.split("/")[1]
            changed = any(k.endswith(":" + fn) and baseline["sha"].get(k) not in (None, h) for k, h in sha_now.items())
            if name in baseline["discharged"] and changed and not internal and not _proved_at_fixed_size(rs):
                failed.append((name, bad))  # passed on the unchanged tree, source changed, no longer provable
            else:
                undecided.append((name, bad))

    if a.write_baseline:
        os.makedirs(os.path.dirname(base_path), exist_ok=True)
        json.dump({"discharged": sorted(discharged), "sha": sha_now}, open(base_path, "w"), indent=1)

    bctx = None
    if not a.no_bounded:
        try:
            bctx = run_bounded(prop, tier, seed)
        except Exception as e:
            errors.append(f"bounded stand-in crashed: {type(e).__name__}: {e}\n{traceback.format_exc(limit=8)}")

    known = load_known()
    os.makedirs(os.path.join(OUT, "replay"), exist_ok=True)
    import glob

    for old in glob.glob(os.path.join(OUT, "replay", f"{prop}-*.json")):
        os.remove(old)
    lines, nviol, known_hit = [], 0, []
    bviol = list(bctx.violations) if bctx else []
    used_b = set()
    known_obligs = []  # obligations that fail BECAUSE of a listed open finding: reported as KNOWN-FINDING, never counted as claimed / discharged
    for name, r in failed:
        ks = [k for k in known if finding_matches(k, prop, oblig=name)]
        if ks:
            known_hit.append((ks[0], name))
            known_obligs.append(name)
            continue
        fn = name.split("/")[1]
        match = next((i for i, b in enumerate(bviol) if b["carrier"].split(".")[-1] == fn.split(".")[-1] or b["carrier"] == fn), None)
        nviol += 1
        path = os.path.join(OUT, "replay", f"{prop}-{nviol}.json")
        rec = dict(property=prop, obligation=name, kind=r.get("kind"), note=r.get("note"), solver=r["backend"], verdict=r["verdict"], reason=r.get("reason"), counter_model=(r.get("model") or "")[:4000])
        cm = None
        if r["verdict"] == "sat" and r.get("_ob") is not None and not os.environ.get("VERIF_NO_CMREPLAY"):
            # the verifier's counter-model, replayed on the real code (pyvc/cmreplay.py): the instances of this obligation that have a
            # model are tried in turn until the real function shows what the model predicts
            try:
                from pyvc import cmreplay

                for r2 in [x for x in results.get(name, []) if x["verdict"] == "sat" and x.get("_ob") is not None][:4]:
                    cm = cmreplay.try_replay(r2["_ob"])
                    if cm and cm.get("status") == "reproduced":
                        rec.update(note=r2.get("note"), counter_model=(r2.get("model") or "")[:4000])
                        break
            except Exception as e:  # a failed replay attempt never changes a verdict
                cm = dict(status="replay-crashed", reason=f"{type(e).__name__}: {e}")
            if cm:
                rec["counter_model_replay"] = {k: v for k, v in cm.items() if k not in ("input_pickle", "expect")}
        if cm and cm.get("status") == "reproduced":
            rec["failing_input"] = dict(carrier=fn, clause=name.split("/", 2)[-1], input=cm["input"], observed=cm["observed"], expected=cm.get("expected"),
                                        replay=dict(kind="counter-model", key=cm["key"], input_pickle=cm.get("input_pickle"), expect=cm.get("expect")))
            if match is not None:  # the bounded stand-in saw the same carrier fail: its clauses are reported with this obligation, not again
                used_b.add(match)
                for i2, b2 in enumerate(bviol):
                    if (b2["carrier"], b2["clause"]) == (bviol[match]["carrier"], bviol[match]["clause"]):
                        used_b.add(i2)
                rec["bounded_failing_input"] = bviol[match]
            json.dump(rec, open(path, "w"), indent=1, default=str)
            lines.append(f"VIOLATION property={prop} replay={path} obligation={name} counter-model-replayed-on-the-real-code")
        elif match is not None:
            used_b.add(match)
            for i2, b2 in enumerate(bviol):
                if (b2["carrier"], b2["clause"]) == (bviol[match]["carrier"], bviol[match]["clause"]):
                    used_b.add(i2)
            rec["failing_input"] = bviol[match]
            json.dump(rec, open(path, "w"), indent=1, default=str)
            lines.append(f"VIOLATION property={prop} replay={path} obligation={name}")
        elif r.get("kind") == "regex" and r.get("model"):
            from contracts.regex_facts import counter_text

            rec["failing_input"] = dict(carrier="regex", clause=name, input=dict(text=counter_text(r["model"])), note=r.get("note"))
            json.dump(rec, open(path, "w"), indent=1, default=str)
            lines.append(f"VIOLATION property={prop} replay={path} obligation={name} text={counter_text(r['model'])!r}")
        else:
            json.dump(rec, open(path, "w"), indent=1, default=str)
            lines.append(f"VIOLATION property={prop} replay={path} obligation={name} no-failing-input-found")
    for i, b in enumerate(bviol):
        if i in used_b:
            continue
        ks = [k for k in known if finding_matches(k, prop, carrier=b["carrier"], clause=b["clause"], input=b["input"])]
        if ks:
            known_hit.append((ks[0], f"{b['carrier']}/{b['clause']}"))
            continue
        for i2, b2 in enumerate(bviol):
            if (b2["carrier"], b2["clause"]) == (b["carrier"], b["clause"]):
                used_b.add(i2)
        nviol += 1
        path = os.path.join(OUT, "replay", f"{prop}-{nviol}.json")
        json.dump(dict(property=prop, obligation=f"bounded:{b['carrier']}/{b['clause']}", failing_input=b), open(path, "w"), indent=1, default=str)
        lines.append(f"VIOLATION property={prop} replay={path} bounded={b['carrier']}/{b['clause']}")
        if nviol > 25:
            break

    seen_k = set()
    for k, what in known_hit:
        kid = json.dumps(k, sort_keys=True)
        if kid in seen_k:
            continue
        seen_k.add(kid)
        print(f"KNOWN-FINDING: property={prop} {k.get('what', what)}")
    for ln in lines:
        print(ln)

    nob = len(results)
    if not a.no_proof and nob == 0 and mine:
        errors.append("zero obligations generated")

    # ---------------------------------------------------------------- evidence
    level = MANIFEST_LEVEL.get(prop, "proof")
    cov = dict(
        obligations=nob - len(known_obligs),  # obligations claimed: all generated ones minus those that fail because of a listed open finding
        obligations_failing_by_known_finding=sorted(known_obligs),
        discharged=len(discharged),
        checker_cmd=f"./check {prop} --tier {tier}  (pyvc VC generator over /repo AST -> z3 {z3.get_version_string()}, cvc5 1.0.3 for z3's unknowns)",
        trusted_base=sorted(assumptions) + sorted(f"assumed-contract:{c.key}" for c in R.values() if c.trusted and c.prop == prop),
        functions_under_contract=[dict(key=c["key"], sha256=c["sha256"], paths=c["stats"]["paths"], obligations=c["obligations"]) for c in carriers],
        obligation_instances=sum(len(v) for v in results.values()),
        backends=backends,
        solver_seconds=round(solver_s, 2),
        failed_obligations=[n for n, _ in failed],
        undecided_obligations=[n for n, _ in undecided],
        samples=[dict(obligation=n, instances=len(results[n]), backend=results[n][0]["backend"]) for n in sorted(results)[:8]] or [dict(note="no obligations")],
        machinery_errors=errors,
        slowest_obligations=[dict(obligation=n, slowest_instance_s=round(s, 2), instances=len(results[n])) for s, n in sorted(((max(r["seconds"] for r in rs), n) for n, rs in results.items() if rs), reverse=True)[:8]],
        solver_budget_s=timeout_ms / 1000,
    )
    if regex_names:
        cov["regex_language_facts"] = [dict(obligation=n, verdict=results[n][0]["verdict"], backend=results[n][0]["backend"], seconds=round(results[n][0]["seconds"], 2),
                                            fact=results[n][0].get("note")) for n in regex_names if n in results]
    if bctx is not None:
        cov["bounded"] = dict(
            label="bounded stand-in: run-time evaluation on the real code, never counted as proved",
            evaluations=bctx.evaluations,
            distinct_nontrivial=len(bctx.distinct),
            rule=" | ".join(bctx.rules),
            exhaustive=bool(bctx.exhaustive) and all(bctx.exhaustive),
            samples=bctx.samples[:8],
            violations=len(bctx.violations),
            notes=bctx.notes,
        )
        cov["evaluations"] = max(1, bctx.evaluations)
        cov["distinct_nontrivial"] = len(bctx.distinct)
        cov["rule"] = " | ".join(bctx.rules)
        if level != "proof":
            cov["samples"] = bctx.samples[:8] or cov["samples"]
        cov["explanation"] = "deductive obligations on the carriers listed in functions_under_contract; the remaining clauses are decided only by the bounded stand-in described under `bounded`"
    ev = dict(
        property_id=prop, tier=tier, seed=seed, level=level, coverage=cov,
        assumptions=sorted(assumptions) + ["python ints are mathematical; numpy ints do not overflow", "floats are real numbers (no rounding)"],
        wall_s=round(time.time() - t0, 2), violations=nviol,
    )
    os.makedirs(os.path.join(OUT, "evidence"), exist_ok=True)
    json.dump(ev, open(os.path.join(OUT, "evidence", f"{prop}.json"), "w"), indent=1, default=str)

    if a.v or errors or undecided:
        for e in errors:
            print("MACHINERY-ERROR:", e, file=sys.stderr)
        for n, r in undecided:
            print(f"UNDECIDED: {n} ({r['verdict']}: {r.get('reason')})", file=sys.stderr)
    print(f"{prop}: obligations={nob} discharged={len(discharged)} failed={len(failed)} undecided={len(undecided)} "
          f"bounded_evals={bctx.evaluations if bctx else 0} bounded_violations={len(bctx.violations) if bctx else 0} "
          f"known={len(seen_k)} errors={len(errors)} wall={time.time() - t0:.1f}s")
    if nviol:
        return 1
    if errors:
        return 3
    if undecided:
        return 2
    return 0


def _proved_at_fixed_size(rs):
    """The "no longer provable" rule turns an inconclusive answer into a violation.  It does not apply where the SAME obligation was
    PROVED on the changed code by a registration of the carrier on inputs of a fixed size (quantifier-free instances, loops executed)
    and only the instances over inputs of symbolic size (quantified hypotheses) are inconclusive: the clause then holds on every
    input up to that size, nothing refutes it, and the honest verdict is "undecided" (exit 2) -- a correct vectorised rewrite of
    `is_bifurcate` was reported as a violation without a failing input before this rule (fourth session, docs/w4/c18.md)."""
    from pyvc.engine import _has_quant

    def quantified(r):
        ob = r.get("_ob")
        return ob is None or _has_quant(ob.goal) or any(_has_quant(h) for h in ob.hyps)

    open_ = [r for r in rs if r["verdict"] != "unsat"]
    closed_qf = [r for r in rs if r["verdict"] == "unsat" and r.get("backend") != "simplify" and not quantified(r)]
    return bool(closed_qf) and all(quantified(r) for r in open_)


def check_lean(theorems, fname="Lemmas.lean"):
    """run Lean on a file of the lemma library (cached per file content in the scratch directory); every named theorem must be in it"""
    import hashlib as _h
    import shutil
    import subprocess

    path = os.path.join(HERE, "lean", fname)
    if not os.path.exists(path):
        return False, 0.0, f"lean/{fname} missing"
    src = open(path).read()
    missing = [t for t in theorems if f"theorem {t} " not in src and f"theorem {t}\n" not in src]
    if missing:
        return False, 0.0, f"theorems not found: {missing}"
    if "sorry" in src or "axiom " in src:
        return False, 0.0, "lemma library contains sorry / axiom"
    stampf = os.path.join(os.environ["VERIF_SCRATCH"], "lean-ok-" + _h.sha256(src.encode()).hexdigest()[:16])
    if os.path.exists(stampf):
        return True, 0.0, "cached"
    exe = shutil.which("lean")
    if exe is None:
        return False, 0.0, "lean not on PATH"
    t0 = time.time()
    p = subprocess.run([exe, path], capture_output=True, text=True, timeout=600)
    out = (p.stdout + p.stderr).strip()
    if p.returncode == 0 and "error" not in out:
        open(stampf, "w").write(out)
        return True, time.time() - t0, "checked"
    return False, time.time() - t0, out[:400]


def do_replay(prop, path):
    rec = json.load(open(path))
    fi = rec.get("failing_input")
    print(json.dumps(rec, indent=1)[:3000])
    if not fi or not fi.get("replay"):
        print("no concrete failing input recorded (no-failing-input-found)")
        return 1
    if isinstance(fi["replay"], dict) and fi["replay"].get("kind") == "counter-model":
        from pyvc import cmreplay

        ok = cmreplay.rerun(fi)
        print("replay:", "the real code no longer shows the recorded behaviour" if ok else "FAILS on the real code (same behaviour as recorded)")
        return 0 if ok else 1
    if isinstance(fi["replay"], dict) and fi["replay"].get("kind") == "history":
        from bounded import history

        ok = history.replay(getattr(history, "Q_" + prop), fi["replay"])
        print("replay:", "property holds on this input now" if ok else "FAILS on the real code")
        return 0 if ok else 1
    if isinstance(fi["replay"], dict) and fi["replay"].get("kind") == "reuse":
        from bounded import reuse

        ok = reuse.replay(prop, fi["replay"])
        print("replay:", "property holds on this input now" if ok else "FAILS on the real code")
        return 0 if ok else 1
    m = importlib.import_module(f"bounded.{prop}")
    ok = m.replay(fi["replay"])
    print("replay:", "property holds on this input now" if ok else "FAILS on the real code")
    return 0 if ok else 1


MANIFEST_LEVEL = {}
try:
    _m = json.load(open(os.path.join(HERE, "MANIFEST.json")))
    for _c in _m.get("checks", []):
        MANIFEST_LEVEL[_c["property_id"]] = _c["level_claimed"]["category"]
except Exception:  # pragma: no cover
    pass

if __name__ == "__main__":
    sys.exit(main())
