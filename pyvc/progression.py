"""Loop contracts DERIVED from the loop: yielding loops whose carried variables run through an arithmetic progression.

    z = z0                                   for i in range(n):
    while z < hi:                                z = z0 + i * dz
        yield make(z)                            yield make(z)
        z += dz

`derived(fallback=...)` is a loop contract that is computed at the loop head (`loops={0: progression.derived(...)}`; the hook
is the callable case of `loops.loop_spec`).  The body is executed ONCE, on scratch state, for an arbitrary iteration (the
probe): every scalar the body assigns holds a fresh symbol, the `while` test (resp. `0 <= k < len(seq)` and the loop target
of a `for`) is assumed, branching inside the body is refused.  From the probe are read off
  * the STEP of every carried scalar  (value after the body - value before), which must not depend on the iteration;
  * WHAT the iteration yields: the yielded value as a term of (carried scalars, iteration number), or - for a value that is a
    fresh reference (a constructed object) - the facts the constructor's model assumed about it;
  * the loop TEST as a term of the carried scalars.
and the invariants, with n = number of completed iterations (= number of items yielded so far; the ghost index of a `for`):
    carried-variable-<i>-is-its-entry-value-plus-n-steps          c == c_entry + n * step
    item-j-is-what-iteration-j-yields                             forall 0 <= j < n: facts[c := c_entry + j * step, k := j, item := yielded[j]]
    test-held-before-every-completed-iteration (while)            forall 0 <= j < n: test[c := c_entry + j * step]
    one-item-per-completed-iteration (for)                        len(yielded) == n
are handed to the ORDINARY invariant cut of pyvc/loops.py: their entry / preserved obligations are generated and discharged
like those of hand-written invariants.  Nothing is assumed here: a wrong derivation makes an invariant obligation fail, it
cannot make a proof unsound.  What is gained: the loop contract names no local variable and prescribes neither start, step,
bound nor loop form, so every such detail of the code reaches the POSTCONDITIONS (written from the property), which decide.

A loop outside this shape (branching body, break / continue, container updates, several yields per iteration, a carried value
that is not a progression, ...) gets the hand-written `fallback` contract, or is refused (Unsupported) without one.
"""
from __future__ import annotations

import ast
import re

import z3

from .engine import BreakSig, ContinueSig, Infeasible, PathEnd, ProgExc, ReturnSig, Unsupported
from .values import DictListRef, NArr, Obj, PDict, PList, SArr, Sym, fresh, kind_of, next_uid, to_z3, zint


class NotApplicable(Exception):
    pass


_UID = re.compile(r"!(\d+)$")
_REFUSED = (ast.Break, ast.Continue, ast.Return, ast.YieldFrom, ast.While, ast.For, ast.Try, ast.With, ast.Raise, ast.Global, ast.Nonlocal, ast.Delete)


def _consts(t, acc=None, seen=None):
    """uninterpreted constants of a term"""
    acc = acc if acc is not None else {}
    seen = seen if seen is not None else set()
    stack = [t]
    while stack:
        x = stack.pop()
        if x.get_id() in seen:
            continue
        seen.add(x.get_id())
        if z3.is_quantifier(x):
            stack.append(x.body())
            continue
        if z3.is_app(x):
            if x.num_args() == 0 and x.decl().kind() == z3.Z3_OP_UNINTERPRETED:
                acc[x.decl().name()] = x
            stack.extend(x.children())
    return acc


def _newer(name, mark):
    """was the constant `name` made during the probe (mark = (first, last) uid of the probe)"""
    m = _UID.search(name)
    return m is not None and mark[0] < int(m.group(1)) < mark[1]


def _probe_consts(t, mark):
    return {nm: c for nm, c in _consts(t).items() if _newer(nm, mark)}


def derived(fallback=None, label="derived"):
    """loop contract computed at the loop head; `fallback`: the hand-written loop contract for loops outside the shape"""

    def make(eng, fr, node, o):
        try:
            spec = _derive(eng, fr, node, o, label)
            eng.ghost.setdefault("derived-loop-contracts", []).append(o)
            return spec
        except NotApplicable as e:
            if fallback is None:
                raise Unsupported(f"loop #{o}: no loop contract could be derived ({e}) and no hand-written one is given")
            return fallback

    make.fallback = fallback
    return make


def _derive(eng, fr, s, o, label):
    from .loops import _callee_mutates_self, _walk_no_defs, _yield_sink, analyse_mutation
    from .models import as_sequence

    is_for = isinstance(s, ast.For)
    sink = _yield_sink(fr, s.body)
    if sink is None:
        raise NotApplicable("the loop does not yield")
    if sink.items is None or sink.items:
        raise NotApplicable("values were yielded before the loop")
    if s.orelse:
        raise NotApplicable("loop with an else block")
    for x in _walk_no_defs(s.body):
        if isinstance(x, _REFUSED) or isinstance(x, (ast.FunctionDef, ast.Lambda)):
            raise NotApplicable(f"{type(x).__name__} inside the body")
    nodes = ([] if is_for else [s.test]) + list(s.body)
    names, roots = analyse_mutation(eng, nodes, fr)
    if names & set(fr.nonlocals):
        raise NotApplicable("the body assigns a nonlocal name")
    for r in roots:
        try:
            if isinstance(r, tuple) and r[0] == "attr":
                raise NotApplicable("the body stores into an attribute")
            if isinstance(r, tuple) and r[0] == "call":
                base = eng.ev(r[1], fr)
                if isinstance(base, Obj) and _callee_mutates_self(eng, base, r[2]):
                    raise NotApplicable("the body calls a method that changes its object")
                continue
            v = eng.ev(r, fr)
        except (ProgExc, Unsupported):
            continue
        if isinstance(v, (SArr, NArr, PList, PDict, Obj, DictListRef)):
            raise NotApplicable("the body updates a container")

    # ------------------------------------------------------------------ the probe: one arbitrary iteration on scratch state
    seq = None
    if is_for:
        eng.seq_effects = []
        try:
            n_seq, getter = as_sequence(eng, eng.ev(s.iter, fr))
        except Unsupported as e:
            raise NotApplicable(f"iterable: {e}")
        finally:
            effects, eng.seq_effects = eng.seq_effects, None
        if effects:
            raise NotApplicable("lazy iterable")
        seq = n_seq.z if isinstance(n_seq, Sym) else zint(n_seq)
    mark = [next_uid(), float("inf")]
    saved_vars, npc, nob = dict(fr.vars), len(eng.pc), len(eng.obligs)
    saved_log = list(getattr(eng, "call_log", []))
    saved_ghost, saved_warn, saved_frame, saved_site = dict(eng.ghost), list(eng.warn_log), getattr(eng, "cur_frame", None), getattr(eng, "_site_n", 0)
    P = {}
    kq = fresh("int", "iteration")
    items, finals, test, facts = [], {}, None, []
    try:
        for nm in sorted(names):
            if nm in fr.vars:
                k = kind_of(fr.vars[nm])
                if k not in ("int", "real"):
                    raise NotApplicable(f"the body assigns `{nm}`, which holds no number at the loop head")
                P[nm] = fresh(k, nm)
                fr.vars[nm] = P[nm]
        if is_for:
            eng.assume(z3.And(kq.z >= 0, kq.z < seq))
            eng.assign(s.target, getter(kq), fr)
        else:
            t = eng.truth(eng.ev(s.test, fr))
            test = to_z3(t, "bool") if isinstance(t, Sym) else z3.BoolVal(bool(t))
            eng.assume(test)
        npc2 = len(eng.pc)
        sink.items = []
        eng.pure_mode = getattr(eng, "pure_mode", 0) + 1
        try:
            eng.exec_block(s.body, fr)
        except (Unsupported, ProgExc, Infeasible, PathEnd, BreakSig, ContinueSig, ReturnSig) as e:
            raise NotApplicable(f"the body cannot be run as one straight-line step ({type(e).__name__}: {e})")
        finally:
            eng.pure_mode -= 1
        items = list(sink.items)
        finals = {nm: fr.vars.get(nm) for nm in P}
        proved = [ob.goal for ob in eng.obligs[nob:]]
        facts = [h for h in eng.pc[npc2:] if not any(h.eq(g) for g in proved)]
    finally:
        fr.vars.clear()
        fr.vars.update(saved_vars)
        del eng.pc[npc:]
        del eng.obligs[nob:]
        if hasattr(eng, "call_log"):
            eng.call_log[:] = saved_log
        eng.ghost.clear()
        eng.ghost.update(saved_ghost)
        eng.warn_log[:] = saved_warn
        eng.cur_frame, eng._site_n = saved_frame, saved_site
        sink.items = []
        mark[1] = next_uid()

    # ------------------------------------------------------------------ reading the probe
    if len(items) != 1:
        raise NotApplicable(f"{len(items)} values yielded per iteration")
    item = items[0]
    if not isinstance(item, Sym) or item.kind not in ("ref", "int", "real"):
        raise NotApplicable("the yielded value is not a scalar / reference")
    item_is_fresh = z3.is_const(item.z) and item.z.decl().kind() == z3.Z3_OP_UNINTERPRETED and _newer(item.z.decl().name(), mark)
    steps, dead = {}, []
    for nm, p in P.items():
        fin = finals.get(nm)
        if kind_of(fin) not in ("int", "real"):
            raise NotApplicable(f"`{nm}` holds no number after the body")
        k = "real" if "real" in (p.kind, kind_of(fin)) else "int"
        d = z3.simplify(to_z3(fin, k) - to_z3(p, k))
        if not _probe_consts(d, mark):
            steps[nm] = (d, k)
        else:
            dead.append(nm)  # recomputed in every iteration: must not be read before it is written (checked below)
    if item_is_fresh:
        facts = [h for h in facts if item.z.decl().name() in _consts(h)]
        described = z3.And(*facts) if facts else z3.BoolVal(True)
    else:
        described = None  # the value itself is the description
    outputs = [described if described is not None else item.z] + ([test] if test is not None else [])
    for nm in dead:
        for t in outputs:
            if P[nm].z.decl().name() in _consts(t):
                raise NotApplicable(f"`{nm}` is carried from one iteration to the next but does not advance by a constant step")
        for nm2 in dead:
            if nm2 != nm and P[nm].z.decl().name() in _consts(to_z3(finals[nm2], "real")):
                raise NotApplicable(f"`{nm}` is carried from one iteration to the next but does not advance by a constant step")
    entry = {nm: saved_vars[nm] for nm in steps}
    J = z3.Int("iteration_j")
    ycol_kind = item.kind

    def at(j):
        """substitution for iteration j: carried variables by their closed form, the iteration number by j"""
        sub = [(kq.z, j)]
        for nm, (d, k) in steps.items():
            c0 = to_z3(entry[nm], k)
            jj = z3.ToReal(j) if k == "real" else j
            sub.append((P[nm].z, c0 + jj * d))
        return sub

    def closed(term, j, yielded_j=None):
        sub = at(j)
        if yielded_j is not None and item_is_fresh:
            sub.append((item.z, yielded_j))
        out = z3.substitute(term, *sub)
        left = [nm for nm in _probe_consts(out, mark)]
        if left:
            raise NotApplicable(f"what an iteration does depends on values made inside the body ({', '.join(sorted(left))})")
        return out

    # everything must close over (entry state, j): check once, now
    if described is not None:
        closed(described, J, z3.Int("yielded_j"))
    else:
        closed(item.z, J)
    if test is not None:
        closed(test, J)

    kname = f"_k{o}"

    def count(v):
        y = v["__yield__"]
        ln = zint(len(y.items)) if y.items is not None else zint(y.n)
        return (to_z3(v[kname], "int") if is_for else ln), ln, y

    invs = []
    if is_for:
        invs.append((f"{label}/one-item-per-completed-iteration", lambda E, v, o_: count(v)[1] == count(v)[0]))
    else:
        invs.append((f"{label}/iterations-completed-is-the-number-of-items-yielded", lambda E, v, o_: count(v)[0] >= 0))
    for idx, nm in enumerate(sorted(steps)):
        d, k = steps[nm]

        def carried(E, v, o_, nm=nm, d=d, k=k):
            n = count(v)[0]
            nn = z3.ToReal(n) if k == "real" else n
            return to_z3(v[nm], k) == to_z3(entry[nm], k) + nn * d

        invs.append((f"{label}/carried-variable-{idx}-is-its-entry-value-plus-iterations-times-its-step", carried))

    def yielded(E, v, o_):
        n, ln, y = count(v)
        if y.items is not None:
            if y.items:
                raise Unsupported("derived loop contract: concrete non-empty yield list")
            return True
        yj = z3.Select(y.cols[0], J)
        body = closed(described, J, yj) if described is not None else yj == closed(item.z, J)
        return z3.ForAll([J], z3.Implies(z3.And(J >= 0, J < n), body))

    invs.append((f"{label}/item-j-is-what-iteration-j-yields", yielded))
    if test is not None:
        invs.append((f"{label}/test-held-before-every-completed-iteration",
                     lambda E, v, o_: z3.ForAll([J], z3.Implies(z3.And(J >= 0, J < count(v)[0]), closed(test, J)))))
    return dict(invariant=invs, types={"__yield__": ycol_kind}, modifies=["__yield__"], derived=True)
