"""C19 extensions of pyvc.

Part 1  LAZY SEQUENCES.  The population classes iterate with generator expressions whose ELEMENTS HAVE SIDE EFFECTS
        (`(self[i] for i in range(self.__len__()))` loads file i when item i is requested).  The stock model of a generator
        expression over a symbolic sequence evaluates the element once, purely; that is refused for such elements (a symbolic
        branch inside the element is `Unsupported`).  `genexp_hook` (contract option) keeps such an expression lazy instead:
        it evaluates only the FIRST ITERABLE at creation (as CPython does) and returns a `LazySeq(n, step, effects)`;
        `step(eng, k)` runs the REAL element expression for position k in program mode at the moment item k is requested.
        Consumers:  a `for` loop cut by an invariant (pyvc.loops.exec_for: the element is evaluated inside the arbitrary
        iteration, the state it may modify is havocked with the loop state),  `consume` below (the same cut for a consumer
        that is a library model: executor.map, a filtered comprehension),  `arbitrary_item` (the item rule for a carrier that
        RETURNS the lazy iterator: item k is produced on an arbitrary state satisfying the object invariant).
        Everything here is the ordinary loop-invariant rule (induction over the positions 0..n-1); nothing is assumed about
        the elements: they are executed.

Part 2  STRINGS, PATHS AND DIRECTORY WALKS (models of os.walk / os.path.* / filter / set / functools.reduce / min) and
        Part 3  PROCESS POOLS are further down; each model states what it assumes with `used(...)`.
"""
from __future__ import annotations

import ast

import z3

from . import models
from .engine import Frame, ProgExc, Unsupported
from .loops import havoc_value
from .values import Iter, Obj, Opaque, PList, SArr, Sym, fresh, fresh_name, kind_of, next_uid, to_z3, zint

_I, _B = z3.IntSort(), z3.BoolSort()


def used(eng, name):
    eng.assumptions.add("C19-model:" + name)


# ===================================================================================================== lazy sequences
class LazySeq:
    """a lazy iterable of `n` items (n: int or z3 Int); item k is `step(eng, k)`, evaluated when it is requested;
    `effects()` lists the mutable values a step may modify (they are part of the state of every consumer loop)"""

    def __init__(self, n, step, effects, what="generator expression"):
        self.n, self.step, self.effects, self.what = n, step, effects, what
        self.uid = next_uid()
        self.consumed = False

    def nz(self):
        return zint(self.n)

    def __pyvc_sequence__(self, eng):
        if getattr(eng, "seq_effects", None) is None or eng.spec_mode or getattr(eng, "pure_mode", 0):
            raise Unsupported(f"lazy {self.what} consumed by a construct that does not model laziness")
        eng.seq_effects.extend(self.effects())
        return self.n, (lambda k: self.step(eng, k))

    def __pyvc_snapshot__(self, memo):
        return self

    def __repr__(self):
        return f"LazySeq<{self.what} x {self.n}>"


def lazy_state(o, seen=None):
    """the mutable ghost/cache state behind a `Trees` value: the cache and the read counters of a LazyLoadingTrees"""
    seen = seen if seen is not None else set()
    if id(o) in seen or not isinstance(o, Obj):
        return []
    seen.add(id(o))
    out = []
    if getattr(o.cls, "__name__", "") == "LazyLoadingTrees":
        out += [o.fields[x] for x in ("trees", "reads") if x in o.fields]
    else:
        for x in o.fields.values():
            out += lazy_state(x, seen)
    return out


def _has_repo_iter(eng, v):
    if not isinstance(v, Obj) or "__items__" in v.fields:
        return False
    r = eng.find_method(v.cls, "__iter__")
    return r is not None and r[0] == "func" and eng.func_from_py(r[1], r[2]) is not None


def genexp_hook(eng, node, fr, first):
    """contract option `genexp_hook=ext_C19.genexp_hook`.  A generator expression stays lazy when its source is lazy or its
    element indexes an object (`self[i]`: a repository __getitem__, which may load a file)."""
    gens = node.generators
    if len(gens) != 1 or gens[0].ifs:
        return NotImplemented
    src = first
    if _has_repo_iter(eng, src):
        src = eng.call(eng.getattr_(src, "__iter__"), [], {})  # iter(x) is taken at creation, once
    lazy_elt = any(isinstance(x, ast.Subscript) for x in ast.walk(node.elt))
    if isinstance(src, LazySeq):
        n, inner, inner_eff = src.n, src.step, src.effects
    elif lazy_elt:
        try:
            items = models.iterate_concrete(eng, src)
        except Unsupported:
            items = None
        if items is not None:
            if src is first:
                return NotImplemented
            return models.comprehension_over(eng, node, fr, "gen", src)
        n, g = models.as_sequence(eng, src)
        inner, inner_eff = (lambda e, k: g(k if isinstance(k, Sym) else Sym(z3.IntVal(k), "int"))), (lambda: [])
    else:
        if src is first:
            return NotImplemented
        return models.comprehension_over(eng, node, fr, "gen", src)

    def step(e, k):
        sub = Frame(parent=fr, globs=fr.globs, func=fr.func)
        saved = e.cur_frame
        try:
            e.assign(gens[0].target, inner(e, k), sub)
            return e.ev(node.elt, sub)
        finally:
            e.cur_frame = saved

    def effects():
        out = list(inner_eff())
        try:
            out += lazy_state(fr.lookup("self"))
        except ProgExc:
            pass
        seen, uniq = set(), []
        for v in out:
            if id(v) not in seen:
                seen.add(id(v))
                uniq.append(v)
        return uniq

    return with_item_ghost(eng, fr, LazySeq(n, step, effects, what="generator expression `" + ast.unparse(node)[:60] + "`"))


def with_item_ghost(eng, fr, seq):
    """GHOST CODE OF AN ITEM.  The contract of the function that CREATES a lazy iterator may give
    `options["item_ghost"] = fn(eng, vars, k, item, calls)`: ghost code run right after item k has been produced, wherever the
    item is consumed (item rule, consumer rule, a cut `for` loop).  `vars`: the creator's variables, `calls`: the calls logged
    while this one item was produced.  Ghost code updates ghost state only (e.g. the read counters of a LazyLoadingTrees)."""
    key = fr.func.key if fr.func is not None else None
    c = eng.registry.get(key) if key is not None else None
    if eng.cur_contract is not None and eng.cur_contract.key == key:
        c = eng.cur_contract
    ghost = c.options.get("item_ghost") if c is not None else None
    if ghost is None:
        return seq
    inner = seq.step

    def step(e, k):
        mark = len(e.call_log)
        item = inner(e, k)
        from .loops import _visible

        ghost(e, _visible(fr), k, item, list(e.call_log[mark:]))
        return item

    seq.step = step
    return seq


# ------------------------------------------------------------------------------------------ generator FUNCTIONS, lazily
def _docstring_free(body):
    return [s for s in body if not (isinstance(s, ast.Expr) and isinstance(s.value, ast.Constant))]


def _carried_names(loop):
    """names the loop body may carry from one iteration into the next: stored somewhere in the body (loop targets apart) and not
    definitely assigned by a top-level assignment of the body before their first use (conservative, syntactic)"""
    from .loops import _walk_no_defs

    targets = {x.id for x in ast.walk(loop.target) if isinstance(x, ast.Name)}
    stored = {x.id for x in _walk_no_defs(loop.body) if isinstance(x, ast.Name) and isinstance(x.ctx, (ast.Store, ast.Del))} - targets
    defined, carried = set(), set()
    for s in loop.body:
        simple = isinstance(s, (ast.Assign, ast.AnnAssign)) and all(isinstance(t, ast.Name) for t in (s.targets if isinstance(s, ast.Assign) else [s.target]))
        reads = [x for x in _walk_no_defs([s.value] if simple and s.value is not None else [s]) if isinstance(x, ast.Name) and isinstance(x.ctx, ast.Load)]
        carried |= {x.id for x in reads if x.id in stored and x.id not in defined}
        if simple:
            defined |= {t.id for t in (s.targets if isinstance(s, ast.Assign) else [s.target])}
        else:
            carried |= {x.id for x in _walk_no_defs([s]) if isinstance(x, ast.Name) and isinstance(x.ctx, (ast.Store, ast.Del)) and x.id in stored and x.id not in defined}
    return carried


def _mutated_containers(eng, nodes, fr):
    """the containers the statements may modify (the same syntactic analysis as a cut loop's havoc, pyvc.loops.havoc_loop_state),
    as VALUES: they are the state a consumer of the lazy items has to treat as changed by every item"""
    from .loops import _callee_mutates_self, analyse_mutation

    _, roots = analyse_mutation(eng, nodes, fr)
    out = []
    for r in roots:
        if isinstance(r, tuple) and r[0] == "attr":
            try:
                base = eng.ev(r[1], fr)
            except (ProgExc, Unsupported):
                base = None
            if base is None or isinstance(base, Obj):
                raise Unsupported("a lazily run generator loop assigns an attribute of an object")
            continue
        try:
            if isinstance(r, tuple) and r[0] == "call":
                base = eng.ev(r[1], fr)
                if isinstance(base, Obj) and _callee_mutates_self(eng, base, r[2]):
                    m = eng.find_method(base.cls, r[2])
                    f = eng.func_from_py(m[1], m[2]) if m is not None and m[0] == "func" else None
                    c = eng.registry.get(f.key) if f is not None else None
                    if c is not None and c.modifies:
                        sname = f.node.args.args[0].arg
                        out += [eng._eval_in(t, {sname: base}, f.globs) for t in c.modifies if t.split(".")[0] == sname]
                    else:
                        out += [x for x in base.fields.values() if isinstance(x, (PList, SArr))]
                continue
            v = eng.ev(r, fr)
        except (ProgExc, Unsupported):
            continue
        if isinstance(v, (PList, SArr)):
            out.append(v)
        elif isinstance(v, Obj):
            out += [x for x in v.fields.values() if isinstance(x, (PList, SArr))]
    return out


def generator_hook(eng, func, fr):
    """contract option `generator_hook=ext_C19.generator_hook`.  A generator FUNCTION whose body is one `for` loop over a
    sequence of symbolic length that yields exactly one item per iteration
            def __iter__(self):
                for a, b in zip(self.xs, self.ys):
                    yield <expression with side effects>
    is the same lazy sequence as the generator expression with that element: `LazySeq(n, step, effects)`, where `step(eng, k)`
    runs the REAL loop body for position k (program mode) at the moment item k is requested and returns what it yields.
    The element sources are read when the item is requested (a list handed to zip / enumerate is read through, as CPython's
    list iterators do).  Refused (Unsupported): state carried between iterations in local variables, attribute assignment,
    break / return inside the loop, an iteration that yields no item or several.
    Assumes: the loop's iterable expression is evaluated when the generator is created (CPython evaluates it at the first
    next()); its evaluation may call only functions whose contracts modify nothing, so the two moments differ only in the VALUE
    of the expression, i.e. if something it reads (a length, a name) changes between creation and the first item."""
    from .engine import BreakSig, ContinueSig, ReturnSig

    body = _docstring_free(func.node.body)
    if len(body) == 1 and isinstance(body[0], ast.Expr) and isinstance(body[0].value, ast.YieldFrom):
        # `yield from <iterable>` as the whole body: the generator hands out exactly the items of that iterable, each when it is
        # requested.  A lazy iterable (a generator expression kept lazy by genexp_hook, another lazy generator) stays the same lazy
        # sequence; the operand is evaluated at creation (same stated difference to CPython as for the loop form below).
        eng.genexp_hook = getattr(eng, "genexp_hook", None) or genexp_hook
        v = eng.ev(body[0].value.value, fr)
        if _has_repo_iter(eng, v):
            v = eng.call(eng.getattr_(v, "__iter__"), [], {})
        if isinstance(v, LazySeq):
            eng.assumptions.add("C19-model: a generator function `yield from <lazy iterable>` is that lazy iterable (operand evaluated at creation)")
            v.what = "generator function (yield from)"
            return v
        if isinstance(v, (Iter, PList)) or hasattr(v, "__pyvc_sequence__"):
            return v if isinstance(v, Iter) else Iter(v)
        return NotImplemented
    if len(body) != 1 or not isinstance(body[0], ast.For) or body[0].orelse:
        return NotImplemented
    loop = body[0]
    mark = len(eng.call_log)
    seqv = eng.ev(loop.iter, fr)
    try:
        items = models.iterate_concrete(eng, seqv)
    except Unsupported:
        items = None
    if items is not None:
        # concrete length: the stock eager run is exact (the iterable has been evaluated already: the loop runs here)
        out = PList([])
        fr.yield_sink = out
        fr.vars["__yield__"] = out
        try:
            for x in items:
                eng.assign(loop.target, x, fr)
                try:
                    eng.exec_block(loop.body, fr)
                except ContinueSig:
                    continue
                except BreakSig:
                    break
        except ReturnSig:
            pass
        return Iter(out)
    called = {nm for nm, _ in eng.call_log[mark:]}
    if any(c.short in called and c.modifies for c in eng.registry.values()):
        # (a call of a function that modifies nothing -- len(self) -- only makes the VALUE depend on the moment of evaluation)
        raise Unsupported("lazily run generator: evaluating the loop's iterable calls a function that modifies state")
    from .loops import _walk_no_defs

    if any(isinstance(x, (ast.Break, ast.Return, ast.YieldFrom)) for x in _walk_no_defs(loop.body)):
        raise Unsupported("lazily run generator: break / return / yield from inside the loop")
    carried = _carried_names(loop)
    if carried:
        raise Unsupported(f"lazily run generator: the loop carries state between iterations in {sorted(carried)}")
    outer_eff, eng.seq_effects = getattr(eng, "seq_effects", None), []
    try:
        n, getter = models.as_sequence(eng, seqv)
    finally:
        inner_eff, eng.seq_effects = eng.seq_effects, outer_eff  # (a consumer that is collecting effects right now keeps its list)
    used(eng, "rule: a generator function `for x in S: yield e(x)` over a symbolic-length S is the lazy sequence whose item k runs the real loop "
              "body for position k when it is requested (the iterable expression, which may call only functions that modify nothing, is evaluated at creation; list sources are read through)")

    def step(e, k):
        sub = Frame(parent=fr, globs=fr.globs, func=fr.func)
        sink = PList([])
        sub.yield_sink = sink
        saved = e.cur_frame
        try:
            e.assign(loop.target, getter(k if isinstance(k, Sym) else Sym(z3.IntVal(k), "int")), sub)
            try:
                e.exec_block(loop.body, sub)
            except ContinueSig:
                pass
        finally:
            e.cur_frame = saved
        if len(sink.items) != 1:
            raise Unsupported(f"lazily run generator: an iteration yields {len(sink.items)} items (exactly one is supported)")
        return sink.items[0]

    def effects():
        out = list(inner_eff) + _mutated_containers(eng, loop.body, fr)
        try:
            out += lazy_state(fr.lookup("self"))
        except ProgExc:
            pass
        seen, uniq = set(), []
        for v in out:
            if id(v) not in seen:
                seen.add(id(v))
                uniq.append(v)
        return uniq

    return with_item_ghost(eng, fr, LazySeq(n, step, effects, what=f"generator function `{func.key.split(':')[-1]}`"))


# ----------------------------------------------------------------------------------------------- consumers / item rule
class _Saved:
    """contents of the containers a phase havocs, put back afterwards (the phase speaks about an ARBITRARY later state,
    the carrier's own exit state must stay what it was)"""

    def __init__(self, values):
        self.vs = [(v, self._grab(v)) for v in values]

    @staticmethod
    def _grab(v):
        if isinstance(v, PList):
            return (list(v.items) if v.items is not None else None, list(v.cols) if v.cols is not None else None,
                    list(v.kinds) if v.kinds is not None else None, v.n, v.tup)
        if isinstance(v, SArr):
            return (v.arr, v.n)
        raise Unsupported(f"phase over a {type(v).__name__}")

    def restore(self):
        for v, g in self.vs:
            if isinstance(v, PList):
                v.items, v.cols, v.kinds, v.n, v.tup = g
            else:
                v.arr, v.n = g


def phase(eng, values, body):
    """run `body()` on an arbitrary state of `values` (havocked first); every assumption made inside is dropped afterwards,
    the containers get their contents back, the call log is truncated.  Obligations proved inside keep their hypotheses."""
    mark, cmark, saved = len(eng.pc), len(eng.call_log), _Saved(values)
    seen = set()
    for v in values:
        havoc_value(eng, v, seen)
    try:
        return body()
    finally:
        del eng.pc[mark:]
        del eng.call_log[cmark:]
        saved.restore()


def _clauses(eng, clauses, vars, old, default):
    """[(label, value)] of clause strings / (label, fn) pairs evaluated over `vars` (old state `old`)"""
    from .spec import eval_clause, split_label

    out = []
    for j, cl in enumerate(clauses):
        lab, text = split_label(cl, f"{default}{j}")
        out.append((lab, eval_clause(eng, text, vars, None, old_vars=old, extra=eng.spec_extra)))
    return out


def _prove_each(eng, goals, kind, note=""):
    """every clause is its OWN obligation from the state reached (an earlier clause is not a hypothesis of a later one): a
    change that breaks several clauses is reported under each of their names, not only under the first.  (Fewer hypotheses:
    sound.)  All of them are hypotheses afterwards."""
    base, proved = len(eng.pc), []
    for name, val in goals:
        eng.prove(name, val, kind, note)
        proved += eng.pc[base:]
        del eng.pc[base:]
    eng.pc.extend(proved)


def arbitrary_item(eng, seq, label, vars, requires, ensures, extra_state=(), kname="k"):
    """ITEM RULE for a carrier that returns the lazy iterator `seq`: for an arbitrary position 0 <= k < n and an arbitrary
    state of the iterator's effects satisfying `requires` (the object invariant: every method of the class keeps it, so
    it holds whenever the consumer asks for the next item), run the REAL element for position k and prove `ensures`
    (clauses over vars + {k, got}; old(...) = the state in which the item was requested; ncalls/callarg see the calls of
    this one step).  Each clause becomes the obligation `<label>/<clause label>`."""
    from .engine import PathEnd
    from .values import snapshot

    if not isinstance(seq, LazySeq):
        raise Unsupported("item rule: the carrier did not return a lazy iterator")
    eng.assumptions.add("rule: item rule for a returned lazy iterator (item k is produced by running the real element expression on an arbitrary "
                        "state satisfying the object invariant, which every method of the class is proved to keep; pyvc/ext_C19.py)")
    values = list(seq.effects()) + list(extra_state)

    def body():
        k = fresh("int", "pos")
        eng.assume(z3.And(k.z >= 0, k.z < seq.nz()))
        v = dict(vars)
        v[kname] = k
        for _, val in _clauses(eng, requires, v, None, "inv"):
            eng.assume(val)
        old = snapshot(v)
        full = eng.call_log
        eng.call_log = []
        try:
            try:
                item = seq.step(eng, k)
            except ProgExc as e:
                eng.prove(f"{label}/exc/unexpected-{getattr(e.cls, '__name__', e.cls)}", False, "exception", "requesting an item raised")
                raise PathEnd()
            v["got"] = item
            _prove_each(eng, [(f"{label}/{lab}", val) for lab, val in _clauses(eng, ensures, v, old, "post")], "postcondition",
                        "item rule: arbitrary position, arbitrary state satisfying the object invariant")
        finally:
            eng.call_log = full

    phase(eng, values, body)


def consume(eng, seq, label, vars, invariant, body, state=(), kname="_k"):
    """CONSUMER RULE (a loop cut at its invariant, for a consumer that is a library model or a comprehension):
    `invariant`: clauses over vars + {_k}.  Proves them for _k = 0 (`<label>/entry/..`); for an arbitrary 0 <= _k < n and an
    arbitrary state satisfying them: item = the REAL element _k, then `body(eng, k, item)` (program mode), proves them for
    _k + 1 (`<label>/preserved/..`); afterwards the state is arbitrary and satisfies them for _k = n."""
    from .engine import PathEnd

    if not isinstance(seq, LazySeq):
        raise Unsupported("consumer rule: not a lazy sequence")
    if seq.consumed:
        raise Unsupported("a generator is consumed a second time")
    seq.consumed = True
    eng.assumptions.add("rule: consumer rule for a lazy iterator = the loop-invariant rule applied to the consuming loop (entry / preserved obligations; pyvc/ext_C19.py)")
    values = list(seq.effects()) + list(state)
    v = dict(vars)
    v[kname] = 0
    old = getattr(eng, "top_old", None)
    for lab, val in _clauses(eng, invariant, v, old, "inv"):
        eng.prove(f"{label}/entry/{lab}", val, "invariant")

    def one():
        k = fresh("int", "pos")
        eng.assume(z3.And(k.z >= 0, k.z < seq.nz()))
        v[kname] = k
        for _, val in _clauses(eng, invariant, v, old, "inv"):
            eng.assume(val)
        try:
            item = seq.step(eng, k)
            body(eng, k, item)
        except ProgExc as e:
            eng.prove(f"{label}/exc/unexpected-{getattr(e.cls, '__name__', e.cls)}", False, "exception", "consuming an item raised")
            raise PathEnd()
        v[kname] = eng.snum(k.z + 1, "int")
        _prove_each(eng, [(f"{label}/preserved/{lab}", val) for lab, val in _clauses(eng, invariant, v, old, "inv")], "invariant")

    phase(eng, values, one)
    seen = set()
    for x in values:
        havoc_value(eng, x, seen)
    v[kname] = eng.snum(seq.nz(), "int")
    for _, val in _clauses(eng, invariant, v, old, "inv"):
        eng.assume(val)


def comprehension_hook(eng, node, fr, kind, first):
    """contract option `comprehension_hook=ext_C19.comprehension_hook` (+ `comprehension_rule=dict(kind=.., invariant=[..],
    label=..)`): a FILTERED list comprehension `[elt for target in [enumerate](lazy sequence) if cond ...]` is a loop
        out = [];  for target in ...: if cond: out.append(elt)
    over a lazy sequence; it is cut at the rule's invariant (clauses over the carrier's variables, `_k` = number of items
    consumed, `__out__` = the list built so far) by the consumer rule above.  The conditions and the element run as real code."""
    c = eng.cur_contract
    rule = c.options.get("comprehension_rule") if c is not None else None
    gens = node.generators
    if rule is None or kind != "list" or len(gens) != 1:
        raise Unsupported("filtered / nested comprehension over a symbolic sequence (no comprehension_rule in the contract)")
    src, start, enum = first, 0, False
    if isinstance(src, models._Enum):
        src, start, enum = src.seq, src.start, True
    if _has_repo_iter(eng, src):
        src = eng.call(eng.getattr_(src, "__iter__"), [], {})
    if not isinstance(src, LazySeq):
        raise Unsupported("comprehension rule: the source is not a lazy sequence")
    out = PList.fresh(rule["kind"], n=z3.IntVal(0), name="out")
    g = gens[0]

    def body(e, k, item):
        sub = Frame(parent=fr, globs=fr.globs, func=fr.func)
        e.assign(g.target, (e.snum(k.z + start, "int"), item) if enum else item, sub)
        for cond in g.ifs:
            if not e.branch(e.truth(e.ev(cond, sub))):
                return
        models.LIST_METHODS["append"](e, out, [e.ev(node.elt, sub)], {})

    eng.cur_frame = fr
    vars = eng.visible_vars()
    vars["__out__"] = out
    consume(eng, src, f"{(eng.cur_key or '?').split(':')[-1]}/{rule.get('label', 'comprehension')}", vars, rule["invariant"], body, state=[out])
    return out


# ============================================================================== strings, paths, directory walks
# A symbolic `str` is an opaque reference (an int).  Concrete strings are interned to pairwise different negative ints.
_INTERN = {}


def intern_str(s):
    if s not in _INTERN:
        _INTERN[s] = -(len(_INTERN) + 1)
    return z3.IntVal(_INTERN[s])


class StrRef(Sym):
    """a symbolic string (reference).  Equality with another reference is equality of the references; equality with a
    concrete str is equality with that string's interned reference (engine hook `__pyvc_compare__`)."""

    def __init__(self, z):
        super().__init__(z, "ref")

    def __pyvc_compare__(self, eng, op, a, b):
        if not isinstance(op, (ast.Eq, ast.NotEq)):
            raise Unsupported("ordering of symbolic strings")
        r = eng.sbool(zref(a) == zref(b))
        return r if isinstance(op, ast.Eq) else eng.unop(ast.Not(), r)


def zref(v):
    if isinstance(v, Opaque):
        return z3.simplify(v.z)  # beta-reduces Select(Lambda ..) of a model-built list column
    if isinstance(v, Sym):
        return v.z
    if isinstance(v, str):
        return intern_str(v)
    raise Unsupported(f"not a string reference: {type(v).__name__}")


JOIN = z3.Function("path_join", _I, _I, _I)        # os.path.join(a, b)
RELPATH = z3.Function("path_relpath", _I, _I, _I)  # os.path.relpath(p, start)
EXTOF = z3.Function("path_ext", _I, _I)            # os.path.splitext(p)[1]
STEM = z3.Function("path_stem", _I, _I)            # os.path.splitext(p)[0]
EXISTS = z3.Function("path_exists", _I, _B)        # os.path.exists(p)
WLEN = z3.Function("walk_len", _I, _I)             # number of directories os.walk(root) visits
WDIR = z3.Function("walk_dir", _I, _I, _I)         # dirpath of the d-th triple
WSUB = z3.Function("walk_subdirs", _I, _I, _I)     # its dirnames list (a sequence reference)
WFILES = z3.Function("walk_files", _I, _I, _I)     # its filenames list (a sequence reference)
FLEN = z3.Function("names_len", _I, _I)            # length of a names list
FNAME = z3.Function("names_at", _I, _I, _I)        # its j-th name


class PureSeq:
    """an immutable sequence given by (length, getter); `ref` (a z3 Int term) identifies it"""

    def __init__(self, n, get, ref=None):
        self.n, self.get, self.ref = n, get, ref

    def __pyvc_sequence__(self, eng):
        return self.n, self.get

    def __pyvc_snapshot__(self, memo):
        return self


def _names_seq(eng, v):
    z = zref(v)
    eng.assume(FLEN(z) >= 0)
    return FLEN(z), (lambda k: StrRef(FNAME(z, to_z3(k, "int"))))


NAMES_PROTO = {"__iter_seq__": _names_seq}


def _os_walk(eng, args, kwargs):
    used(eng, "os.walk(root): a finite sequence of (dirpath, dirnames, filenames) triples determined by `root` (the file system does "
              "not change during the call); dirnames / filenames are finite lists of names; nothing else is assumed (any layout, any order)")
    if len(args) != 1 or kwargs:
        raise Unsupported("os.walk options")
    r = zref(args[0])
    d = z3.Int(fresh_name("wd"))
    p = PList()
    p.items, p.kinds, p.tup, p.name = None, ["ref", "ref", "ref"], True, "walk"
    p.cols = [z3.Lambda([d], WDIR(r, d)), z3.Lambda([d], WSUB(r, d)), z3.Lambda([d], WFILES(r, d))]
    p.n = WLEN(r)
    p.proto = NAMES_PROTO
    eng.assume(WLEN(r) >= 0)
    return Iter(p)  # a generator: one pass


def _path_join(eng, args, kwargs):
    used(eng, "os.path.join(a, b, ...): an uninterpreted function of its arguments (folded from the left)")
    z = zref(args[0])
    for a in args[1:]:
        z = JOIN(z, zref(a))
    return StrRef(z)


def _path_relpath(eng, args, kwargs):
    used(eng, "os.path.relpath(p, start): an uninterpreted function of its arguments")
    if len(args) != 2 or kwargs:
        raise Unsupported("os.path.relpath form")
    return StrRef(RELPATH(zref(args[0]), zref(args[1])))


def _path_splitext(eng, args, kwargs):
    used(eng, "os.path.splitext(p): a pair of uninterpreted functions (stem, extension) of p")
    z = zref(args[0])
    return (StrRef(STEM(z)), StrRef(EXTOF(z)))


def _path_exists(eng, args, kwargs):
    used(eng, "os.path.exists(p): an uninterpreted predicate of p")
    return eng.sbool(EXISTS(zref(args[0])))


# ---------------------------------------------------------------------------------------------- filter(pred, seq)
class DeclaredFilter:
    """`params`: z3 terms the predicate depends on besides the element; pred(elem_z, *params) -> z3 Bool;
    N(s, *params) number of selected elements of the sequence s, K(s, *params, m) position of the m-th one,
    R(s, *params, i) rank of position i among the selected ones."""

    def __init__(self, name, params, pred, N, K, R):
        self.name, self.params, self.pred, self.N, self.K, self.R = name, list(params), pred, N, K, R

    def axioms(self, s, n, elem, holds=None):
        """the characterisation of an order-preserving selection, for the sequence s of length n with elements elem(j)
        (`holds(j)`: the predicate at position j; default pred(elem(j), *params))"""
        m, m2, i = z3.Int(fresh_name("fm")), z3.Int(fresh_name("fm2")), z3.Int(fresh_name("fi"))
        P = self.params
        if holds is None:
            holds = lambda t: self.pred(elem(t), *P)
        N, K, R = self.N(s, *P), (lambda t: self.K(s, *P, t)), (lambda t: self.R(s, *P, t))
        return [
            z3.And(N >= 0, N <= n),
            z3.ForAll([m], z3.Implies(z3.And(m >= 0, m < N), z3.And(K(m) >= 0, K(m) < n, holds(K(m)), R(K(m)) == m)), patterns=[K(m)]),
            z3.ForAll([m, m2], z3.Implies(z3.And(m >= 0, m < m2, m2 < N), K(m) < K(m2)), patterns=[z3.MultiPattern(K(m), K(m2))]),
            z3.ForAll([i], z3.Implies(z3.And(i >= 0, i < n, holds(i)), z3.And(R(i) >= 0, R(i) < N, K(R(i)) == i)), patterns=[R(i)]),
        ]


def declare_filter(eng, flt):
    eng.ghost.setdefault("declared-filters", []).append(flt)


def _filter_model(eng, args, kwargs):
    """builtin filter(pred, iterable): the elements for which pred is true, in order (one-shot iterator)."""
    pred, seq = args
    if pred is None:
        raise Unsupported("filter(None, ...)")
    try:
        items = models.iterate_concrete(eng, seq)
    except Unsupported:
        items = None
    if items is not None:
        return Iter(PList([x for x in items if eng.branch(eng.truth(eng.call(pred, [x], {})))]))
    used(eng, "filter(pred, seq) over an immutable sequence: the elements satisfying pred, in order, each once (ghost maps "
              "K: output position -> input position, strictly increasing, and R: input position -> output position)")
    if not (isinstance(seq, Opaque) and "__iter_seq__" in seq.proto):
        raise Unsupported("filter over this kind of symbolic sequence")
    n, get = seq.proto["__iter_seq__"](eng, seq)
    nz = zint(n) if not isinstance(n, Sym) else n.z
    j = z3.Int(fresh_name("fj"))
    eng.pure_mode = getattr(eng, "pure_mode", 0) + 1
    try:
        pj = to_z3(eng.truth(eng.call(pred, [get(Sym(j, "int"))], {})), "bool")
    finally:
        eng.pure_mode -= 1
    elem = lambda t: to_z3(get(Sym(t, "int")), "int")
    sz = zref(seq)
    holds = None
    for flt in eng.ghost.get("declared-filters", []):
        want = flt.pred(elem(j), *flt.params)
        if z3.simplify(want).eq(z3.simplify(pj)) or z3.simplify(want == pj).eq(z3.BoolVal(True)):
            break
    else:
        # a predicate the contract did not declare: fresh ghost maps for this one call (nothing links two such calls)
        tag = fresh_name("flt")
        flt = DeclaredFilter(tag, [], None, z3.Function(tag + "_n", _I, _I), z3.Function(tag + "_k", _I, _I, _I), z3.Function(tag + "_r", _I, _I, _I))
        holds = lambda t: z3.substitute(pj, (j, t))
    for ax in flt.axioms(sz, nz, elem, holds):
        eng.assume(ax)
    P = flt.params
    return Iter(PureSeq(flt.N(sz, *P), lambda m: get(Sym(flt.K(sz, *P, to_z3(m, "int")), "int")), ref=sz))


# ------------------------------------------------------------------------------- sets of references / functools.reduce
class SymSet(Opaque):
    """a FINITE set of references given by a quantifier-free membership term `member(x)` (built from the witness
    functions of the lists it was made of).  `sources`: the lists (PList) whose elements may be members."""

    def __init__(self, member, sources):
        super().__init__(z3.Int(fresh_name("set")), SET_PROTO)
        self.member, self.sources = member, list(sources)

    def __pyvc_snapshot__(self, memo):
        return self


def list_witness(eng, L):
    """ghost witness IDX of `x in L` for the symbolic list L:  x in L  <->  0 <= IDX(x) < len(L) and L[IDX(x)] == x
    (IDX(x) = the first position holding x, or -1): definitional, and every element is a member."""
    key = ("set-witness", L.uid, L.cols[0].get_id(), z3.simplify(zint(L.n)).get_id())
    if key not in eng.ghost:
        idx = z3.Function(fresh_name("idx_in"), _I, _I)
        j = z3.Int(fresh_name("sj"))
        n, col = zint(L.n), L.cols[0]
        eng.assume(z3.ForAll([j], z3.Implies(z3.And(j >= 0, j < n), z3.And(idx(z3.Select(col, j)) >= 0, idx(z3.Select(col, j)) < n,
                                                                           z3.Select(col, idx(z3.Select(col, j))) == z3.Select(col, j))), patterns=[z3.Select(col, j)]))
        eng.ghost[key] = idx
        eng.ghost.setdefault("set-witnesses", []).append((L, idx, n, col))
    idx = eng.ghost[key]
    n, col = zint(L.n), L.cols[0]
    return lambda x: z3.And(idx(x) >= 0, idx(x) < n, z3.Select(col, idx(x)) == x)


def _set_model(eng, args, kwargs):
    if not args:
        raise Unsupported("set() of nothing")
    a = args[0]
    if isinstance(a, SymSet):
        return SymSet(a.member, a.sources)
    if isinstance(a, PList) and a.items is None and not a.tup and a.kinds[0] in ("ref", "int"):
        used(eng, "set(list): x in set(L) <-> x occurs in L (ghost witness: the first position holding x)")
        return SymSet(list_witness(eng, a), [a])
    raise Unsupported("set() of this value")


def _set_intersection(eng, recv, args, kwargs):
    used(eng, "set.intersection: x in (A & B) <-> x in A and x in B")
    if len(args) != 1 or not isinstance(args[0], SymSet):
        raise Unsupported("set.intersection form")
    other = args[0]
    return SymSet(lambda x: z3.And(recv.member(x), other.member(x)), recv.sources + other.sources)


def _set_to_list(eng, recv):
    """list(S) of a finite set: every member exactly once, in an UNSPECIFIED order (weaker than any real iteration order,
    which depends on the hash seed for strings)"""
    used(eng, "list(set): an enumeration of the members, each exactly once, order unconstrained (ghost POS: member -> its position)")
    L = PList.fresh("ref", name="enum")
    pos = z3.Function(fresh_name("pos_in"), _I, _I)
    j, j2, x = z3.Int(fresh_name("ej")), z3.Int(fresh_name("ej2")), z3.Int(fresh_name("ex"))
    n, col = zint(L.n), L.cols[0]
    eng.assume(n >= 0)
    eng.assume(z3.ForAll([j], z3.Implies(z3.And(j >= 0, j < n), z3.And(recv.member(z3.Select(col, j)), pos(z3.Select(col, j)) == j)), patterns=[z3.Select(col, j)]))
    eng.assume(z3.ForAll([x], z3.Implies(recv.member(x), z3.And(pos(x) >= 0, pos(x) < n, z3.Select(col, pos(x)) == x)), patterns=[pos(x)]))
    eng.ghost.setdefault("set-enumerations", []).append((recv, L, pos))
    return L


SET_PROTO = {"intersection": _set_intersection, "__list__": _set_to_list}


def _reduce_model(eng, args, kwargs):
    """functools.reduce(f, seq[, initial]) over a sequence of concrete length: the left fold, f run as real code"""
    f, seq = args[0], args[1]
    items = models.iterate_concrete(eng, seq)
    if len(args) > 2:
        acc = args[2]
    else:
        if not items:
            raise ProgExc(TypeError, "reduce() of empty iterable with no initial value")
        acc, items = items[0], items[1:]
    for x in items:
        acc = eng.call(f, [acc, x], {})
    return acc


# --------------------------------------------------------------------------------------------------- np.searchsorted
def _np_searchsorted(eng, args, kwargs):
    """np.searchsorted(a, v, side='left'|'right') for a 1-D array `a` of symbolic length and a scalar v.  numpy requires `a`
    sorted ascending: that is an OBLIGATION here (`<carrier>/safety/searchsorted-on-an-ascending-array`).  Result i:
    left:  0 <= i <= n,  a[j] <  v for j < i,  a[j] >= v for j >= i     right:  a[j] <= v for j < i,  a[j] > v for j >= i"""
    used(eng, "np.searchsorted(a, v, side) on an ascending 1-D array and a scalar v: the insertion index i (left: a[:i] < v <= a[i:], "
              "right: a[:i] <= v < a[i:]); ascending order is proved at the call (cross-checked: tools/xcheck_C19_models.py)")
    if len(args) > 2:
        kwargs = dict(kwargs, side=args[2])
        args = args[:2]
    if len(args) != 2 or (set(kwargs) - {"side"}) or kwargs.get("sorter") is not None:
        raise Unsupported("np.searchsorted form")
    a, v = args
    side = kwargs.get("side", "left")
    if side not in ("left", "right"):
        raise Unsupported("np.searchsorted with a symbolic / invalid side")
    a = _as_sorted_operand(eng, a)
    if not isinstance(a, SArr):
        raise Unsupported("np.searchsorted on this kind of array")
    kind = "real" if "real" in (a.kind, kind_of(v)) else "int"
    if kind_of(v) not in ("int", "real"):
        raise Unsupported("np.searchsorted of a non-scalar value")
    vz = to_z3(v, kind)
    at = lambda t: (z3.ToReal(z3.Select(a.arr, t)) if kind == "real" and a.kind == "int" else z3.Select(a.arr, t))
    n = a.nz()
    p, q = z3.Int(fresh_name("ssp")), z3.Int(fresh_name("ssq"))
    eng.prove(eng.site("searchsorted-on-an-ascending-array"), z3.ForAll([p, q], z3.Implies(z3.And(0 <= p, p <= q, q < n), at(p) <= at(q))), "safety")
    i = fresh("int", "ss")
    j = z3.Int(fresh_name("ssj"))
    below, above = ((lambda x: x < vz), (lambda x: x >= vz)) if side == "left" else ((lambda x: x <= vz), (lambda x: x > vz))
    eng.assume(z3.And(i.z >= 0, i.z <= n))
    eng.assume(z3.ForAll([j], z3.Implies(z3.And(j >= 0, j < i.z), below(at(j))), patterns=[z3.Select(a.arr, j)]))
    eng.assume(z3.ForAll([j], z3.Implies(z3.And(j >= i.z, j < n), above(at(j))), patterns=[z3.Select(a.arr, j)]))
    return i


def _as_sorted_operand(eng, a):
    """1-D operand of searchsorted / bisect as an SArr (a symbolic-length list of scalars is read in place)"""
    if isinstance(a, PList) and a.items is None and not a.tup and a.kinds[0] in ("int", "real"):
        return SArr(a.cols[0], a.n, a.kinds[0])
    return a


def _arr_searchsorted(eng, recv, args, kwargs):
    """a.searchsorted(v, side=...) == np.searchsorted(a, v, side=...)"""
    return _np_searchsorted(eng, [recv] + list(args), kwargs)


def _bisect(side):
    def model(eng, args, kwargs):
        """bisect.bisect_left / bisect_right (= bisect.bisect)(a, x, lo=0, hi=len(a)): the insertion index inside a[lo:hi]; the ascending
        order of that part is an obligation of the call, as for np.searchsorted (the result is unspecified otherwise)"""
        if set(kwargs) - {"lo", "hi"} or kwargs.get("key") is not None or not 2 <= len(args) <= 4:
            raise Unsupported("bisect form")
        a = _as_sorted_operand(eng, args[0])
        lo = args[2] if len(args) > 2 else kwargs.get("lo", 0)
        hi = args[3] if len(args) > 3 else kwargs.get("hi")
        if not isinstance(a, SArr):
            raise Unsupported("bisect on this kind of sequence")
        n = a.nz()
        loz = to_z3(lo, "int")
        hiz = n if hi is None else to_z3(hi, "int")
        if isinstance(lo, Sym) or (isinstance(lo, int) and lo < 0):
            if not eng.branch(eng.sbool(loz >= 0)):
                raise ProgExc(ValueError, "lo must be non-negative")
        used(eng, "bisect.bisect_left / bisect_right(a, x, lo, hi) on an ascending sequence: the insertion index i in [lo, hi] (left: a[lo:i] < x <= a[i:hi], "
                  "right: a[lo:i] <= x < a[i:hi]); ascending order of a[lo:hi] is proved at the call (cross-checked: tools/xcheck_C19_models.py)")
        v = args[1]
        kind = "real" if "real" in (a.kind, kind_of(v)) else "int"
        if kind_of(v) not in ("int", "real") or a.kind not in ("int", "real"):
            raise Unsupported("bisect of a non-scalar value")
        vz = to_z3(v, kind)
        at = lambda t: (z3.ToReal(z3.Select(a.arr, t)) if kind == "real" and a.kind == "int" else z3.Select(a.arr, t))
        p, q = z3.Int(fresh_name("bsp")), z3.Int(fresh_name("bsq"))
        eng.prove(eng.site("bisect-on-an-ascending-sequence"), z3.And(hiz <= n, z3.ForAll([p, q], z3.Implies(z3.And(loz <= p, p <= q, q < hiz), at(p) <= at(q)))), "safety")
        i = fresh("int", "bs")
        j = z3.Int(fresh_name("bsj"))
        below, above = ((lambda x: x < vz), (lambda x: x >= vz)) if side == "left" else ((lambda x: x <= vz), (lambda x: x > vz))
        top = z3.If(hiz >= loz, hiz, loz)  # an empty part: the loop `while lo < hi` does not run, the answer is lo
        eng.assume(z3.And(i.z >= loz, i.z <= top))
        eng.assume(z3.ForAll([j], z3.Implies(z3.And(j >= loz, j < i.z), below(at(j))), patterns=[z3.Select(a.arr, j)]))
        eng.assume(z3.ForAll([j], z3.Implies(z3.And(j >= i.z, j < hiz), above(at(j))), patterns=[z3.Select(a.arr, j)]))
        return i

    return model


def _arr_tolist(eng, recv, args, kwargs):
    """a.tolist() of a 1-D array of symbolic length: a new list of the same scalars"""
    if args or kwargs or not isinstance(recv, SArr) or hasattr(recv, "__pyvc_getitem__"):
        raise Unsupported("ndarray.tolist form")
    used(eng, "ndarray.tolist() of a 1-D array: a new list with the same elements")
    p = PList()
    p.items, p.cols, p.kinds, p.n, p.tup = None, [recv.arr], [recv.kind], recv.n, False
    return p


def _b_divmod(eng, args, kwargs):
    """divmod(a, b) == (a // b, a % b)"""
    if len(args) != 2 or kwargs:
        raise ProgExc(TypeError, "divmod expected 2 arguments")
    return (eng.binop(ast.FloorDiv(), args[0], args[1]), eng.binop(ast.Mod(), args[0], args[1]))


def _op_index(eng, args, kwargs):
    """operator.index(x): x itself for an int (bool: its int value); TypeError for anything that is not an integer"""
    (x,) = args
    if isinstance(x, bool):
        return int(x)
    if isinstance(x, int) or (isinstance(x, Sym) and x.kind == "int"):
        return x
    if isinstance(x, Sym) and x.kind == "bool":
        return Sym(z3.If(x.z, z3.IntVal(1), z3.IntVal(0)), "int")
    try:
        import numpy as _np

        if isinstance(x, _np.integer):
            return int(x)
    except ImportError:  # pragma: no cover
        pass
    if kind_of(x) == "real" or x is None or isinstance(x, (str, slice, PList, SArr)):
        raise ProgExc(TypeError, "object cannot be interpreted as an integer")
    raise Unsupported(f"operator.index of {type(x).__name__}")


def _range_getitem(eng, rng, idx):
    """range(lo, hi, step)[i] / [a:b:c] with symbolic bounds (concrete steps): CPython's compute_item / compute_slice"""
    n, get = models.as_sequence(eng, rng)
    if isinstance(idx, slice):
        if isinstance(idx.step, Sym):
            raise Unsupported("slice of a range with a symbolic step")
        lo, hi, st = models.slice_indices(eng, idx, [eng.snum(zint(n), "int")], {})
        first = to_z3(rng.lo, "int")
        return models._SymRange(eng.snum(first + to_z3(lo, "int") * rng.step, "int"), eng.snum(first + to_z3(hi, "int") * rng.step, "int"), rng.step * int(st))
    if isinstance(idx, Sym) and idx.kind == "int" and not eng.spec_mode:
        # an index outside the range is an IndexError of the PROGRAM (a branch), whatever the carrier's index discipline for lists is
        nz = zint(n)
        if eng.branch(eng.sbool(z3.And(idx.z >= 0, idx.z < nz))):
            return get(idx)
        if eng.branch(eng.sbool(z3.And(idx.z < 0, idx.z >= -nz))):
            return get(Sym(idx.z + nz, "int"))
        raise ProgExc(IndexError, "range object index out of range")
    iz = models.norm_index(eng, idx, eng.snum(zint(n), "int"), "range object index")
    return get(Sym(iz, "int"))


models._SymRange.__pyvc_getitem__ = lambda self, eng, idx: _range_getitem(eng, self, idx)


def install():
    import bisect as _bisect_mod
    import operator as _operator
    import os

    import numpy as _np

    models.EXTRA_MODELS[_np.searchsorted] = _np_searchsorted
    models.EXTRA_MODELS[_bisect_mod.bisect_right] = _bisect("right")
    models.EXTRA_MODELS[_bisect_mod.bisect_left] = _bisect("left")
    models.EXTRA_MODELS[divmod] = _b_divmod
    models.EXTRA_MODELS[_operator.index] = _op_index
    models.EXTRA_METHODS[(SArr, "searchsorted")] = _arr_searchsorted
    models.EXTRA_METHODS[(SArr, "tolist")] = _arr_tolist

    models.EXTRA_MODELS[os.walk] = _os_walk
    models.EXTRA_MODELS[os.path.join] = _path_join
    models.EXTRA_MODELS[os.path.relpath] = _path_relpath
    models.EXTRA_MODELS[os.path.splitext] = _path_splitext
    models.EXTRA_MODELS[os.path.exists] = _path_exists
    models.EXTRA_MODELS[filter] = _filter_model
    models.EXTRA_MODELS[set] = _set_model
    import functools

    models.EXTRA_MODELS[functools.reduce] = _reduce_model


# ============================================================================================ process pools (Part 3)
def _fn_image(eng, fn, xs):
    """[fn(x) for x in xs] for a symbolic list xs and a PURE fn (evaluated once, symbolically in the position)"""
    i = z3.Int(fresh_name("mi"))
    eng.pure_mode = getattr(eng, "pure_mode", 0) + 1
    try:
        y = eng.call(fn, [Sym(z3.Select(xs.cols[0], i), xs.kinds[0])], {})
    finally:
        eng.pure_mode -= 1
    k = kind_of(y)
    if k is None:
        raise Unsupported("pool model: the mapped function must return a scalar / reference")
    out = PList()
    out.items, out.kinds, out.tup, out.name = None, [k], False, "results"
    out.cols = [z3.Lambda([i], to_z3(y, k))]
    out.n = xs.n
    return out


def _drain(eng, seq, what):
    """consume the whole lazy iterable in the calling process (consumer rule, invariant from the contract's `pool_rule`)"""
    c = eng.cur_contract
    rule = c.options.get("pool_rule") if c is not None else None
    if rule is None:
        raise Unsupported("pool model: the contract gives no pool_rule (invariant of the submission loop)")
    if isinstance(seq, Iter):
        seq = seq.seq
    if not isinstance(seq, LazySeq):
        raise Unsupported("pool model: the iterable is not a lazy sequence")
    xs = PList.fresh(rule["kind"], n=z3.IntVal(0), name="submitted")
    vars = eng.visible_vars()
    vars["__out__"] = xs
    consume(eng, seq, f"{(eng.cur_key or '?').split(':')[-1]}/{what}", vars, rule["invariant"],
            lambda e, k, item: models.LIST_METHODS["append"](e, xs, [item], {}), state=[xs])
    eng.ghost["pool-submitted"] = xs
    return xs


def _pool_map(eng, recv, args, kwargs):
    used(eng, "concurrent.futures.Executor.map(fn, xs) = iterator over [fn(x) for x in xs]: xs is consumed completely, in order, in the "
              "calling process when map is called; fn runs in worker processes on pickled copies, so result k is a pure function of item k "
              "and the caller's state is not affected by fn; results come back in submission order")
    if len(args) != 2 or (set(kwargs) - {"timeout", "chunksize"}):
        raise Unsupported("Executor.map form")
    xs = _drain(eng, args[1], "submit")
    return Iter(_fn_image(eng, args[0], xs))


def _pool_ctor(eng, args, kwargs):
    used(eng, "ProcessPoolExecutor(max_workers): a context manager whose __enter__ returns the executor and whose __exit__ waits and does not suppress exceptions")
    return Opaque(z3.Int(fresh_name("pool")), POOL_PROTO)


POOL_PROTO = {
    "__enter__": lambda eng, recv, a, k: recv,
    "__exit__": lambda eng, recv, a, k: None,
    "map": _pool_map,
}


def _process_map(eng, args, kwargs):
    used(eng, "tqdm.contrib.concurrent.process_map(fn, xs, max_workers=..) = list(executor.map(fn, xs)) with a progress bar (same assumptions as Executor.map)")
    if len(args) != 2 or (set(kwargs) - {"max_workers", "chunksize"}):
        raise Unsupported("process_map form")
    xs = _drain(eng, args[1], "submit")
    return _fn_image(eng, args[0], xs)


def install_pools():
    from concurrent.futures import ProcessPoolExecutor

    from tqdm.contrib.concurrent import process_map

    models.EXTRA_MODELS[ProcessPoolExecutor] = _pool_ctor
    models.EXTRA_MODELS[process_map] = _process_map
