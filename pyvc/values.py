"""Symbolic value model of pyvc.

Concrete Python values (int, bool, None, str, Fraction, tuple, real module / class
/ function objects) are kept *as themselves* (partial evaluation); only data that
the contract declares symbolic is represented by z3 terms.  Mutable containers
created by interpreted code are wrapped (PList, PDict, NArr, SArr, Obj) so that
aliasing is concrete: two names alias iff they hold the same wrapper object.
"""
from __future__ import annotations

import itertools
from fractions import Fraction

import z3

_uid = itertools.count(1)


def fresh_name(base: str) -> str:
    return f"{base}!{next(_uid)}"


def next_uid():
    return next(_uid)


def reset_uids():
    global _uid
    _uid = itertools.count(1)


SORTS = {"int": z3.IntSort, "real": z3.RealSort, "bool": z3.BoolSort, "ref": z3.IntSort, "oref": z3.IntSort}
INTLIKE = ("int", "ref", "oref")


def sort_of(kind):
    return SORTS[kind]()


class Sym:
    """Symbolic scalar: kind in {'int','real','bool','ref'} and a z3 term."""

    __slots__ = ("z", "kind")

    def __init__(self, z, kind):
        self.z = z
        self.kind = kind

    def __repr__(self):
        return f"Sym<{self.kind}:{self.z}>"

    def __deepcopy__(self, memo):
        return self

    def __bool__(self):
        raise TypeError("symbolic value used as a concrete bool (engine bug)")

    def __hash__(self):
        return hash((self.kind, self.z.get_id()))

    def __eq__(self, other):
        return isinstance(other, Sym) and self.z.eq(other.z)


def fresh(kind, base="v"):
    return Sym(z3.Const(fresh_name(base), sort_of(kind)), kind)


def kind_of(v):
    if isinstance(v, Sym):
        return v.kind
    if isinstance(v, bool):
        return "bool"
    if isinstance(v, int):
        return "int"
    if isinstance(v, (Fraction, float)):
        return "real"
    t = type(v).__module__
    if t == "numpy":
        import numpy as np

        if isinstance(v, np.bool_):
            return "bool"
        if isinstance(v, np.integer):
            return "int"
        if isinstance(v, np.floating):
            return "real"
    return None


def frac(v) -> Fraction:
    if isinstance(v, Fraction):
        return v
    if isinstance(v, float):
        return Fraction(repr(v)) if v == v and abs(v) != float("inf") else Fraction(v)
    return Fraction(v)


def to_z3(v, kind=None):
    """Concrete or symbolic scalar -> z3 term (of sort `kind` when given)."""
    if v is None and kind == "oref":
        return z3.IntVal(0)
    if isinstance(v, Sym):
        z, k = v.z, v.kind
    elif isinstance(v, z3.ExprRef):
        z = v
        k = "bool" if z3.is_bool(v) else ("int" if z3.is_int(v) else "real")
    else:
        k = kind_of(v)
        if k == "bool":
            z = z3.BoolVal(bool(v))
        elif k == "int":
            z = z3.IntVal(int(v))
        elif k == "real":
            fr = frac(v)
            z = z3.RealVal(f"{fr.numerator}/{fr.denominator}")
        else:
            raise TypeError(f"not a scalar: {v!r}")
    if kind is None or kind == k or (kind in INTLIKE and k in INTLIKE):
        return z
    if kind == "real" and k == "int":
        return z3.ToReal(z)
    if kind == "real" and k == "bool":
        return z3.If(z, z3.RealVal(1), z3.RealVal(0))
    if kind == "int" and k == "bool":
        return z3.If(z, z3.IntVal(1), z3.IntVal(0))
    if kind == "bool" and k in ("int", "real"):
        return z != 0
    raise TypeError(f"cannot convert {k} to {kind}")


def is_scalar(v):
    return kind_of(v) is not None


def zint(n):
    return n if isinstance(n, z3.ExprRef) else z3.IntVal(int(n))


class SArr:
    """1-D numpy array of scalars with symbolic length (z3 Array Int -> elem)."""

    def __init__(self, arr, n, kind, name="a", dtype=None):
        self.arr = arr
        self.n = n
        self.kind = kind
        self.uid = next(_uid)
        self.name = name
        self.dtype = dtype
        self.frozen = False  # True => belongs to an input; a store is a frame violation

    @staticmethod
    def fresh(kind, n=None, name="a", dtype=None):
        arr = z3.Const(fresh_name(name), z3.ArraySort(z3.IntSort(), sort_of(kind)))
        if n is None:
            n = z3.Const(fresh_name(name + "_len"), z3.IntSort())
        return SArr(arr, n, kind, name=name, dtype=dtype)

    def nz(self):
        return zint(self.n)

    def get(self, i):
        return Sym(z3.Select(self.arr, to_z3(i, "int")), self.kind)

    def __repr__(self):
        return f"SArr<{self.name}#{self.uid}:{self.kind}[{self.n}]>"


class NArr:
    """numpy array with *concrete shape*; items is a flat row-major list of scalars.
    A basic-slice view keeps (parent, flat index map) and reads/writes through."""

    def __init__(self, shape, items, kind="real", dtype=None, view_of=None):
        self.shape = tuple(int(x) for x in shape)
        self.view_of = view_of
        self._items = list(items) if view_of is None else None
        self.kind = kind
        self.dtype = dtype
        self.uid = next(_uid)
        self.frozen = False
        n = 1
        for s in self.shape:
            n *= s
        assert n == len(self.items), (shape, len(self.items))

    @property
    def items(self):
        if self.view_of is not None:
            parent, flat = self.view_of
            pit = parent.items
            return [pit[j] for j in flat]
        return self._items

    @items.setter
    def items(self, new):
        new = list(new)
        if self.view_of is not None:
            parent, flat = self.view_of
            pit = list(parent.items)
            for j, v in zip(flat, new):
                pit[j] = v
            parent.items = pit
        else:
            self._items = new

    def root(self):
        a = self
        while a.view_of is not None:
            a = a.view_of[0]
        return a

    @property
    def ndim(self):
        return len(self.shape)

    def __repr__(self):
        return f"NArr{self.shape}"


class PList:
    """Python list.  Concrete mode: `items` (arbitrary values).  Symbolic mode
    (after promotion at a loop head or when declared by a contract): struct of
    z3 arrays `cols` with element kinds `kinds`, length `n`; `tup` tells whether
    elements are tuples."""

    def __init__(self, items=None):
        self.items = list(items) if items is not None else []
        self.cols = None
        self.kinds = None
        self.n = None
        self.tup = False
        self.uid = next(_uid)
        self.name = "l"
        self.frozen = False
        self.proto = None

    @staticmethod
    def fresh(kinds, n=None, name="l", tup=None):
        p = PList()
        p.name = name
        p.promote(kinds, n, tup)
        return p

    def promote(self, kinds, n=None, tup=None):
        if isinstance(kinds, str):
            kinds = [kinds]
            tup = False if tup is None else tup
        else:
            tup = True if tup is None else tup
        self.items = None
        self.kinds = list(kinds)
        self.tup = tup
        self.cols = [
            z3.Const(fresh_name(f"{self.name}_{j}"), z3.ArraySort(z3.IntSort(), sort_of(k)))
            for j, k in enumerate(self.kinds)
        ]
        self.n = n if n is not None else z3.Const(fresh_name(self.name + "_len"), z3.IntSort())

    @property
    def symbolic(self):
        return self.items is None

    def nz(self):
        return zint(len(self.items)) if self.items is not None else zint(self.n)

    def get(self, i):
        iz = to_z3(i, "int")
        vs = tuple(Sym(z3.Select(c, iz), k) for c, k in zip(self.cols, self.kinds))
        proto = self.proto
        if proto is not None:
            wrap = proto.get("__wrap__") or (lambda z: Opaque(z, proto))  # a protocol may name the value class of its elements
            vs = tuple(wrap(v.z) for v in vs)
        return vs if self.tup else vs[0]

    def __repr__(self):
        if self.items is not None:
            return f"PList{self.items!r}"
        return f"PList<{self.name}#{self.uid}:{self.kinds}[{self.n}]>"


class PDict:
    """Python dict.  Concrete mode: `items` (real dict, concrete hashable keys).
    Symbolic mode: int keys; dom: Array Int Bool; values scalar (`vkind`) in `val`
    or lists of ints (`vkind == 'intlist'`: val: Array Int (Array Int Int), lens)."""

    def __init__(self, items=None, default_factory=None):
        self.items = dict(items) if items is not None else {}
        self.default_factory = default_factory
        self.dom = self.val = self.lens = None
        self.vkind = None
        self.uid = next(_uid)
        self.name = "d"

    @property
    def symbolic(self):
        return self.items is None

    def promote(self, vkind, empty=False):
        if vkind == "intlist-by-value":
            # int lists are stored and handed out BY VALUE: `d[k] = lst` copies the entries and freezes `lst`, `d[k]` is a frozen
            # snapshot (aliasing between the dict entry and other references is not tracked, so every later write through
            # either of them is a failed frame obligation)
            vkind, self.by_value = "intlist", True
        self.items = None
        self.vkind = vkind
        nm = self.name
        I = z3.IntSort()
        if empty:
            self.dom = z3.K(I, z3.BoolVal(False))
        else:
            self.dom = z3.Const(fresh_name(nm + "_dom"), z3.ArraySort(I, z3.BoolSort()))
        if vkind == "intlist":
            self.val = z3.Const(fresh_name(nm + "_v"), z3.ArraySort(I, z3.ArraySort(I, I)))
            self.lens = z3.K(I, z3.IntVal(0)) if empty else z3.Const(fresh_name(nm + "_l"), z3.ArraySort(I, I))
        else:
            self.val = z3.Const(fresh_name(nm + "_v"), z3.ArraySort(I, sort_of(vkind)))

    @staticmethod
    def fresh(vkind, name="d", empty=False):
        d = PDict()
        d.name = name
        d.promote(vkind, empty)
        return d


class DictListRef:
    """The mutable int list stored in a symbolic PDict('intlist') under `key`."""

    def __init__(self, d, key):
        self.d = d
        self.key = key

    def nz(self):
        return z3.Select(self.d.lens, to_z3(self.key, "int"))

    def get(self, i):
        return Sym(z3.Select(z3.Select(self.d.val, to_z3(self.key, "int")), to_z3(i, "int")), "int")


class Obj:
    """Instance of a (real) Python class with concrete field names."""

    def __init__(self, cls, fields=None, name=None):
        self.cls = cls
        self.fields = dict(fields or {})
        self.uid = next(_uid)
        self.name = name or getattr(cls, "__name__", str(cls))

    def __repr__(self):
        return f"Obj<{self.name}#{self.uid}>"


class Opaque:
    """Handle to an object the carrier only uses through a declared protocol
    (uninterpreted functions supplied by the contract)."""

    def __init__(self, z, proto):
        self.z = z
        self.proto = proto  # dict: method name -> model(engine, self, args, kwargs)

    def __repr__(self):
        return f"Opaque<{self.z}>"


class Func:
    """A function given by repository AST (FunctionDef or Lambda) + defining env."""

    def __init__(self, node, frame, globs, key, defcls=None):
        self.node = node
        self.frame = frame
        self.globs = globs
        self.key = key
        self.defcls = defcls

    def __repr__(self):
        return f"Func<{self.key}>"


class Bound:
    def __init__(self, func, self_obj):
        self.func = func
        self.self_obj = self_obj


class NativeMethod:
    """Method of a modelled container: model(engine, recv, args, kwargs)."""

    def __init__(self, model, recv, name=""):
        self.model = model
        self.recv = recv
        self.name = name


class Callback:
    """An unknown callable argument; calls go to `model(engine, args, kwargs)`."""

    def __init__(self, name, model=None):
        self.name = name
        self.model = model

    def __repr__(self):
        return f"Callback<{self.name}>"


class Iter:
    """One-shot iterator over a value the engine can iterate (generator
    expression, zip/enumerate/map objects).  A second pass yields nothing."""

    def __init__(self, seq):
        self.seq = seq  # what is still to come (a consumer that stops early leaves the remainder here, see models.iter_advance)
        self.consumed = False
        self.uid = next(_uid)
        self.source = None  # (upstream Iter, its sequence at creation): a generator expression pulling from another one-shot iterator


def snapshot(v, memo=None):
    """Deep copy of the object graph sharing z3 terms (the `old` state)."""
    if memo is None:
        memo = {}
    i = id(v)
    if i in memo:
        return memo[i]
    if isinstance(v, SArr):
        c = SArr(v.arr, v.n, v.kind, v.name, v.dtype)
        c.uid = v.uid
        if getattr(v, "contiguous", None) is not None:
            c.contiguous = v.contiguous  # storage layout flag (pyvc/layout.py)
    elif isinstance(v, NArr):
        c = NArr(v.shape, v.items, v.kind, v.dtype)
        c.uid = v.root().uid
        if getattr(v, "contiguous", None) is not None:
            c.contiguous = v.contiguous
    elif isinstance(v, PList):
        c = PList()
        c.uid, c.name, c.proto = v.uid, v.name, v.proto
        if getattr(v, "is_deque", False):
            c.is_deque = True
        memo[i] = c
        if v.items is not None:
            c.items = [snapshot(x, memo) for x in v.items]
        else:
            c.items, c.cols, c.kinds, c.n, c.tup = None, list(v.cols), list(v.kinds), v.n, v.tup
        return c
    elif isinstance(v, PDict):
        c = PDict()
        c.uid, c.name, c.default_factory = v.uid, v.name, v.default_factory
        memo[i] = c
        if v.items is not None:
            c.items = {k: snapshot(x, memo) for k, x in v.items.items()}
        else:
            c.items, c.dom, c.val, c.lens, c.vkind = None, v.dom, v.val, v.lens, v.vkind
        if getattr(v, "by_value", False):
            c.by_value = True
        return c
    elif isinstance(v, Obj):
        c = Obj(v.cls, name=v.name)
        c.uid = v.uid
        memo[i] = c
        c.fields = {k: snapshot(x, memo) for k, x in v.fields.items()}
        return c
    elif hasattr(v, "__pyvc_snapshot__"):
        c = v.__pyvc_snapshot__(memo)
    elif isinstance(v, Iter):  # a one-shot iterator HAS state (what is still to come): the old state keeps its own
        c = Iter(None)
        c.uid, c.consumed, c.source = v.uid, v.consumed, v.source
        memo[i] = c
        c.seq = snapshot(v.seq, memo)
        return c
    elif isinstance(v, tuple):
        if type(v) is not tuple:  # namedtuple (e.g. SWCNames): immutable configuration, kept as it is
            return v
        c = tuple(snapshot(x, memo) for x in v)
        if hasattr(v, "_fields"):  # namedtuple whose fields are symbolic values: keep the class
            c = type(v)(*c)
    elif isinstance(v, dict):
        c = {k: snapshot(x, memo) for k, x in v.items()}
    else:
        return v
    memo[i] = c
    return c
