"""Abstract CHARACTER stream and symbolic strings for the Lexer contracts of contracts/C15.py.

1. THE TEXT.  The document is a fixed but unknown sequence of code points ch[0 .. NCH):  CH(i) (uninterpreted), NCH >= 0.
   `CharStream` stands for the `TextIOBase` the Lexer reads from: one ghost cursor `pos` (characters handed out so far) and the
   two named io models the Lexer uses:
       read(1)     the character at the cursor (cursor + 1), or '' at the end (cursor unchanged)
       readline()  the characters from the cursor up to and INCLUDING the first '\\n' at or after it (all the rest when there is
                   none); the cursor ends up just behind them
   (cross-checked against io.StringIO by tools/xcheck_ext_C15_text.py).
2. STRINGS.  `SStr` is an immutable string made of pieces; a piece is a Python str literal or a slice text[lo:hi) of the
   document (lo <= hi, z3 Int terms).  Everything the Lexer does with strings (==, !=, in, +, +=, [:-1], endswith, partition,
   strip ...) is modelled exactly on these; a string that is ONE slice supports all of them, a genuinely scattered
   concatenation only comparison / length / indexing from the ends (anything else: Unsupported, never a guess).
3. GHOST VOCABULARY over positions (each a least-index function that provably exists, introduced by its defining axiom):
       SKIP(i) first index >= i that is NCH or holds a non-blank      WEND(i) first index >= i that is NCH or holds a delimiter
       EOL(i)  first index >= i that is NCH or holds '\\n'
       NLC(i)  number of '\\n' among ch[0..i)                          LNL(i)  index of the last '\\n' among ch[0..i), -1 if none
   (NLC / LNL are defined by recursion on i; the instance for index p is added when character p is read).
4. LANGUAGES.  `pattern.match / fullmatch / search(s)` and `float(s)` are used through their LANGUAGE (the regex model of
   contracts/regex_facts.py): INL(k, lo, hi) <=> text[lo:hi) is in language number k; FVAL(lo, hi) = float(text[lo:hi)).
   An inclusion between languages that is discharged as an obligation C15/regex/<label> may be used as
   "forall lo hi: INL(a, lo, hi) => INL(b, lo, hi)" (contracts/C15.py states which).
"""
from __future__ import annotations

import ast
import re

import z3

from . import models
from .engine import ProgExc, Unsupported
from .values import NativeMethod, Sym, fresh_name, to_z3

I = z3.IntSort()
CH = z3.Function("asc_ch", I, I)
NCH = z3.Int("asc_nch")
SKIP = z3.Function("asc_skip_blanks", I, I)
WEND = z3.Function("asc_word_end", I, I)
EOL = z3.Function("asc_end_of_line", I, I)
NLC = z3.Function("asc_newlines_before", I, I)
LNL = z3.Function("asc_last_newline_before", I, I)
INL = z3.Function("asc_in_language", I, I, I, z3.BoolSort())
FVAL = z3.Function("asc_float_value", I, I, z3.RealSort())

NEWLINE = 10

A_READ = ("io model: TextIOBase.read(1) on the abstract character stream ch[0..N): the character at the cursor (cursor advances by one), "
          "or '' at the end of the text (cursor unchanged)")
A_READLINE = ("io model: TextIOBase.readline() on the abstract character stream: the characters from the cursor up to and including the first "
              "'\\n' at or after it (everything that is left when there is none); the cursor ends up just behind them")
A_LEAST = ("ghost definitions: SKIP(i) / WEND(i) / EOL(i) = least index j >= i with j = N or ch[j] non-blank / a delimiter / a line break "
           "(least element of a non-empty set of naturals)")
A_COUNT = ("ghost definitions: NLC(i+1) = NLC(i) + (1 if ch[i] is a line break else 0), LNL(i+1) = i if ch[i] is a line break else LNL(i), "
           "NLC(0) = 0, LNL(0) = -1 (recursion on i; the instance for i is added when character i is read); their range facts NLC(i) >= 0, "
           "-1 <= LNL(i) < i follow by induction on i and are assumed with the definition")
A_LANG = ("language predicates: INL(k, lo, hi) <=> text[lo:hi) is in regular language k (pattern.match/fullmatch/search(s) is not None iff s is in "
          "the pattern's language: the regex model of contracts/regex_facts.py); match.group() of an anchored match is a prefix of the subject "
          "that is in the pattern's language")
A_FLOAT = ("float(s) on a symbolic text: ValueError unless s is in the argument grammar of float() (language PY_FLOAT of contracts/regex_facts.py), "
           "otherwise the real number FVAL(lo, hi) it spells (a function of the text)")


def _sb(z):
    z = z3.simplify(z)
    if z3.is_true(z):
        return True
    if z3.is_false(z):
        return False
    return Sym(z, "bool")


def _zi(v):
    return to_z3(v, "int") if not isinstance(v, z3.ExprRef) else v


def in_set(c, chars):
    """code point term c is one of the characters of the str `chars`"""
    return z3.Or(*[c == ord(x) for x in dict.fromkeys(chars)]) if chars else z3.BoolVal(False)


def least_axioms(F, stop):
    """defining axioms of F(i) = least j >= i with j = NCH or stop(CH(j)), for 0 <= i <= NCH"""
    i, j = z3.Int("lx!i"), z3.Int("lx!j")
    return [
        z3.ForAll([i], z3.Implies(z3.And(i >= 0, i <= NCH), z3.And(F(i) >= i, F(i) <= NCH, z3.Implies(F(i) < NCH, stop(CH(F(i)))))), patterns=[F(i)]),
        z3.ForAll([i, j], z3.Implies(z3.And(i >= 0, i <= j, j < F(i), i <= NCH), z3.Not(stop(CH(j)))), patterns=[z3.MultiPattern(F(i), CH(j))]),
    ]


def define_positions(eng, blanks, delims):
    """assume the definitions of SKIP / WEND / EOL for the given blank and delimiter characters (contract lemma hook)"""
    eng.assumptions.add(A_LEAST)
    for F, stop in ((SKIP, lambda c: z3.Not(in_set(c, blanks))), (WEND, lambda c: in_set(c, delims)), (EOL, lambda c: c == NEWLINE)):
        for ax in least_axioms(F, stop):
            eng.assume(ax)
    eng.ghost["c15-eol"] = True
    define_counts(eng)


def define_counts(eng):
    """range facts of NLC / LNL (consequences of their recursive definitions by induction on i)"""
    i = z3.Int("lx!i")
    eng.assumptions.add(A_COUNT)
    eng.assume(z3.ForAll([i], z3.Implies(z3.And(i >= 0, i <= NCH), NLC(i) >= 0), patterns=[NLC(i)]))
    eng.assume(z3.ForAll([i], z3.Implies(z3.And(i >= 0, i <= NCH), z3.And(LNL(i) >= -1, LNL(i) < i)), patterns=[LNL(i)]))


def define_eol(eng):
    if not eng.ghost.get("c15-eol"):
        eng.ghost["c15-eol"] = True
        eng.assumptions.add(A_LEAST)
        for ax in least_axioms(EOL, lambda c: c == NEWLINE):
            eng.assume(ax)


def count_step(p):
    """definitional instance of NLC / LNL for the character at index p"""
    nl = CH(p) == NEWLINE
    return z3.And(NLC(p + 1) == NLC(p) + z3.If(nl, 1, 0), LNL(p + 1) == z3.If(nl, p, LNL(p)))


# =========================================================================== strings
class SStr:
    """immutable symbolic string = concatenation of pieces (str literal | (lo, hi) slice of the text, lo <= hi)"""

    def __init__(self, pieces):
        out = []
        for p in pieces:
            if isinstance(p, str):
                if p:
                    if out and isinstance(out[-1], str):
                        out[-1] = out[-1] + p
                    else:
                        out.append(p)
            else:
                lo, hi = z3.simplify(_zi(p[0])), z3.simplify(_zi(p[1]))
                if z3.is_true(z3.simplify(lo == hi)):
                    continue
                if out and not isinstance(out[-1], str) and z3.is_true(z3.simplify(out[-1][1] == lo)):
                    out[-1] = (out[-1][0], hi)
                else:
                    out.append((lo, hi))
        self.pieces = tuple(out)

    # ---- construction
    @staticmethod
    def slice(lo, hi):
        return SStr([(lo, hi)])

    @staticmethod
    def fresh(eng, name="s"):
        lo, hi = z3.Int(fresh_name(name + "_lo")), z3.Int(fresh_name(name + "_hi"))
        eng.assume(z3.And(lo >= 0, lo <= hi, hi <= NCH))
        return SStr([(lo, hi)])

    def __repr__(self):
        return "SStr(" + " + ".join(repr(p) if isinstance(p, str) else f"text[{p[0]}:{p[1]}]" for p in self.pieces) + ")"

    # ---- never used as a native Python value
    def __eq__(self, other):
        raise Unsupported("native == on a symbolic string (engine gap)")

    def __bool__(self):
        raise Unsupported("native truth value of a symbolic string (engine gap)")

    __hash__ = object.__hash__

    # ---- structure
    def single(self):
        """(lo, hi) when the string is one slice of the text (the empty string: a slice of length 0), else None"""
        if len(self.pieces) == 1 and not isinstance(self.pieces[0], str):
            return self.pieces[0]
        return None

    def length(self):
        n = z3.IntVal(0)
        for p in self.pieces:
            n = n + (len(p) if isinstance(p, str) else p[1] - p[0])
        return z3.simplify(n)

    def char_at(self, i):
        """code point at index i (0 <= i < length assumed)"""
        off = z3.IntVal(0)
        cases = []
        for p in self.pieces:
            if isinstance(p, str):
                for k, c in enumerate(p):
                    cases.append((i == off + k, z3.IntVal(ord(c))))
                off = off + len(p)
            else:
                cases.append((z3.And(i >= off, i < off + (p[1] - p[0])), CH(p[0] + (i - off))))
                off = off + (p[1] - p[0])
        z = z3.IntVal(-1)
        for c, v in reversed(cases):
            z = z3.If(c, v, z)
        return z3.simplify(z)

    def eq_literal(self, lit):
        n = self.length()
        return z3.And(n == len(lit), *[self.char_at(z3.IntVal(k)) == ord(c) for k, c in enumerate(lit)])

    def eq_str(self, other):
        if isinstance(other, str):
            return self.eq_literal(other)
        if not isinstance(other, SStr):
            return z3.BoolVal(False)
        if len(self.pieces) == len(other.pieces) and all(_same_piece(a, b) for a, b in zip(self.pieces, other.pieces)):
            return z3.BoolVal(True)
        a, b = self.single(), other.single()
        k = z3.Int(fresh_name("k"))
        n = self.length()
        pointwise = z3.ForAll([k], z3.Implies(z3.And(k >= 0, k < n), self.char_at(k) == other.char_at(k)))
        if a is not None and b is not None:
            return z3.And(n == other.length(), z3.Or(n == 0, a[0] == b[0], pointwise))
        return z3.And(n == other.length(), pointwise)

    # ---- engine hooks
    def __pyvc_snapshot__(self, memo):
        return self

    def __pyvc_fresh__(self, eng):
        return SStr.fresh(eng, "hv")

    def __pyvc_isinstance__(self, cls):
        return cls is str

    def __pyvc_truth__(self, eng):
        return _sb(self.length() > 0)

    def __pyvc_compare__(self, eng, op, a, b):
        if isinstance(op, (ast.Eq, ast.NotEq)):
            x, y = (a, b) if isinstance(a, SStr) else (b, a)
            if not isinstance(y, (str, SStr)):
                r = False
            else:
                r = _sb(x.eq_str(y))
            return r if isinstance(op, ast.Eq) else eng.unop(ast.Not(), r)
        raise Unsupported("ordering of symbolic strings")

    def __pyvc_binop__(self, eng, op, a, b):
        if isinstance(op, ast.Add) and all(isinstance(x, (str, SStr)) for x in (a, b)):
            return concat(eng, a, b)
        if isinstance(op, ast.Add):
            raise ProgExc(TypeError, "can only concatenate str to str")
        raise Unsupported(f"operator {type(op).__name__} on a symbolic string")

    def __pyvc_contains__(self, eng, item):
        """`item in self` (substring test)"""
        if isinstance(item, str) and len(item) == 0:
            return True
        if isinstance(item, str) and len(item) == 1:
            k = z3.Int(fresh_name("k"))
            return _sb(z3.Exists([k], z3.And(k >= 0, k < self.length(), self.char_at(k) == ord(item))))
        raise Unsupported("substring test inside a symbolic string")

    def __pyvc_getitem__(self, eng, idx):
        n = self.length()
        if isinstance(idx, slice):
            if idx.step not in (None, 1):
                raise Unsupported("extended slice of a symbolic string")

            def bound(b, default):
                if b is None:
                    return default
                bz = _zi(b)
                return z3.If(bz >= 0, z3.If(bz <= n, bz, n), z3.If(n + bz >= 0, n + bz, 0))

            a = z3.simplify(bound(idx.start, z3.IntVal(0)))
            b = z3.simplify(bound(idx.stop, n))
            b = z3.simplify(z3.If(b >= a, b, a))
            return self.substring(eng, a, b)
        iz = _zi(idx)
        if eng.branch(_sb(z3.Or(iz >= n, iz < -n))):
            raise ProgExc(IndexError, "string index out of range")
        j = z3.simplify(z3.If(iz >= 0, iz, n + iz))
        return self.substring(eng, j, j + 1)

    def substring(self, eng, a, b):
        """self[a:b] for 0 <= a <= b <= len"""
        s = self.single()
        if s is not None:
            return SStr.slice(s[0] + a, s[0] + b)
        if not self.pieces:
            return ""
        n = self.length()
        if z3.is_true(z3.simplify(z3.And(a == 0, b == n))):
            return self
        # scattered string: every piece contributes its intersection with [a, b)
        off = z3.IntVal(0)
        out = []
        clamp = lambda x, ln: z3.If(x <= 0, z3.IntVal(0), z3.If(x >= ln, ln, x))
        for p in self.pieces:
            ln = z3.IntVal(len(p)) if isinstance(p, str) else p[1] - p[0]
            a0, b0 = z3.simplify(clamp(a - off, ln)), z3.simplify(clamp(b - off, ln))
            if isinstance(p, str):
                if not (z3.is_int_value(a0) and z3.is_int_value(b0)):
                    if _valid(eng, z3.And(a <= off, b >= off + ln)):
                        a0, b0 = z3.IntVal(0), z3.IntVal(len(p))
                    elif _valid(eng, z3.Or(b <= off, a >= off + ln)):
                        a0 = b0 = z3.IntVal(0)
                    else:
                        raise Unsupported("symbolic cut inside a literal piece of a symbolic string")
                out.append(p[a0.as_long():b0.as_long()])
            else:
                out.append((p[0] + a0, p[0] + b0))
            off = z3.simplify(off + ln)
        return SStr(out)

    def __pyvc_getattr__(self, eng, name):
        if name in STR_METHODS:
            return NativeMethod(STR_METHODS[name], self, name)
        raise Unsupported(f"str.{name} on a symbolic string")


def _same_piece(a, b):
    if isinstance(a, str) or isinstance(b, str):
        return isinstance(a, str) and isinstance(b, str) and a == b
    return z3.is_true(z3.simplify(z3.And(a[0] == b[0], a[1] == b[1])))


def _valid(eng, cond):
    """the quantifier-free part of the path condition entails cond (a timeout counts as `not known`)"""
    c = z3.simplify(cond)
    if z3.is_true(c):
        return True
    if z3.is_false(c):
        return False
    return not eng.feasible(z3.Not(c))


def _settle(eng, pieces, at):
    """decide whether the slice piece at index `at` is empty (forking the path when the path condition leaves it open)"""
    if not pieces or isinstance(pieces[at], str):
        return pieces
    lo, hi = pieces[at]
    if _valid(eng, hi > lo):
        return pieces
    if _valid(eng, hi == lo) or (not eng.spec_mode and not eng.branch(_sb(hi > lo))):
        return pieces[:-1] if at == -1 else pieces[1:]
    return pieces


def concat(eng, a, b):
    pa = [a] if isinstance(a, str) else list(a.pieces)
    pb = [b] if isinstance(b, str) else list(b.pieces)
    pa = [x for x in pa if x != ""] if all(isinstance(x, str) for x in pa) else pa
    pb = [x for x in pb if x != ""] if all(isinstance(x, str) for x in pb) else pb
    if pa and pb:
        pa, pb = _settle(eng, pa, -1), _settle(eng, pb, 0)
    if pa and pb and not isinstance(pa[-1], str) and not isinstance(pb[0], str):
        if _valid(eng, pa[-1][1] == pb[0][0]):  # adjacent slices of the text are one slice
            pa[-1] = (pa[-1][0], pb[0][1])
            pb = pb[1:]
    return SStr(pa + pb)  # stays a symbolic string (even when it happens to be a literal): a field holding it can be havocked


def slen(v):
    """length term of a str / SStr"""
    return z3.IntVal(len(v)) if isinstance(v, str) else v.length()


def as_slice(v):
    """(lo, hi) of a value that is one slice of the text; the concrete '' is the slice (0, 0); None otherwise"""
    if isinstance(v, str):
        return (z3.IntVal(0), z3.IntVal(0)) if v == "" else None
    if isinstance(v, SStr):
        if not v.pieces:
            return (z3.IntVal(0), z3.IntVal(0))
        return v.single()
    return None


def is_text(v, lo, hi):
    """formula: the string value v IS the slice text[lo:hi) (same length; same place when not empty)"""
    s = as_slice(v)
    if s is None:
        return z3.BoolVal(False)
    return z3.And(s[1] - s[0] == hi - lo, z3.Or(hi == lo, s[0] == lo))


# ------------------------------------------------------------------ str methods
def _lits(arg, what):
    if isinstance(arg, str):
        return [arg]
    if isinstance(arg, tuple) and all(isinstance(x, str) for x in arg):
        return list(arg)
    raise Unsupported(f"str.{what} with a symbolic argument")


def _m_endswith(eng, recv, args, kwargs):
    if len(args) != 1 or kwargs:
        raise Unsupported("str.endswith(suffix, start, end)")
    n = recv.length()
    alts = [z3.And(n >= len(l), *[recv.char_at(n - len(l) + k) == ord(c) for k, c in enumerate(l)]) for l in _lits(args[0], "endswith")]
    return _sb(z3.Or(*alts)) if alts else False


def _m_startswith(eng, recv, args, kwargs):
    if len(args) != 1 or kwargs:
        raise Unsupported("str.startswith(prefix, start, end)")
    n = recv.length()
    alts = [z3.And(n >= len(l), *[recv.char_at(z3.IntVal(k)) == ord(c) for k, c in enumerate(l)]) for l in _lits(args[0], "startswith")]
    return _sb(z3.Or(*alts)) if alts else False


def _first_index(eng, recv, stop, name, from_right=False):
    """ghost index k in [0, n]: the first (from the left / from the right) position whose character satisfies stop; n (resp. -1 -> k = 0
    means `none to strip`) ... returns k with its defining facts assumed (least / greatest element of a finite set)"""
    n = recv.length()
    k, j = z3.Int(fresh_name(name)), z3.Int(fresh_name("j"))
    if not from_right:
        eng.assume(z3.And(k >= 0, k <= n, z3.Implies(k < n, stop(recv.char_at(k))),
                          z3.ForAll([j], z3.Implies(z3.And(j >= 0, j < k), z3.Not(stop(recv.char_at(j)))))))
    else:  # k = end of the kept part: everything in [k, n) does not stop, k == 0 or char k-1 stops
        eng.assume(z3.And(k >= 0, k <= n, z3.Implies(k > 0, stop(recv.char_at(k - 1))),
                          z3.ForAll([j], z3.Implies(z3.And(j >= k, j < n), z3.Not(stop(recv.char_at(j)))))))
    eng.assumptions.add("ghost definition: first / last position of a character class inside a string (str.partition / strip / find models)")
    return k


def _m_partition(eng, recv, args, kwargs):
    if len(args) != 1 or kwargs or not isinstance(args[0], str) or len(args[0]) != 1:
        raise Unsupported("str.partition with a separator that is not one literal character")
    sep = args[0]
    n = recv.length()
    k = _first_index(eng, recv, lambda c: c == ord(sep), "part")
    if eng.branch(_sb(k < n)):
        return (recv.substring(eng, z3.IntVal(0), k), sep, recv.substring(eng, k + 1, n))
    return (recv, "", "")


def _m_find(eng, recv, args, kwargs):
    if len(args) != 1 or kwargs or not isinstance(args[0], str) or len(args[0]) != 1:
        raise Unsupported("str.find / index with an argument that is not one literal character")
    n = recv.length()
    k = _first_index(eng, recv, lambda c: c == ord(args[0]), "find")
    return Sym(z3.If(k < n, k, z3.IntVal(-1)), "int")


def _m_index(eng, recv, args, kwargs):
    r = _m_find(eng, recv, args, kwargs)
    if eng.branch(_sb(r.z < 0)):
        raise ProgExc(ValueError, "substring not found")
    return r


PY_SPACE = "".join(chr(c) for c in range(0x110000) if chr(c).isspace())


def _strip_chars(args, what):
    if len(args) > 1:
        raise ProgExc(TypeError, f"{what} takes at most one argument")
    if not args or args[0] is None:
        return PY_SPACE
    if isinstance(args[0], str):
        return args[0]
    raise Unsupported(f"str.{what} with a symbolic argument")


def _m_rstrip(eng, recv, args, kwargs):
    chars = _strip_chars(args, "rstrip")
    k = _first_index(eng, recv, lambda c: z3.Not(in_set(c, chars)), "rstrip", from_right=True)
    return recv.substring(eng, z3.IntVal(0), k)


def _m_lstrip(eng, recv, args, kwargs):
    chars = _strip_chars(args, "lstrip")
    k = _first_index(eng, recv, lambda c: z3.Not(in_set(c, chars)), "lstrip")
    return recv.substring(eng, k, recv.length())


def _m_strip(eng, recv, args, kwargs):
    r = _m_lstrip(eng, recv, args, kwargs)
    return r if isinstance(r, str) else _m_rstrip(eng, r, args, kwargs)


def _m_removesuffix(eng, recv, args, kwargs):
    (suf,) = args
    if not isinstance(suf, str):
        raise Unsupported("str.removesuffix with a symbolic argument")
    if suf and eng.branch(_m_endswith(eng, recv, [suf], {})):
        n = recv.length()
        return recv.substring(eng, z3.IntVal(0), n - len(suf))
    return recv


def _m_removeprefix(eng, recv, args, kwargs):
    (pre,) = args
    if not isinstance(pre, str):
        raise Unsupported("str.removeprefix with a symbolic argument")
    if pre and eng.branch(_m_startswith(eng, recv, [pre], {})):
        return recv.substring(eng, z3.IntVal(len(pre)), recv.length())
    return recv


def _m_isspace(eng, recv, args, kwargs):
    k = z3.Int(fresh_name("k"))
    n = recv.length()
    return _sb(z3.And(n > 0, z3.ForAll([k], z3.Implies(z3.And(k >= 0, k < n), in_set(recv.char_at(k), PY_SPACE)))))


STR_METHODS = {
    "endswith": _m_endswith, "startswith": _m_startswith, "partition": _m_partition, "find": _m_find, "index": _m_index,
    "rstrip": _m_rstrip, "lstrip": _m_lstrip, "strip": _m_strip, "removesuffix": _m_removesuffix, "removeprefix": _m_removeprefix,
    "isspace": _m_isspace,
}


# =========================================================================== the reader
class CharStream:
    """the TextIOBase the Lexer reads: a cursor into the abstract text"""

    def __init__(self, pos):
        self.pos = pos  # z3 Int term

    def __repr__(self):
        return f"CharStream<pos={self.pos}>"

    def __pyvc_snapshot__(self, memo):
        c = CharStream(self.pos)
        memo[id(self)] = c
        return c

    def __pyvc_havoc__(self, eng):
        self.pos = z3.Int(fresh_name("rpos"))

    def __pyvc_getattr__(self, eng, name):
        if name == "read":
            return NativeMethod(CharStream._read, self, name)
        if name == "readline":
            return NativeMethod(CharStream._readline, self, name)
        raise Unsupported(f"reader.{name} on the abstract character stream")

    @staticmethod
    def _read(eng, recv, args, kwargs):
        if list(args) != [1] or kwargs:
            raise Unsupported("reader.read(n) with n != 1 on the abstract character stream")
        eng.assumptions.add(A_READ)
        p = recv.pos
        if eng.branch(_sb(p < NCH)):
            eng.assumptions.add(A_COUNT)
            eng.assume(count_step(p))
            recv.pos = z3.simplify(p + 1)
            return SStr.slice(p, p + 1)
        return SStr([])

    @staticmethod
    def _readline(eng, recv, args, kwargs):
        if args or kwargs:
            raise Unsupported("reader.readline(size) on the abstract character stream")
        eng.assumptions.add(A_READLINE)
        define_eol(eng)
        p = recv.pos
        e = EOL(p)
        if eng.branch(_sb(e < NCH)):
            recv.pos = z3.simplify(e + 1)
            return SStr.slice(p, e + 1)
        recv.pos = NCH
        return SStr.slice(p, NCH)


# =========================================================================== languages: regex methods and float()
LANGS = {}  # key -> language number


def lang_id(key):
    if key not in LANGS:
        LANGS[key] = len(LANGS) + 1
    return LANGS[key]


def inl(key, lo, hi):
    return INL(z3.IntVal(lang_id(key)), lo, hi)


def code_lang(pattern_text, flags, method):
    return ("code", method, pattern_text, int(flags) & ~re.UNICODE)


class SMatch:
    """re.Match of an anchored match on a one-slice subject: group() / start() / end() / span()"""

    def __init__(self, subject, lo, hi):
        self.subject, self.lo, self.hi = subject, lo, hi

    def __pyvc_snapshot__(self, memo):
        return self

    def __pyvc_getattr__(self, eng, name):
        s0 = self.subject.single()[0]
        if name == "group":
            def group(e, r, a, k):
                if list(a) not in ([], [0]) or k:
                    raise Unsupported("match.group(g) for a group other than the whole match on a symbolic subject")
                return SStr.slice(self.lo, self.hi)

            return NativeMethod(group, self, name)
        if name in ("start", "end", "span"):
            def pos(e, r, a, k):
                if list(a) not in ([], [0]) or k:
                    raise Unsupported("match.start/end(g) for a group other than the whole match on a symbolic subject")
                st, en = Sym(z3.simplify(self.lo - s0), "int"), Sym(z3.simplify(self.hi - s0), "int")
                return st if name == "start" else en if name == "end" else (st, en)

            return NativeMethod(pos, self, name)
        raise Unsupported(f"match.{name} on a symbolic subject")

    def __pyvc_getitem__(self, eng, idx):
        if idx != 0:
            raise Unsupported("match[g] for a group other than the whole match on a symbolic subject")
        return SStr.slice(self.lo, self.hi)


def _pattern_method_model(pat, method):
    def m(eng, args, kwargs):
        if not args or not isinstance(args[0], SStr):
            if models.all_concrete(args, kwargs):
                try:
                    return getattr(pat, method)(*args, **kwargs)
                except Exception as e:
                    raise ProgExc(type(e), str(e))
            raise Unsupported(f"pattern.{method} on a symbolic argument")
        if len(args) != 1 or kwargs:
            raise Unsupported(f"pattern.{method}(s, pos, endpos) on a symbolic subject")
        s = args[0].single()
        if s is None:
            raise Unsupported(f"pattern.{method} on a symbolic string that is not one slice of the text")
        eng.assumptions.add(A_LANG)
        lo, hi = s
        if not eng.branch(_sb(inl(code_lang(pat.pattern, pat.flags, method), lo, hi))):
            return None
        if method == "fullmatch":
            return SMatch(args[0], lo, hi)
        if method == "match":  # the matched part: some prefix of the subject that the pattern matches entirely
            k = z3.Int(fresh_name("mend"))
            eng.assume(z3.And(k >= lo, k <= hi, inl(code_lang(pat.pattern, pat.flags, "fullmatch"), lo, k)))
            return SMatch(args[0], lo, k)
        a, b = z3.Int(fresh_name("mstart")), z3.Int(fresh_name("mend"))
        eng.assume(z3.And(a >= lo, a <= b, b <= hi, inl(code_lang(pat.pattern, pat.flags, "fullmatch"), a, b)))
        return SMatch(args[0], a, b)

    return m


PY_FLOAT_LANG = ("ref", "PY_FLOAT")

_prev_float = models.BUILTIN_MODELS.get(float)


def _m_float(eng, args, kwargs):
    if len(args) == 1 and isinstance(args[0], SStr):
        s = args[0].single()
        if s is None:
            raise Unsupported("float() of a symbolic string that is not one slice of the text")
        eng.assumptions.add(A_FLOAT)
        if not eng.branch(_sb(inl(PY_FLOAT_LANG, s[0], s[1]))):
            raise ProgExc(ValueError, "could not convert string to float")
        return Sym(FVAL(s[0], s[1]), "real")
    return _prev_float(eng, args, kwargs)


_prev_len = models.BUILTIN_MODELS.get(len)


def _m_len(eng, args, kwargs):
    if len(args) == 1 and isinstance(args[0], SStr):
        return eng.snum(args[0].length(), "int")
    return _prev_len(eng, args, kwargs)


# =========================================================================== wiring
def _contains_sstr(v):
    if isinstance(v, (SStr, SMatch, CharStream)):
        return True
    if isinstance(v, (tuple, list)):
        return any(_contains_sstr(x) for x in v)
    return False


def install():
    if getattr(models, "_c15_text_installed", False):
        return
    models._c15_text_installed = True
    prev_contains, prev_all_concrete, prev_lookup = models.contains, models.all_concrete, models.lookup_model

    def contains(eng, container, item):
        if isinstance(item, SStr):
            if isinstance(container, str):  # substring test: item is one of the substrings of the literal
                subs = {container[i:j] for i in range(len(container) + 1) for j in range(i, len(container) + 1)}
                return _sb(z3.Or(*[item.eq_literal(s) for s in sorted(subs, key=lambda s: (len(s), s))]))
            if isinstance(container, (tuple, list, set, frozenset)):
                acc = False
                for x in container:
                    acc = eng.or_(acc, eng.compare(ast.Eq(), item, x))
                return acc
            if isinstance(container, SStr):
                raise Unsupported("substring test between symbolic strings")
        return prev_contains(eng, container, item)

    def all_concrete(args, kwargs):
        if any(_contains_sstr(a) for a in args) or any(_contains_sstr(v) for v in kwargs.values()):
            return False
        return prev_all_concrete(args, kwargs)

    def lookup_model(fn):
        slf = getattr(fn, "__self__", None)
        if isinstance(slf, re.Pattern) and getattr(fn, "__name__", "") in ("match", "fullmatch", "search"):
            return _pattern_method_model(slf, fn.__name__)
        return prev_lookup(fn)

    models.contains, models.all_concrete, models.lookup_model = contains, all_concrete, lookup_model
    models.EXTRA_MODELS[float] = _m_float
    models.EXTRA_MODELS[len] = _m_len
