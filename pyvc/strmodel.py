"""Abstract strings: `str` values whose text is unknown (a comment of a tree, a source name, a line of a file).

A string VALUE is named by an integer id: ids are an injective encoding of texts (`str_of(id)` is the text, `str_id(text)` the id of
a concrete text, the empty text has id 0 - the convention of contracts/C02.py `AStr`), so equality of ids is equality of texts.  What
`str` methods say about an abstract string are UNINTERPRETED functions of the receiver's id and of the arguments:

    s.lstrip() / s.strip(chars) / s.lower() / s.replace(a, b) ...   -> an abstract string  f(id(s), args)
    s.startswith(p) / s.endswith(p) / s.isspace() / s.isdigit() ... -> an unconstrained Bool p(id(s), args)
    s.count(t) / s.find(t)                                           -> an unconstrained Int
    len(s) -> strlen(id) >= 0 ;  s[a:] / s[:b] / s[a:b] / s[i] -> functions of (id, bounds) ;  t in s -> Bool of (id(s), t)
    bool(s) -> id != 0 ;  s == t -> id(s) == id(t) ;  s + t / f"..{s}.." -> the structured text (models.SymStr) of the parts

so a theorem proved about a carrier holds for EVERY interpretation of them, in particular for CPython's.  A literal argument enters
as a z3 string constant (`startswith(id, "source:")`), an abstract one as its id; the function symbol is determined by the method
name and the argument forms.  The symbols `startswith`, `removesuffix`, `is_blank`, `strlen`, `drop_prefix` are the ones contracts/C02.py
declares (z3 identifies declarations by name and signature), so the writer's and the reader's vocabularies meet.

Values: `AbsStr(z)` (an Opaque, so identity tests and the existing contracts keep working); a symbolic-length list of abstract strings
is a `PList` of kind `ref` whose `proto` is `STR_PROTO` (`str_list`); `as_id(eng, v)` gives the id of any string-like value
(str, AbsStr, C02's AStr, SymStr / FmtPiece built by f-strings and `+`).
Cross-check against CPython (the model is an abstraction, i.e. every axiom used must hold for real strings): tools/xcheck_strmodel.py.
"""
from __future__ import annotations

import ast

import z3

from .engine import ProgExc, Unsupported
from .values import NativeMethod, Opaque, PList, Sym, fresh_name, kind_of, sort_of, to_z3

_I, _B, _S = z3.IntSort(), z3.BoolSort(), z3.StringSort()
STR_ID = z3.Function("str_id", _S, _I)
STR_OF = z3.Function("str_of", _I, _S)
CONCAT = z3.Function("str_concat", _I, _I, _I)
LEN = z3.Function("strlen", _I, _I)

MODEL = ("str-model: an abstract string is an id (injective encoding of its text, the empty text is id 0); str methods on it are uninterpreted "
         "functions / predicates of the id and the arguments (literal arguments as string constants); ==, bool(), len() >= 0, + and f-strings "
         "as stated in pyvc/strmodel.py; cross-checked against CPython by tools/xcheck_strmodel.py")

RET_STR = {"lstrip", "rstrip", "strip", "lower", "upper", "casefold", "capitalize", "title", "swapcase", "removeprefix", "removesuffix",
           "replace", "expandtabs", "zfill", "ljust", "rjust", "center", "__str__", "__format__"}
RET_BOOL = {"startswith", "endswith", "isspace", "isdigit", "isalpha", "isalnum", "isdecimal", "isnumeric", "isupper", "islower", "istitle",
            "isidentifier", "isascii", "isprintable"}
RET_INT = {"count", "find", "rfind"}
RAISING_INT = {"index", "rindex"}  # ValueError when the text does not occur
# names shared with contracts/C02.py (same declarations): (method, argument forms) -> z3 function name
ALIAS = {("isspace", ""): "is_blank", ("startswith", "S"): "startswith", ("removesuffix", "S"): "removesuffix"}


def is_str(v):
    return isinstance(v, AbsStr) or (isinstance(v, Opaque) and v.proto.get("__wrap__") is AbsStr)


def is_strlike(v):
    from .models import FmtPiece, SymStr

    return isinstance(v, (str, SymStr)) or is_str(v) or (isinstance(v, FmtPiece) and v.spec in ("", "s", "str") and is_strlike(v.value))


def used(eng):
    eng.assumptions.add(MODEL)


def lit(eng, s):
    """id of a concrete text; records (once per path) that the id decodes to this text, which makes the ids of different literals differ"""
    if s == "":
        return z3.IntVal(0)
    t = STR_ID(z3.StringVal(s))
    key = ("strlit", s)
    if eng is not None and key not in eng.ghost:
        eng.ghost[key] = True
        used(eng)
        if ("strlit", "") not in eng.ghost:
            eng.ghost[("strlit", "")] = True
            eng.assume(STR_OF(z3.IntVal(0)) == z3.StringVal(""))
        eng.assume(STR_OF(t) == z3.StringVal(s))
    return t


def as_id(eng, v):
    """the id (z3 Int term) of a string-like value"""
    from .models import FmtPiece, SymStr

    if isinstance(v, str):
        return lit(eng, v)
    if isinstance(v, Opaque) and (is_str(v) or str in v.proto.get("__isinstance__", ())):
        return v.z
    if isinstance(v, Sym) and v.kind == "ref":
        return v.z
    if isinstance(v, FmtPiece):
        if v.spec in ("", "s", "str") and (is_strlike(v.value) or (isinstance(v.value, Sym) and v.value.kind == "ref")):
            return as_id(eng, v.value)  # str(s) / format(s, "") of a string is the string
        k = kind_of(v.value)
        if k in ("int", "real", "bool"):
            used(eng)
            f = z3.Function(f"str.format:{k}", sort_of(k), _S, _I)
            return f(to_z3(v.value, k), z3.StringVal(v.spec))
        raise Unsupported(f"text of a formatted {type(v.value).__name__}")
    if isinstance(v, SymStr):
        parts = []
        for p in flatten(v):
            if isinstance(p, str) and parts and isinstance(parts[-1], str):
                parts[-1] += p
            elif p != "":
                parts.append(p)
        if not parts:
            return z3.IntVal(0)
        ids = [as_id(eng, p) for p in parts]
        used(eng)
        z = ids[-1]
        for a in reversed(ids[:-1]):  # right-nested: one normal form per sequence of parts
            z = CONCAT(a, z)
        return z
    raise Unsupported(f"not a string: {type(v).__name__}")


def flatten(v):
    from .models import SymStr

    out = []
    for p in (v.parts if isinstance(v, SymStr) else [v]):
        if isinstance(p, SymStr):
            out.extend(flatten(p))
        else:
            out.append(p)
    return out


def _arg(eng, a):
    """(form letter, z3 term) of one method argument"""
    if isinstance(a, str):
        return "S", z3.StringVal(a)
    if isinstance(a, bool):
        return "B", z3.BoolVal(a)
    if isinstance(a, int):
        return "I", z3.IntVal(a)
    if isinstance(a, Sym) and a.kind in ("int", "bool"):
        return ("I" if a.kind == "int" else "B"), a.z
    if is_strlike(a) or (isinstance(a, Sym) and a.kind == "ref"):
        return "s", as_id(eng, a)
    raise Unsupported(f"argument of type {type(a).__name__} in a method of an abstract string")


def apply(eng, z, name, args, ret):
    """the uninterpreted function of method `name` applied to the receiver id z and the arguments"""
    used(eng)
    forms, terms = "", []
    for a in args:
        if a is None:
            forms += "N"
            continue
        f, t = _arg(eng, a)
        forms += f
        terms.append(t)
    if forms == "N" and name in ("strip", "lstrip", "rstrip"):
        forms = ""  # s.strip(None) is s.strip()
    fname = ALIAS.get((name, forms)) or ("str." + name + (":" + forms if forms else ""))
    f = z3.Function(fname, _I, *[t.sort() for t in terms], {"str": _I, "bool": _B, "int": _I}[ret])
    if forms == "" and name in ("strip", "lstrip", "rstrip", "isspace"):
        _blank_facts(eng, z)
    return f(z, *terms)


def _blank_facts(eng, z):
    """the few facts about whitespace stripping the model knows (instances for the receiver z; each is a property of CPython's str,
    tools/xcheck_strmodel.py): a text is blank (empty or isspace) iff stripping it on either side or both leaves nothing; stripping twice
    is stripping once; a text that isspace is not empty"""
    key = ("strblank", z.get_id())
    if eng is None or key in eng.ghost:
        return
    eng.ghost[key] = z  # keeps the term alive (z3 reuses ids of freed terms)
    blank = z3.Function("is_blank", _I, _B)(z)
    fs = {n: z3.Function("str." + n, _I, _I) for n in ("strip", "lstrip", "rstrip")}
    facts = [z3.Implies(blank, z != 0), z3.Implies(z == 0, z3.And(*[f(z) == 0 for f in fs.values()]))]
    for f in fs.values():
        facts.append((f(z) == 0) == z3.Or(blank, z == 0))
        facts.append(f(f(z)) == f(z))
    eng.assume(z3.And(*facts))


def method(eng, recv, name):
    """bound method `name` of the abstract string `recv` (anything `as_id` accepts)"""
    def call(e, r, a, k):
        if k:
            raise Unsupported(f"str.{name} with keyword arguments on an abstract string")
        z = as_id(e, r)
        if name in ("startswith", "endswith") and a and isinstance(a[0], tuple):
            # a tuple of prefixes: any of them
            acc = False
            for p in a[0]:
                acc = e.or_(acc, e.sbool(apply(e, z, name, [p] + list(a[1:]), "bool")))
            return acc
        if name in RET_STR:
            return AbsStr(apply(e, z, name, a, "str"))
        if name in RET_BOOL:
            return e.sbool(apply(e, z, name, a, "bool"))
        if name in RET_INT:
            return Sym(apply(e, z, name, a, "int"), "int")
        if name in RAISING_INT:
            v = apply(e, z, "rfind" if name == "rindex" else "find", a, "int")
            if e.spec_mode:
                return Sym(v, "int")
            if not e.branch(e.sbool(v >= 0)):
                raise ProgExc(ValueError, "substring not found")
            return Sym(v, "int")
        raise Unsupported(f"str.{name} of an abstract string has no model")

    if name not in RET_STR | RET_BOOL | RET_INT | RAISING_INT:
        raise Unsupported(f"str.{name} of an abstract string has no model")
    return NativeMethod(call, recv, name)


def _len(eng, recv, args, kwargs):
    used(eng)
    z = LEN(recv.z)
    eng.assume(z >= 0)
    return Sym(z, "int")


STR_PROTO = {"__isinstance__": (str,), "__len__": _len}


class AbsStr(Opaque):
    """an abstract string (see the module text)"""

    def __init__(self, z, proto=None):
        Opaque.__init__(self, z, STR_PROTO)

    def __repr__(self):
        return f"AbsStr<{self.z}>"

    def __pyvc_getattr__(self, eng, name):
        return method(eng, self, name)

    def __pyvc_isinstance__(self, cls):
        return cls is str

    def __pyvc_truth__(self, eng):
        used(eng)
        return eng.sbool(self.z != 0)

    def __pyvc_compare__(self, eng, op, a, b):
        if not isinstance(op, (ast.Eq, ast.NotEq)):
            raise Unsupported("ordering of abstract strings")
        other = b if a is self else a
        if other is None or not (is_strlike(other) or isinstance(other, (Opaque, Sym))):
            r = False  # a string equals only a string
        elif isinstance(other, Sym) and other.kind != "ref":
            r = False
        else:
            r = eng.sbool(self.z == as_id(eng, other))
        return r if isinstance(op, ast.Eq) else eng.unop(ast.Not(), r)

    def __pyvc_binop__(self, eng, op, a, b):
        from .models import SymStr

        if isinstance(op, ast.Add) and is_strlike(a) and is_strlike(b):
            return SymStr(flatten(a) + flatten(b))
        raise Unsupported(f"{type(op).__name__} on an abstract string")

    def __pyvc_getitem__(self, eng, idx):
        used(eng)
        if isinstance(idx, slice):
            if idx.step is not None:
                raise Unsupported("extended slice of an abstract string")
            if idx.stop is None and idx.start is not None:
                return AbsStr(z3.Function("drop_prefix", _I, _I, _I)(self.z, to_z3(idx.start, "int")))
            if idx.start is None and idx.stop is not None:
                return AbsStr(z3.Function("str.take", _I, _I, _I)(self.z, to_z3(idx.stop, "int")))
            if idx.start is None:
                return self
            return AbsStr(z3.Function("str.slice", _I, _I, _I, _I)(self.z, to_z3(idx.start, "int"), to_z3(idx.stop, "int")))
        if kind_of(idx) == "int":
            if not eng.spec_mode:  # s[i] raises IndexError outside -len .. len-1
                n = LEN(self.z)
                eng.assume(n >= 0)
                iz = to_z3(idx, "int")
                if not eng.branch(eng.sbool(z3.And(iz >= -n, iz < n))):
                    raise ProgExc(IndexError, "string index out of range")
            return AbsStr(z3.Function("str.char_at", _I, _I, _I)(self.z, to_z3(idx, "int")))
        raise Unsupported("subscript of an abstract string")

    def __pyvc_contains__(self, eng, item):
        if not (is_strlike(item) or (isinstance(item, Sym) and item.kind == "ref")):
            raise ProgExc(TypeError, "'in <string>' requires string as left operand")
        return eng.sbool(apply(eng, self.z, "__contains__", [item], "bool"))


STR_PROTO["__wrap__"] = AbsStr
STR_PROTO["__getitem__"] = lambda eng, recv, args, kwargs: AbsStr(recv.z).__pyvc_getitem__(eng, args[0])


def fresh_str(name="s"):
    return AbsStr(z3.Const(fresh_name(name), _I))


def str_list(name="strs", n=None):
    """a list of abstract strings of symbolic length (elements: `AbsStr`)"""
    p = PList.fresh("ref", n=n, name=name)
    p.proto = STR_PROTO
    return p


def elem_id(eng, x, kind, proto):
    """the z3 term under which `x` is stored in a symbolic list of element kind `kind` / element protocol `proto`"""
    if proto is not None and proto.get("__wrap__") is AbsStr:
        return as_id(eng, x)
    if isinstance(x, Opaque) and kind == "ref":
        return x.z
    if kind_of(x) is None:
        raise Unsupported(f"element of type {type(x).__name__} in a symbolic list of {kind}")
    return to_z3(x, kind)
