"""Locate the real functions in /repo's *current working tree* and return their AST.

What extraction drops (and nothing else): decorators are not executed (they are
interpreted by fixed rules: @overload stubs are skipped, @property/@staticmethod/
@classmethod/@deprecated recognised), type annotations, docstrings, comments.
"""
from __future__ import annotations

import ast
import hashlib
import os

REPO = os.environ.get("VERIF_REPO", "/repo")

_cache: dict[str, tuple[str, ast.Module]] = {}
_find_cache: dict[str, tuple] = {}


def load(relpath: str):
    path = os.path.join(REPO, relpath)
    if relpath not in _cache:
        with open(path, encoding="utf-8") as f:
            src = f.read()
        _cache[relpath] = (src, ast.parse(src, filename=path))
    return _cache[relpath]


def _is_overload(fn: ast.AST) -> bool:
    for d in getattr(fn, "decorator_list", []):
        if isinstance(d, ast.Name) and d.id == "overload":
            return True
        if isinstance(d, ast.Attribute) and d.attr == "overload":
            return True
    return False


def _is_setter(fn) -> bool:
    for d in getattr(fn, "decorator_list", []):
        if isinstance(d, ast.Attribute) and d.attr in ("setter", "deleter"):
            return True
    return False


def _find_in(body, name, want_setter=False):
    hit = None
    for st in body:
        if isinstance(st, (ast.FunctionDef, ast.AsyncFunctionDef, ast.ClassDef)) and st.name == name:
            if isinstance(st, ast.FunctionDef) and _is_overload(st):
                continue
            if isinstance(st, ast.FunctionDef) and _is_setter(st) != want_setter:
                continue
            hit = st
        elif isinstance(st, (ast.If, ast.Try, ast.With)):
            sub = _find_in(getattr(st, "body", []), name, want_setter)
            hit = sub or hit
    return hit


def find(key: str):
    """key = 'relpath:Qual.name' ('<locals>' parts are skipped).  Returns
    (node, source_segment, sha256).  A trailing '@setter' selects a property setter."""
    if key in _find_cache:  # same file text (see load) => same answer; pure memoisation
        return _find_cache[key]
    key0 = key
    relpath, qual = key.split(":")
    want_setter = qual.endswith("@setter")
    if want_setter:
        qual = qual[: -len("@setter")]
    src, mod = load(relpath)
    node = mod
    parts = [p for p in qual.split(".") if p != "<locals>"]
    outer = None  # (qualified name, node) of the outermost enclosing function
    for i, part in enumerate(parts):
        body = node.body
        nxt = _find_in(body, part, want_setter and i == len(parts) - 1)
        if nxt is None and isinstance(node, (ast.FunctionDef,)):
            # nested def may sit inside if/for/with blocks
            for sub in ast.walk(node):
                if sub is not node and isinstance(sub, (ast.FunctionDef, ast.ClassDef)) and sub.name == part:
                    nxt = sub
        if nxt is None and isinstance(node, ast.FunctionDef) and i == len(parts) - 1 and "<locals>" in qual and os.environ.get("VERIF_NO_ALIGN") != "1":
            # a nested carrier that an extract-function refactor moved to module level: its contract follows it (pyvc/follow.py)
            from . import follow

            wnode, seg = follow.moved_nested(key0, src, mod, node, part)  # KeyError (exit 3) says which function was tried
            _find_cache[key0] = (wnode, seg, hashlib.sha256(seg.encode()).hexdigest())
            return _find_cache[key0]
        if nxt is None:
            raise KeyError(f"carrier not found: {key} (missing '{part}')")
        node = nxt
        if outer is None and isinstance(node, (ast.FunctionDef, ast.AsyncFunctionDef)):
            outer = (".".join(parts[: i + 1]), node)
    seg = ast.get_source_segment(src, node) or ""
    if os.environ.get("VERIF_NO_ALIGN") != "1":
        # a commit that only renames locals must not make the sidecar contract inapplicable: rename them back to the names the
        # contract was written against (alpha-renaming, see pyvc/align.py); nested helpers are re-anchored through their outermost function
        from . import align

        if outer is not None and outer[1] is not node:
            align.reanchor(relpath + ":" + outer[0], outer[1], ast.get_source_segment(src, outer[1]) or "")
        align.reanchor(key0.replace("@setter", ""), node, seg)
    _find_cache[key0] = (node, seg, hashlib.sha256(seg.encode()).hexdigest())
    return _find_cache[key0]


def func_key(pyfunc) -> str | None:
    """Real function object -> 'relpath:qualname' if it lives in /repo."""
    import inspect

    try:
        f = inspect.getsourcefile(pyfunc)
    except TypeError:
        return None
    if not f:
        return None
    f = os.path.realpath(f)
    root = os.path.realpath(REPO)
    if not f.startswith(root + os.sep):
        return None
    return os.path.relpath(f, root) + ":" + pyfunc.__qualname__


def clear_cache():
    _cache.clear()
    _find_cache.clear()
