"""Replay of a verifier counter-model on the REAL code.

An obligation of the carrier's own body (postcondition, unexpected exception, frame write) that z3 answers with
`sat` comes with a model: values of the symbolic inputs the contract's `setup` built, for which the clause is false.
`try_replay(ob)` re-solves that one obligation in this process (to get a model object), turns the setup values into
native Python / numpy / pandas / repository objects, calls the real function of the tree under check on them and
compares what the real code does with what the symbolic execution PREDICTED for the same model:

* postcondition: the real result (and the state of the arguments after the call) equals the predicted one -- the very
  values for which the clause evaluates to false;
* `exc/unexpected-<Name>`: the real call raises <Name>;
* `safety/frame-write` / `safety/frame-attr-write`: the real call changes one of its arguments.

Only then is the counter-model reported as a failing input (status "reproduced").  Anything else -- an input that has no
native form (callbacks, abstract strings, symbolic dicts), a prediction that rests on havocked state (loops cut by an
invariant, modular callees), a different native outcome -- leaves the verdict as it was (`no-failing-input-found`): this
module never creates or removes a violation, it only attaches a replayed input to one that is already decided.
"""
from __future__ import annotations

import base64
import copy
import inspect
import pickle
import signal
from fractions import Fraction

import z3

from .values import NArr, Obj, PDict, PList, SArr, Sym, zint

MAX_LEN = 64
JUDGED_KINDS = {"postcondition", "exception", "safety"}


class NotConcrete(Exception):
    pass


class _Timeout(Exception):
    pass


def _num(ev, kind):
    if kind == "bool":
        if z3.is_true(ev):
            return True
        if z3.is_false(ev):
            return False
        raise NotConcrete("bool without a value")
    if kind == "int":
        if z3.is_int_value(ev):
            return ev.as_long()
        raise NotConcrete(f"int without a value: {ev}")
    if kind == "real":
        if z3.is_int_value(ev):
            return float(ev.as_long())
        if z3.is_rational_value(ev):
            return float(ev.as_fraction())
        if z3.is_algebraic_value(ev):
            return float(ev.approx(30).as_fraction())
        raise NotConcrete(f"real without a value: {ev}")
    raise NotConcrete(f"scalar of kind {kind}")


def _dtype(kind, dtype):
    import numpy as np

    if dtype is not None:
        try:
            return np.dtype(dtype)
        except Exception:
            pass
    return {"int": np.int64, "real": np.float64, "bool": np.bool_}.get(kind, object)


def _laid_out(a, v, m):
    """a 1-D array whose contiguity flag (pyvc/layout.py) is False under the model is rebuilt as a strided view: column 0 of a table"""
    import numpy as np

    c = getattr(v, "contiguous", None)
    if isinstance(c, Sym):
        c = z3.is_true(m.eval(c.z, model_completion=True))
    if c is False and a.ndim == 1:
        table = np.zeros((a.shape[0], 2), dtype=a.dtype)
        table[:, 0] = a
        return table[:, 0]
    return a


def concretise(v, m, memo=None):
    """native value of a pyvc value under model m"""
    import numpy as np

    memo = {} if memo is None else memo
    if v is None or isinstance(v, (bool, int, float, str, bytes, complex)):
        return v
    if isinstance(v, Fraction):
        return float(v)
    if isinstance(v, z3.ExprRef):
        s = v.sort()
        kind = "bool" if s == z3.BoolSort() else "int" if s == z3.IntSort() else "real" if s == z3.RealSort() else None
        if kind is None:
            raise NotConcrete(f"term of sort {s}")
        return _num(m.eval(v, model_completion=True), kind)
    if isinstance(v, Sym):
        if v.kind not in ("int", "real", "bool"):
            raise NotConcrete(f"abstract reference ({v.kind})")
        return _num(m.eval(v.z, model_completion=True), v.kind)
    uid = getattr(v, "uid", None)
    if uid is not None and ("u", uid) in memo:
        return memo[("u", uid)]

    def keep(x):
        if uid is not None:
            memo[("u", uid)] = x
        return x

    if isinstance(v, NArr):
        if v.view_of is not None:
            base = concretise(v.root(), m, memo)  # the view is rebuilt as a view of the same native base
            flat = v.view_of[1]
            a = v
            while a.view_of is not None and a.view_of[0].view_of is not None:  # compose index maps up to the root
                parent, pflat = a.view_of[0], a.view_of[0].view_of[1]
                flat = [pflat[j] for j in flat]
                a = parent
            try:
                lo, hi = min(flat), max(flat)
                step = (flat[1] - flat[0]) if len(flat) > 1 else 1
                if len(v.shape) == 1 and flat == list(range(lo, hi + 1, step or 1)):
                    return keep(base.reshape(-1)[lo : hi + 1 : step or 1])
            except (ValueError, IndexError):
                pass
            return keep(np.array([concretise(x, m, memo) for x in v.items], dtype=_dtype(v.kind, v.dtype)).reshape(v.shape))
        items = [concretise(x, m, memo) for x in v.items]
        return keep(_laid_out(np.array(items, dtype=_dtype(v.kind, v.dtype)).reshape(v.shape), v, m))
    if isinstance(v, SArr):
        n = concretise(zint(v.n), m, memo)
        if not 0 <= n <= MAX_LEN:
            raise NotConcrete(f"array of length {n}")
        items = [_num(m.eval(z3.Select(v.arr, i), model_completion=True), v.kind) for i in range(n)]
        return keep(_laid_out(np.array(items, dtype=_dtype(v.kind, v.dtype)), v, m))
    if isinstance(v, PList):
        if v.items is not None:
            out = keep([])
            out.extend(concretise(x, m, memo) for x in v.items)
            return out
        if v.proto is not None:
            raise NotConcrete("list of abstract objects")
        n = concretise(zint(v.n), m, memo)
        if not 0 <= n <= MAX_LEN:
            raise NotConcrete(f"list of length {n}")
        rows = [tuple(_num(m.eval(z3.Select(c, i), model_completion=True), k) for c, k in zip(v.cols, v.kinds)) for i in range(n)]
        return keep([r if v.tup else r[0] for r in rows])
    if isinstance(v, PDict):
        if v.items is None:
            raise NotConcrete("symbolic dict")
        out = keep({} if v.default_factory is None else __import__("collections").defaultdict(v.default_factory))
        for k, x in v.items.items():
            out[concretise(k, m, memo) if not isinstance(k, (str, int, tuple)) else k] = concretise(x, m, memo)
        return out
    if isinstance(v, Obj):
        cls = v.cls
        if not isinstance(cls, type):
            raise NotConcrete(f"object of {cls!r}")
        o = keep(object.__new__(cls))
        for k, x in v.fields.items():
            object.__setattr__(o, k, concretise(x, m, memo))
        return o
    if hasattr(v, "__pyvc_native__"):  # extension values (pyvc/ext_*.py) that have a native form: native(term, kind) evaluates a z3 term in the model
        return keep(v.__pyvc_native__(lambda t, kind: _num(m.eval(t, model_completion=True), kind), MAX_LEN, NotConcrete))
    tn = type(v).__name__
    if tn == "Iter" and hasattr(v, "consumed"):  # a one-shot iterator over what it still holds
        return keep(iter([] if v.consumed else list(concretise(v.seq, m, memo))))
    if tn == "SymSet" and hasattr(v, "mem"):  # a set of ints given by its membership array: the members among the small ids
        return keep({i for i in range(-MAX_LEN, MAX_LEN + 1) if z3.is_true(m.eval(z3.Select(v.mem, i), model_completion=True))})
    if tn == "DFrame" and hasattr(v, "cols"):
        import pandas as pd

        return keep(pd.DataFrame({c: concretise(a, m, memo) for c, a in v.cols.items()}))
    if tn == "S2Arr" and hasattr(v, "cols"):
        n = concretise(zint(v.n), m, memo)
        if not 0 <= n <= MAX_LEN:
            raise NotConcrete(f"array of {n} rows")
        a = np.array([[_num(m.eval(z3.Select(c, i), model_completion=True), v.kind) for c in v.cols] for i in range(n)], dtype=_dtype(v.kind, None)).reshape(n, len(v.cols))
        return keep(a.T if v.transposed else a)
    if isinstance(v, (tuple, list)):
        items = [concretise(x, m, memo) for x in v]
        if all(a is b for a, b in zip(items, v)):
            return v  # nothing symbolic inside (e.g. the real SWCNames named tuple): the object itself
        if type(v) in (tuple, list):
            return type(v)(items)
        return type(v)(*items) if hasattr(v, "_fields") else type(v)(items)
    if isinstance(v, dict):
        out = {k: concretise(x, m, memo) for k, x in v.items()}
        return v if all(out[k] is v[k] for k in v) else out
    mod = type(v).__module__ or ""
    if mod.startswith("pyvc") or mod.startswith("contracts"):
        raise NotConcrete(f"value of {type(v).__name__}")
    return v  # a real object the setup handed over as it is (SWCNames, numpy scalars, classes ...)


def agree(a, b, depth=0, why=None, path="value"):
    """predicted value a (from the model) and native value b describe the same thing; `why` collects the first difference"""
    ok = _agree(a, b, depth, why, path)
    if not ok and why is not None and not why:
        why.append(f"{path}: predicted {_short(a, 120)} / real {_short(b, 120)}")
    return ok


def _agree(a, b, depth, why, path):
    import numpy as np

    if depth > 8:
        return True
    if a is None or b is None:
        return a is None and b is None
    if isinstance(a, (bool, np.bool_)) or isinstance(b, (bool, np.bool_)):
        return isinstance(a, (bool, np.bool_, int, np.integer)) and isinstance(b, (bool, np.bool_, int, np.integer)) and bool(a) == bool(b)
    num = (int, float, np.integer, np.floating)
    if isinstance(a, num) and isinstance(b, num):
        a, b = float(a), float(b)
        if a != a or b != b:
            return a != a and b != b
        return abs(a - b) <= 1e-6 * max(1.0, abs(a), abs(b))
    if isinstance(a, np.ndarray) or isinstance(b, np.ndarray):
        try:
            a2, b2 = np.asarray(a), np.asarray(b)
        except Exception:
            return False
        if a2.shape != b2.shape:
            return False
        if a2.dtype == object or b2.dtype == object:
            return all(agree(x, y, depth + 1, why, path + f"[{i}]") for i, (x, y) in enumerate(zip(a2.reshape(-1), b2.reshape(-1))))
        try:
            return bool(np.allclose(a2.astype(float), b2.astype(float), rtol=1e-6, atol=1e-6, equal_nan=True))
        except Exception:
            return False
    if isinstance(a, (list, tuple)) and isinstance(b, (list, tuple)):
        return len(a) == len(b) and all(agree(x, y, depth + 1, why, path + f"[{i}]") for i, (x, y) in enumerate(zip(a, b)))
    if isinstance(a, dict) and isinstance(b, dict):
        return set(a) == set(b) and all(agree(a[k], b[k], depth + 1, why, path + f"[{k!r}]") for k in a)
    if hasattr(a, "__next__") and hasattr(b, "__next__"):  # two one-shot iterators: what each of them still holds
        try:
            return agree(list(copy.copy(a)), list(copy.copy(b)), depth + 1, why, path + " (items still to come)")
        except Exception:
            return False
    try:
        import pandas as pd

        if isinstance(a, pd.DataFrame) and isinstance(b, pd.DataFrame):
            return list(a.columns) == list(b.columns) and all(agree(a[c].to_numpy(), b[c].to_numpy(), depth + 1, why, path + f"[{c!r}]") for c in a.columns)
    except Exception:
        pass
    if type(a) is type(b) and hasattr(a, "__dict__") and not isinstance(a, type):
        da, db = vars(a), vars(b)
        return all(k in db and agree(x, db[k], depth + 1, why, path + "." + k) for k, x in da.items())
    try:
        return bool(a == b)
    except Exception:
        return False


def _real_function(key):
    from .verify import resolve_py

    if "<locals>" in key:
        return None
    _, obj, _ = resolve_py(key)
    if isinstance(obj, (staticmethod, classmethod)):
        obj = obj.__func__
    elif isinstance(obj, property):
        obj = obj.fset if key.endswith("@setter") else obj.fget
    elif hasattr(obj, "func") and type(obj).__name__ == "cached_property":
        obj = obj.func
    return obj if callable(obj) else None


def _call(fn, args, seconds=10, warned=None):
    """(kind, value): ("returned", result) | ("raised", exception) | ("timeout", None); `warned` (a list) receives the messages of
    the warnings the call emits (numpy reports a float division by zero as a RuntimeWarning, not as an exception)"""
    sig = inspect.signature(fn)
    pos, kw = [], {}
    for name, p in sig.parameters.items():
        if p.kind is p.VAR_POSITIONAL:
            pos.extend(args.get(name, ()))
        elif p.kind is p.VAR_KEYWORD:
            kw.update(args.get(name) or {})
        elif name in args:
            if p.kind is p.POSITIONAL_ONLY:
                pos.append(args[name])
            else:
                kw[name] = args[name]

    def on_alarm(signum, frame):
        raise _Timeout()

    old = signal.signal(signal.SIGALRM, on_alarm)
    signal.alarm(seconds)
    try:
        import warnings

        with warnings.catch_warnings(record=warned is not None) as seen:
            warnings.simplefilter("ignore" if warned is None else "always")
            try:
                r = fn(*pos, **kw)
                if inspect.isgenerator(r):
                    r = list(r)
            finally:
                if warned is not None:
                    warned.extend(f"{w.category.__name__}: {w.message}" for w in seen)
        return "returned", r
    except _Timeout:
        return "timeout", None
    except BaseException as e:  # noqa: BLE001 - the real code's exception is the observation
        return "raised", e
    finally:
        signal.alarm(0)
        signal.signal(signal.SIGALRM, old)


def _short(x, n=600):
    try:
        import numpy as np

        with np.printoptions(precision=6, threshold=40, linewidth=200):
            if hasattr(x, "__dict__") and not isinstance(x, type) and type(x).__module__.startswith("swcgeom"):
                s = f"{type(x).__name__}(" + ", ".join(f"{k}={_short(v, 200)}" for k, v in vars(x).items() if k in ("ndata", "comments", "source") or not k.startswith("_")) + ")"
            elif hasattr(x, "__next__") and type(x).__name__.endswith("_iterator"):  # a one-shot iterator: show what it holds
                s = f"iter({list(copy.copy(x))!r})"
            else:
                s = repr(x)
    except Exception:
        s = f"<{type(x).__name__}>"
    return s if len(s) <= n else s[: n - 1] + "…"


def _pack(x):
    try:
        return base64.b64encode(pickle.dumps(x, protocol=4)).decode()
    except Exception:
        return None


def _symbolic_lengths(vals):
    """the symbolic length terms of the sequences among the setup values"""
    out, seen, stack = [], set(), list(vals)
    while stack:
        v = stack.pop()
        if id(v) in seen or v is None or isinstance(v, (bool, int, float, str, Sym)):
            continue
        seen.add(id(v))
        if isinstance(v, (SArr, PList)):
            n = getattr(v, "n", None)
            if isinstance(n, Sym):
                n = n.z
            if isinstance(n, z3.ExprRef) and not z3.is_int_value(n):
                out.append(n)
            if isinstance(v, PList) and v.items is not None:
                stack.extend(v.items)
        elif isinstance(v, PDict) and v.items is not None:
            stack.extend(v.items.values())
        elif isinstance(v, Obj):
            stack.extend(v.fields.values())
        elif isinstance(v, (tuple, list)):
            stack.extend(v)
        elif isinstance(v, dict):
            stack.extend(v.values())
        elif type(v).__name__ == "Iter" and hasattr(v, "seq"):
            stack.append(v.seq)
    return out


def try_replay(ob, timeout_ms=10000):
    """None when the obligation carries no replay context; else a dict with `status` in
    {"reproduced", "differs", "not-concretisable", "no-model", "no-native-function", "not-judged"} and what was run / seen."""
    ctx = getattr(ob, "ctx", None)
    if not ctx or ob.kind not in JUDGED_KINDS:
        return None
    key = ctx.get("key")
    s = z3.Solver()
    s.set("timeout", timeout_ms)
    for h in ob.hyps:
        s.add(h)
    s.add(z3.Not(ob.goal))
    if s.check() != z3.sat:
        return dict(status="no-model", key=key)
    m = s.model()
    lens = _symbolic_lengths(list((ctx.get("params") or {}).values()))
    if lens:  # prefer a model whose sequences of unknown length are short (any counter-model will do; a short one can be rebuilt natively)
        for cap in (4, 16, MAX_LEN):
            s.push()
            s.add(*[z3.And(n >= 0, n <= cap) for n in lens])
            r = s.check()
            if r == z3.sat:
                m = s.model()
            s.pop()
            if r == z3.sat:
                break
    memo = {}
    try:
        args = {k: concretise(v, m, memo) for k, v in (ctx.get("params") or {}).items()}
    except NotConcrete as e:
        return dict(status="not-concretisable", key=key, reason=str(e))
    except Exception as e:  # noqa: BLE001
        return dict(status="not-concretisable", key=key, reason=f"{type(e).__name__}: {e}")
    try:
        fn = _real_function(key)
    except Exception as e:  # noqa: BLE001
        fn = None
    if fn is None:
        return dict(status="no-native-function", key=key)
    try:
        before = copy.deepcopy(args)
    except Exception:
        before = None
    packed = _pack(args)
    shown = {k: _short(v) for k, v in args.items()}
    warned = []
    kind, val = _call(fn, args, warned=warned)
    rec = dict(key=key, variant=ctx.get("variant"), input=shown, input_pickle=packed,
               observed=(f"raised {type(val).__name__}: {val}" if kind == "raised" else "no result within 10 s" if kind == "timeout" else _short(val)))
    label = ob.name.split("/", 2)[-1]
    if "/exc/unexpected-" in ob.name:
        want = ob.name.rsplit("/exc/unexpected-", 1)[1]
        ok = kind == "raised" and want in [c.__name__ for c in type(val).__mro__]
        rec.update(status="reproduced" if ok else "differs", expected=f"no {want} (the contract allows none here)", predicted=f"raises {want}")
        rec["expect"] = dict(raised=want)
        return rec
    if ob.kind == "safety" and "frame" in label:
        changed = before is not None and kind != "timeout" and not agree(before, args)
        rec.update(status="reproduced" if changed else "differs", expected="the arguments are left as they were", predicted="an argument is written")
        if changed:
            rec["observed"] = "arguments after the call: " + _short({k: v for k, v in args.items() if before is not None and not agree(before[k], v)})
        rec["expect"] = dict(mutates=True)
        return rec
    if ob.kind == "safety" and label.split("/")[-1].startswith("div-nonzero"):
        # a zero divisor: Python raises ZeroDivisionError, numpy emits `RuntimeWarning: divide by zero / invalid value encountered in divide`
        rec.update(status="reproduced" if _divided_by_zero(kind, val, warned) else "differs", expected="no division by zero", predicted="a divisor is zero")
        if warned:
            rec["observed"] += "   [" + "; ".join(sorted(set(warned)))[:300] + "]"
        rec["expect"] = dict(div_by_zero=True)
        return rec
    if ob.kind == "postcondition" and "result" in ctx and "/post/" in ob.name:
        if kind != "returned":
            rec.update(status="differs", predicted="returns normally")
            return rec
        try:
            pred = concretise(ctx["result"], m, memo)
            post = {k: concretise(v, m, {}) for k, v in (ctx.get("live") or {}).items() if k in args}  # the ARGUMENT objects as the path leaves them
        except NotConcrete as e:
            rec.update(status="not-concretisable", reason="predicted result: " + str(e))
            return rec
        except Exception as e:  # noqa: BLE001
            rec.update(status="not-concretisable", reason=f"predicted result: {type(e).__name__}: {e}")
            return rec
        why = []
        same = agree(pred, val, why=why, path="result") and all(agree(post[k], args[k], why=why, path=f"argument {k} after the call") for k in post)
        if why:
            rec["difference"] = why[0]
        rec.update(status="reproduced" if same else "differs", predicted=_short(pred),
                   expected=f"clause `{label}` (false for this input and this result)")
        rec["expect"] = dict(result_pickle=_pack(pred))
        return rec
    rec.update(status="not-judged")
    return rec


def _divided_by_zero(kind, val, warned):
    if kind == "raised":
        return isinstance(val, (ZeroDivisionError, FloatingPointError))
    return any("RuntimeWarning" in w and "divide" in w for w in warned)


def rerun(fi):
    """--replay of a recorded counter-model: True when the real code NO LONGER shows the recorded behaviour"""
    rp = fi.get("replay") or {}
    args = pickle.loads(base64.b64decode(rp["input_pickle"]))
    fn = _real_function(rp["key"])
    if fn is None:
        print("real function not found:", rp["key"])
        return False
    try:
        before = copy.deepcopy(args)
    except Exception:
        before = None
    warned = []
    kind, val = _call(fn, args, warned=warned)
    print("real code:", f"raised {type(val).__name__}: {val}" if kind == "raised" else _short(val))
    ex = rp.get("expect") or {}
    if ex.get("div_by_zero"):
        return not _divided_by_zero(kind, val, warned)
    if "raised" in ex:
        return not (kind == "raised" and ex["raised"] in [c.__name__ for c in type(val).__mro__])
    if ex.get("mutates"):
        return not (before is not None and not agree(before, args))
    if ex.get("result_pickle"):
        pred = pickle.loads(base64.b64decode(ex["result_pickle"]))
        return not (kind == "returned" and agree(pred, val))
    return True
