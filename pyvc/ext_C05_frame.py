"""C05 (fourth session): whole-table operations of pandas frames with DTYPE-FAITHFUL casts.

A rewrite of `sort_nodes_` that permutes the table in one step (`df[:] = df.to_numpy()[indices]`, `df.iloc[indices]`, `df.take`,
`df.reindex`, `df.loc[indices]` ...) goes through ONE array of the frame's common dtype, or through index labels.  The stock frame
model (columns of mathematical ints / reals) cannot say what that does to the values; this module can:

* every column has a numpy dtype (`SArr.dtype`, default by kind: int64 / float64 / bool; `object` columns are modelled by an injective
  integer id per value);
* `df.to_numpy()` / `df.values` is a `FrameArr` of the common dtype (asked of pandas itself: an empty frame with the same dtypes), its
  columns are the frame's columns pushed through `cast_<src>_<dst>`;
* `cast_<src>_<dst>` is an UNINTERPRETED function with the axioms listed in `CAST_AXIOMS` (int -> float is value-preserving only for
  |v| <= 2**53 (float64) / 2**24 (float32) and always integer-valued; float -> int truncates; int -> int keeps values inside the target
  range; float32 <-> float64: widening then narrowing is the identity; boxing into `object` is exact) -- so int64 -> float64 -> int64
  is the identity ONLY for |v| <= 2**53, and a proof that needs more fails with a counter-model;
* `df[:] = values` / `df.iloc[:] = ...` / `df.loc[:, :] = ...` stores column by column as pandas 3 does: a column keeps its dtype when
  `np_can_hold_element` accepts the values (float -> int: all integer-valued), otherwise pandas raises TypeError (a fork);
* `df.iloc[idx]`, `df.take(idx)`, `df.loc[idx]`, `df.reindex(idx)` keep every dtype and carry the index LABELS of the rows they took;
  `reset_index(drop=True)` gives the default RangeIndex back; storing a Series / column whose labels are not the default index into a
  frame ALIGNS on the labels (`df[c] = df[c][indices]` without `.to_numpy()` is the identity!).

Everything is listed under trusted_base (`pandas-model(C05): ...`, `dtype-cast-model: ...`) and cross-checked against numpy / pandas
by tools/xcheck_ext_C05.py.  Reached only through `models=ext_C05.MODELS` and frames built with `ext_C05_frame.DFrame`.
"""
from __future__ import annotations

import numpy as np
import z3

from . import ext_C18, models, npmodels
from .engine import ProgExc, Unsupported
from .values import NArr, NativeMethod, PList, SArr, Sym, fresh_name, next_uid, snapshot, sort_of, to_z3, zint

I = z3.IntSort()
OBJ = np.dtype(object)
FRAME = ("pandas-model(C05): columns carry numpy dtypes; DataFrame.to_numpy() / .values is one array of the frame's common dtype "
         "(pandas' own interleaving rule) whose columns are the frame's columns cast to it; df[:] = values / df.iloc[:] = / df.loc[:, :] = "
         "store column by column, a column keeps its dtype iff np_can_hold_element accepts the values (float -> int: all integer-valued), "
         "otherwise pandas raises TypeError; iloc / take / loc / reindex with an index array copy the rows positionally (default RangeIndex) "
         "keeping dtypes and carrying the row labels; reset_index(drop=True) restores the default index")
ALIGN = ("pandas-model(C05): storing a Series / frame column whose index is not the default RangeIndex into a frame with the default "
         "index aligns on the labels: row labels[p] receives value p (labels pairwise distinct; rows no label names are left open)")
CAST_AXIOMS = {
    "int->float": "cast_<int>_<float>(v) is integer-valued, and equals v for |v| <= 2**mantissa (2**53 float64, 2**24 float32); nothing else is known",
    "float->int": "cast_<float>_<int>(r) = r truncated toward zero when that lies in the target range",
    "int->int": "cast_<int>_<int>(v) = v when v lies in the target range; in general the value of the target range congruent to v modulo 2**bits "
               "(numpy / pandas astype between integer dtypes wraps silently)",
    "float->float": "narrow(widen(v)) = v and fits_<narrow>(widen(v)); nothing else is known about widen / narrow",
    "bool": "cast_bool_<num>(b) = 1 if b else 0; cast_<num>_bool(v) = (v != 0)",
    "object": "boxing into / unboxing from an object array keeps the value exactly",
}


def used(eng, s):
    eng.assumptions.add(s)


def _rng(t, n):
    return z3.And(t >= 0, t < n)


# =========================================================================== dtypes and casts
def dtype_of(col):
    if getattr(col, "dtype", None) is not None:
        try:
            return np.dtype(col.dtype)
        except TypeError:
            return OBJ
    return {"int": np.dtype("int64"), "real": np.dtype("float64"), "bool": np.dtype("bool")}.get(col.kind, OBJ)


def kind_of_dt(dt, boxed_kind=None):
    if dt.kind in "iu":
        return "int"
    if dt.kind == "f":
        return "real"
    if dt.kind == "b":
        return "bool"
    return boxed_kind or "int"


def common_dtype(dts):
    """what DataFrame.to_numpy() of a frame with these column dtypes returns -- asked of pandas (an empty frame interleaves its blocks
    exactly like a populated one)"""
    import pandas as pd

    dts = [np.dtype(d) for d in dts]
    if not dts:
        return np.dtype("float64")
    return pd.DataFrame({k: np.empty(0, dtype=d) for k, d in enumerate(dts)}).to_numpy().dtype


def _int_range(dt):
    ii = np.iinfo(dt)
    return int(ii.min), int(ii.max)


def _mant(dt):
    return {2: 11, 4: 24, 8: 53}[dt.itemsize]


def cast_fn(eng, src, dst):
    """the uninterpreted function cast_<src>_<dst> with its axioms (assumed once per path)"""
    src, dst = np.dtype(src), np.dtype(dst)
    key = ("dtype-cast", src.str, dst.str)
    hit = eng.ghost.get(key)
    if hit is not None:
        return hit
    if src.kind not in "iufb" or dst.kind not in "iufb" or (src.kind == "f" and src.itemsize < 4) or (dst.kind == "f" and dst.itemsize < 4):
        raise Unsupported(f"cast {src} -> {dst}")
    ks, kd = kind_of_dt(src), kind_of_dt(dst)
    f = z3.Function(f"cast_{src.name}_{dst.name}", sort_of(ks), sort_of(kd))
    eng.ghost[key] = f
    v = z3.Const(fresh_name("cv"), sort_of(ks))
    ax, fam = [], None
    if src.kind == "b":
        fam = "bool"
        ax.append(f(v) == (z3.If(v, z3.IntVal(1), z3.IntVal(0)) if kd == "int" else z3.If(v, z3.RealVal(1), z3.RealVal(0))))
    elif dst.kind == "b":
        fam = "bool"
        ax.append(f(v) == (v != 0))
    elif ks == "int" and kd == "int":
        fam = "int->int"
        lo, hi = _int_range(dst)
        ax.append(z3.Implies(z3.And(v >= lo, v <= hi), f(v) == v))
        ax.append(f(v) == lo + (v - lo) % (hi - lo + 1))  # C conversion: the representative of v modulo 2**bits in [lo, hi]
    elif ks == "int" and kd == "real":
        fam = "int->float"
        m = 2 ** _mant(dst)
        ax.append(z3.And(z3.IsInt(f(v)), z3.Implies(z3.And(v >= -m, v <= m), f(v) == z3.ToReal(v))))
    elif ks == "real" and kd == "int":
        fam = "float->int"
        lo, hi = _int_range(dst)
        tr = z3.If(v >= 0, z3.ToInt(v), -z3.ToInt(-v))
        ax.append(z3.Implies(z3.And(tr >= lo, tr <= hi), f(v) == tr))
    else:
        fam = "float->float"
        if src.itemsize < dst.itemsize:  # widening: bring the narrowing partner and the round trip
            g = cast_fn(eng, dst, src)
            fits = _fits(dst, src)
            ax.append(z3.And(g(f(v)) == v, fits(f(v))))
        else:
            cast_fn(eng, dst, src)  # the widening partner states the round trip
    used(eng, f"dtype-cast-model: cast_{src.name}_{dst.name} is an uninterpreted function; {fam}: {CAST_AXIOMS[fam]}")
    for a in ax:
        q = z3.ForAll([v], a, patterns=[f(v)])
        eng.ghost.setdefault("dtype-cast-axioms", []).append(q)
        eng.assume(q)
    return f


def _fits(wide, narrow):
    return z3.Function(f"fits_{narrow.name}", sort_of(kind_of_dt(wide)), z3.BoolSort())


def cast_col(eng, col, dst):
    """astype of a column: SArr of dtype dst (kind by dtype) whose element i is cast_<src>_<dst>(col[i])"""
    src, dst = dtype_of(col), np.dtype(dst)
    if src == dst:
        return SArr(col.arr, col.n, col.kind, name=col.name, dtype=dst)
    if dst == OBJ or src == OBJ:
        # boxing / unboxing keeps the value (and its z3 sort): the column remembers what it holds
        used(eng, "dtype-cast-model: object: " + CAST_AXIOMS["object"])
        out = SArr(col.arr, col.n, col.kind, name=col.name, dtype=dst)
        out.boxed = getattr(col, "boxed", src) if dst == OBJ else None
        return out
    f = cast_fn(eng, src, dst)
    j = z3.Int(fresh_name("ci"))
    return SArr(z3.Lambda([j], f(z3.Select(col.arr, j))), col.n, kind_of_dt(dst), name=col.name, dtype=dst)


def can_hold(eng, val, dst):
    """pandas.core.dtypes.cast.np_can_hold_element(dst, values): the condition under which a column of dtype dst takes the values and
    keeps its dtype (z3 Bool); None = never (always LossySetitemError)"""
    src, dst = dtype_of(val), np.dtype(dst)
    n = val.nz()
    j = z3.Int(fresh_name("hj"))
    e = z3.Select(val.arr, j)
    allj = lambda body: z3.ForAll([j], z3.Implies(_rng(j, n), body))
    if src == dst or dst == OBJ:
        return z3.BoolVal(True)
    if src == OBJ:
        b = getattr(val, "boxed", None)
        if dst.kind == "u":
            raise Unsupported("python ints out of an object array into an unsigned column (pandas refuses some of them)")
        return z3.BoolVal(True) if b is not None and np.dtype(b) == dst else None
    if dst.kind in "iu":
        lo, hi = _int_range(dst)
        # (the RANGE half of pandas' test -- `casted == element` also fails on overflow -- is not modelled: integers are mathematical
        # integers throughout this project; a value outside the target range is then governed by the cast axioms, which say nothing)
        if src.kind in "iu":
            return z3.BoolVal(True)
        if src.kind == "f":
            return allj(z3.IsInt(e))
        return None
    if dst.kind == "f":
        if src.kind in "iu":
            return z3.BoolVal(True)  # `casted == element` compares in floating point: always equal
        if src.kind == "f":
            if src.itemsize <= dst.itemsize:
                return z3.BoolVal(True)
            return allj(_fits(src, dst)(e))
        return None
    if dst.kind == "b":
        return None
    raise Unsupported(f"setitem of {src} values into a {dst} column")


def _decide(eng, cond):
    """fork on a (quantified) condition; a condition that the cast axioms alone (a subset of the path condition) already imply does
    not fork"""
    if cond is None:
        return False
    c = z3.simplify(cond)
    if z3.is_true(c):
        return True
    if z3.is_false(c):
        return False
    s = z3.Solver()
    s.set("timeout", 2000)
    for h in eng.ghost.get("dtype-cast-axioms", []):
        s.add(h)
    s.add(z3.Not(c))
    if s.check() == z3.unsat:
        return True
    return eng.branch(eng.sbool(c))


def store_into(eng, val, dst, what):
    """the column a frame column of dtype dst becomes when `val` is stored over ALL its rows"""
    src = dtype_of(val)
    if src == np.dtype(dst):
        return SArr(val.arr, val.n, val.kind, name=val.name, dtype=np.dtype(dst))
    if eng.spec_mode:
        raise Unsupported("frame store inside a specification clause")
    if not _decide(eng, can_hold(eng, val, dst)):
        raise ProgExc(TypeError, f"Invalid value for dtype '{np.dtype(dst)}' ({what}: pandas refuses a lossy whole-column store)")
    return cast_col(eng, val, dst)


def needs_cast(src, dst):
    """does astype(src -> dst) possibly change a VALUE under the project convention (floats are reals, so float -> float never does;
    bool / object are left to the stock models)?  int -> narrower / differently signed int, int -> float, float -> int do."""
    src, dst = np.dtype(src), np.dtype(dst)
    if src == dst or src.kind not in "iuf" or dst.kind not in "iuf":
        return False
    if src.kind == "f" and dst.kind == "f":
        return False
    if src.kind in "iu" and dst.kind in "iu":
        (a, b), (c, d) = _int_range(src), _int_range(dst)
        return not (c <= a and b <= d)
    if src.kind in "iu" and dst.kind == "f":
        a, b = _int_range(src)
        m = 2 ** _mant(dst)
        return not (-m <= a and b <= m)
    return True


def array_astype(eng, col, dt):
    """dtype-faithful `astype` / `np.array(.., dtype)` / `np.asarray(.., dtype)` of a 1-D symbolic array, or None when the stock model
    (same values, new dtype recorded) is exact for this pair of dtypes"""
    try:
        dst = np.dtype(dt)
    except TypeError:
        return None
    if not needs_cast(dtype_of(col), dst):
        return None
    return cast_col(eng, col, dst)


def frame_astype(eng, df, args, kwargs):
    """DataFrame.astype(dtype | {column: dtype}[, copy=]): a NEW frame; every named column (all of them for one dtype) is pushed through
    the dtype-faithful cast, the others keep values and dtype; a name that is no column is a KeyError (pandas)"""
    spec = args[0] if args else kwargs.get("dtype")
    if len(args) > 1 or set(kwargs) - {"dtype", "copy"} or spec is None:
        raise Unsupported("DataFrame.astype form")
    used(eng, "pandas-model: DataFrame.astype(dtype | {column: dtype}) returns a new frame whose named columns are cast element by element "
              "(dtype-cast-model), the other columns unchanged; unknown column names raise KeyError")
    items = getattr(spec, "items", None)
    if isinstance(items, dict):
        want = {}
        for k, d in items.items():
            if not isinstance(k, str):
                raise Unsupported("DataFrame.astype with a non-string column key")
            if k not in df.cols:
                raise ProgExc(KeyError, f"Only a column name can be used for the key in a dtype mappings argument. {k!r} not found in columns.")
            want[k] = d
    elif isinstance(spec, dict):
        want = dict(spec)
    else:
        want = {k: spec for k in df.cols}
    m = df.__pyvc_getattr__(eng, "copy")
    out = m.model(eng, m.recv, [], {}) if isinstance(m, NativeMethod) else None
    if out is None or out is df:
        raise Unsupported("DataFrame.astype on this frame model")
    for k, d in want.items():
        try:
            dst = np.dtype(d)
        except TypeError:
            raise Unsupported(f"DataFrame.astype to {d!r}")
        c = df.cols[k]
        if dtype_of(c) == OBJ or dst == OBJ or dst.kind not in "iufb" or dtype_of(c).kind not in "iufb":
            raise Unsupported(f"DataFrame.astype {dtype_of(c)} -> {dst}")
        if dtype_of(c).kind == "f" and dst.kind == "u" and not eng.spec_mode:
            # pandas (astype_float_to_int_nansafe) refuses a negative value for an unsigned target; numpy's own astype does not
            j = z3.Int(fresh_name("aj"))
            if not eng.branch(eng.sbool(z3.ForAll([j], z3.Implies(_rng(j, zint(c.n)), z3.Select(c.arr, j) >= 0)))):
                raise ProgExc(ValueError, f"Cannot losslessly cast from {dtype_of(c)} to {dst}")
        new = cast_col(eng, c, dst) if needs_cast(dtype_of(c), dst) or kind_of_dt(dst) != c.kind else SArr(c.arr, c.n, c.kind, name=k, dtype=dst)
        new.name = k
        out.cols[k] = new
    return out


# =========================================================================== 2-D array made of a frame
class FrameArr:
    """(n, k) ndarray with symbolic n and k concrete columns, all of ONE dtype (object: every column keeps the sort of what it boxes)"""

    def __init__(self, cols, n, dtype):
        self.cols, self.n, self.dtype = list(cols), n, np.dtype(dtype)
        self.uid = next_uid()
        self.frozen = False

    def nz(self):
        return zint(self.n)

    @property
    def k(self):
        return len(self.cols)

    def __pyvc_snapshot__(self, memo):
        c = FrameArr([snapshot(a, memo) for a in self.cols], self.n, self.dtype)
        c.uid = self.uid
        return c

    def __pyvc_isinstance__(self, cls):
        return cls is np.ndarray

    def rows(self, eng, idx):
        idx = as_index(idx)
        if idx is None:
            raise Unsupported("row selection of a 2-D array by this kind of index")
        if idx.kind == "bool":
            raise Unsupported("boolean row selection of a 2-D array")
        bounds_ok(eng, idx, self.nz(), "gather-in-bounds")
        return FrameArr([gather(c, idx) for c in self.cols], idx.n, self.dtype)

    def __pyvc_getitem__(self, eng, idx):
        used(eng, FRAME)
        if isinstance(idx, tuple) and len(idx) == 2:
            r, c = idx
            if isinstance(c, slice) and c == slice(None):
                return self if isinstance(r, slice) and r == slice(None) else self.__pyvc_getitem__(eng, r)
            if isinstance(c, int) and not isinstance(c, bool):
                if not -self.k <= c < self.k:
                    raise ProgExc(IndexError, "column index out of bounds")
                col = self.cols[c]
                if isinstance(r, slice) and r == slice(None):
                    return _plain(col)
                if as_index(r) is not None:
                    return _plain(gather(col, checked(eng, as_index(r), self.nz())))
                return Sym(z3.Select(col.arr, models.norm_index(eng, r, self.n, "row index")), col.kind)
            raise Unsupported("index form on a 2-D frame array")
        if isinstance(idx, slice):
            if idx == slice(None):
                return self
            raise Unsupported("row slice of a 2-D frame array")
        if as_index(idx) is not None:
            return self.rows(eng, idx)
        if isinstance(idx, (int, Sym)):
            kinds = {c.kind for c in self.cols}
            if len(kinds) != 1:
                raise Unsupported("one row of an object array")
            iz = models.norm_index(eng, idx, self.n, "row index")
            return NArr((self.k,), [Sym(z3.Select(c.arr, iz), c.kind) for c in self.cols], kinds.pop(), self.dtype)
        raise Unsupported("index form on a 2-D frame array")

    def __pyvc_getattr__(self, eng, name):
        if name == "shape":
            return (eng.snum(self.nz(), "int"), self.k)
        if name == "ndim":
            return 2
        if name == "dtype":
            return self.dtype
        if name == "copy":
            return NativeMethod(lambda e, r, a, k: FrameArr([_plain(c) for c in r.cols], r.n, r.dtype), self, name)
        if name == "take":
            return NativeMethod(lambda e, r, a, k: np_take(e, [r] + list(a), k), self, name)
        if name == "astype":
            return NativeMethod(_fa_astype, self, name)
        raise Unsupported(f"attribute {name} of a 2-D frame array")


def _fa_astype(eng, recv, args, kwargs):
    if len(args) != 1 or {k for k in kwargs if k != "copy"}:
        raise Unsupported("astype options")
    dst = np.dtype(args[0])
    return FrameArr([cast_col(eng, c, dst) for c in recv.cols], recv.n, dst)


def _plain(c):
    out = SArr(c.arr, c.n, c.kind, name=c.name, dtype=c.dtype)
    if getattr(c, "boxed", None) is not None:
        out.boxed = c.boxed
    return out


def as_index(v):
    """an index ARRAY (SArr / symbolic-length list of ints / Series): its plain SArr, else None"""
    if isinstance(v, SArr) and v.kind in ("int", "bool"):
        return v
    if isinstance(v, PList) and v.items is None and len(v.cols) == 1 and not v.tup and v.kinds[0] == "int":
        return SArr(v.cols[0], v.n, "int", name="idxlist")
    return None


def bounds_ok(eng, idx, n, what):
    if eng.spec_mode:
        return
    j = z3.Int(fresh_name("gj"))
    g = z3.ForAll([j], z3.Implies(_rng(j, idx.nz()), _rng(z3.Select(idx.arr, j), n)))
    eng.prove(eng.site(what), g, "safety", "positional take: an index out of bounds raises IndexError")


def checked(eng, idx, n):
    bounds_ok(eng, idx, n, "gather-in-bounds")
    return idx


def gather(col, idx):
    j = z3.Int(fresh_name("gi"))
    out = SArr(z3.Lambda([j], z3.Select(col.arr, z3.Select(idx.arr, j))), idx.n, col.kind, name=col.name, dtype=col.dtype)
    if getattr(col, "boxed", None) is not None:
        out.boxed = col.boxed
    return out


def np_take(eng, args, kwargs):
    """np.take(a, idx, axis=0) / a.take(idx, axis=0) on a frame array; np.take(1-D array, idx)"""
    names = ["a", "indices", "axis"]
    b = dict(zip(names, args))
    for k, v in kwargs.items():
        if k not in names or k in b:
            raise Unsupported(f"np.take argument {k}")
        b[k] = v
    a, idx = b.get("a"), as_index(b.get("indices"))
    if isinstance(a, FrameArr) and idx is not None and b.get("axis") == 0:
        return a.rows(eng, idx)
    if isinstance(a, SArr) and idx is not None and idx.kind == "int" and b.get("axis") in (None, 0, -1):
        used(eng, "numpy-model:np.take(1-D array, index array) is a[index array]")
        return npmodels.getitem(eng, _plain(a), idx)
    prev = models.lookup_model(np.take)
    if prev is None:
        raise Unsupported("np.take on these operands")
    return prev(eng, args, kwargs)


# =========================================================================== Series / frame
class Series5(ext_C18.Series18):
    """a column handed out by a frame: values + index labels (`index` None = the default RangeIndex)"""

    index = None

    @staticmethod
    def of(col, index=None, name=None):
        s = Series5(col.arr, col.n, col.kind, name=name or col.name, dtype=col.dtype)
        s.index = index
        if getattr(col, "boxed", None) is not None:
            s.boxed = col.boxed
        return s

    def __pyvc_getitem__(self, eng, idx):
        ix = as_index(idx)
        if ix is not None and ix.kind == "int":
            # Series[array of labels]: label-based; with the default index labels are positions (a label that is missing: KeyError)
            if self.index is not None:
                raise Unsupported("label lookup in a Series whose index is not the default RangeIndex")
            used(eng, FRAME)
            bounds_ok(eng, ix, self.nz(), "gather-in-bounds")
            return Series5.of(gather(self, ix), index=_plain(ix))
        if self.index is not None:
            raise Unsupported("subscript of a Series whose index is not the default RangeIndex")
        return npmodels.getitem(eng, _plain(self), idx)

    def __pyvc_getattr__(self, eng, name):
        if name in ("to_numpy", "copy") or name == "values" or name == "array":
            if name in ("values", "array"):
                return _plain(self)
            if name == "copy":
                return NativeMethod(lambda e, r, a, k: Series5.of(_plain(r), r.index), self, name)
            return NativeMethod(lambda e, r, a, k: _plain(r), self, name)
        if name == "iloc":
            return _SILoc(self)
        if name == "loc":
            if self.index is not None:
                raise Unsupported("Series.loc with a non-default index")
            return _SILoc(self)
        if name == "take":
            return NativeMethod(lambda e, r, a, k: _SILoc(r).__pyvc_getitem__(e, a[0]), self, name)
        if name == "reset_index":
            return NativeMethod(_s_reset_index, self, name)
        if name == "index":
            return self.index if self.index is not None else SArr(npmodels.lam(lambda i: i, "int"), self.n, "int", name="RangeIndex")
        if name in ("map", "replace"):
            return NativeMethod(_s_map(name), self, name)
        if name == "astype":
            return NativeMethod(lambda e, r, a, k: Series5.of(cast_col(e, r, np.dtype(a[0])), r.index), self, name)
        if self.index is not None:
            raise Unsupported(f"Series.{name} with a non-default index")
        return eng.models.method_of(eng, self, name)


class _SILoc:
    def __init__(self, s):
        self.s = s

    def __pyvc_getitem__(self, eng, idx):
        ix = as_index(idx)
        s = self.s
        if ix is not None and ix.kind == "int":
            used(eng, FRAME)
            bounds_ok(eng, ix, s.nz(), "gather-in-bounds")
            labels = _plain(ix) if s.index is None else gather(s.index, ix)
            return Series5.of(gather(s, ix), index=labels)
        return npmodels.getitem(eng, _plain(s), idx)


def _s_reset_index(eng, recv, args, kwargs):
    if args or kwargs.get("drop") is not True or set(kwargs) - {"drop"}:
        raise Unsupported("Series.reset_index without drop=True")
    return Series5.of(_plain(recv), None)


def _s_map(which):
    def model(eng, recv, args, kwargs):
        """Series.map(dict) / Series.replace(dict) with an {int: int} mapping: map -> a key that is missing gives NaN (the column turns
        float): every value must be a key (obligation); replace -> a value that is no key stays"""
        from .values import PDict

        if len(args) != 1 or kwargs or not isinstance(args[0], PDict) or recv.kind != "int":
            raise Unsupported(f"Series.{which} with this argument")
        d = args[0]
        if d.items is not None:
            raise Unsupported(f"Series.{which} with a concrete dict")
        if d.vkind != "int":
            raise Unsupported(f"Series.{which} with a non-integer mapping")
        used(eng, f"pandas-model(C05): Series.{which}(dict of ints): element-wise lookup" + (" (every value must be a key: a miss is NaN)" if which == "map" else " (a value that is no key is kept)"))
        j = z3.Int(fresh_name("mj"))
        e = z3.Select(recv.arr, j)
        if which == "map":
            if not eng.spec_mode:
                eng.prove(eng.site("map-covers-every-value"), z3.ForAll([j], z3.Implies(_rng(j, recv.nz()), z3.Select(d.dom, e))), "safety",
                          "Series.map: a value that is not a key becomes NaN")
            body = z3.Select(d.val, e)
        else:
            body = z3.If(z3.Select(d.dom, e), z3.Select(d.val, e), e)
        return Series5.of(SArr(z3.Lambda([j], body), recv.n, "int", name=recv.name, dtype=recv.dtype), recv.index)

    return model


def aligned(eng, val, labels, n, what):
    """values stored by label into n rows with the default index: row labels[p] gets val[p]"""
    used(eng, ALIGN)
    out = SArr.fresh(val.kind, n, name="aligned", dtype=val.dtype)
    p, q = z3.Int(fresh_name("ap")), z3.Int(fresh_name("aq"))
    m = val.nz()
    lab = lambda t: z3.Select(labels.arr, t)
    distinct = z3.ForAll([p, q], z3.Implies(z3.And(_rng(p, m), _rng(q, m), p != q), lab(p) != lab(q)))
    eng.assume(z3.Implies(distinct, z3.ForAll([p], z3.Implies(z3.And(_rng(p, m), _rng(lab(p), zint(n))), z3.Select(out.arr, lab(p)) == z3.Select(val.arr, p)),
                                              patterns=[lab(p)])))
    return out


class _ILoc5:
    """df.iloc / df.loc (frames with the default index: labels are positions)"""

    def __init__(self, df, by_label):
        self.df, self.by_label = df, by_label

    def _stock(self):
        return ext_C18._Loc18(self.df)

    def __pyvc_getitem__(self, eng, key):
        df = self.df
        if isinstance(key, tuple) and len(key) == 2 and isinstance(key[1], slice) and key[1] == slice(None):
            key = key[0]
        ix = as_index(key)
        if ix is not None and ix.kind == "int":
            if self.by_label and df.index is not None:
                raise Unsupported("df.loc[labels] on a frame whose index is not the default RangeIndex")
            return df.take_rows(eng, ix)
        if isinstance(key, slice) and key == slice(None):
            return df.clone()
        return self._stock().__pyvc_getitem__(eng, key)

    def __pyvc_setitem__(self, eng, key, val):
        full = lambda k: isinstance(k, slice) and k == slice(None)
        if full(key) or (isinstance(key, tuple) and len(key) == 2 and full(key[0]) and full(key[1])):
            if self.by_label and isinstance(val, DFrame):
                return self.df.store_all(eng, val, align=True)
            return self.df.store_all(eng, val)
        if isinstance(key, tuple) and len(key) == 2 and full(key[0]) and isinstance(key[1], str) and isinstance(val, SArr):
            return self.df.__pyvc_setitem__(eng, key[1], val)
        return self._stock().__pyvc_setitem__(eng, key, val)


class DFrame(ext_C18.DFrame):
    """frame with dtypes, index labels and whole-table operations (class name `DFrame`: the engine recognises frames by it)"""

    index = None  # None = default RangeIndex, else an SArr of int labels

    def _like(self, cols, n, index=None):
        f = DFrame(cols, n)
        f.index = index
        return f

    def clone(self):
        return self._like({c: _plain(v) for c, v in self.cols.items()}, self.n, self.index)

    def __pyvc_snapshot__(self, memo):
        c = DFrame({k: snapshot(v, memo) for k, v in self.cols.items()}, self.n)
        c.uid, c.frozen_cols, c.index, c.frozen = self.uid, self.frozen_cols, self.index, self.frozen
        return c

    def take_rows(self, eng, ix):
        used(eng, FRAME)
        bounds_ok(eng, ix, zint(self.n), "gather-in-bounds")
        labels = _plain(ix) if self.index is None else gather(self.index, ix)
        return self._like({c: gather(v, ix) for c, v in self.cols.items()}, ix.n, labels)

    def to_array(self, eng):
        used(eng, FRAME)
        dt = common_dtype([dtype_of(c) for c in self.cols.values()])
        return FrameArr([cast_col(eng, SArr(c.arr, self.n, c.kind, name=k, dtype=dtype_of(c)), dt) for k, c in self.cols.items()], self.n, dt)

    def store_all(self, eng, val, align=False):
        """df[:] = val / df.iloc[:] = val / df.loc[:, :] = val"""
        models.check_frame(eng, self)
        used(eng, FRAME)
        for c in self.cols:
            self.check_column_frame(eng, c)
        if self.index is not None:
            raise Unsupported("whole-table store into a frame whose index is not the default RangeIndex")
        if isinstance(val, npmodels.S2Arr) and not val.transposed:
            val = FrameArr([SArr(c, val.n, val.kind) for c in val.cols], val.n, npmodels.dtype_of_kind(val.kind))
        if isinstance(val, DFrame):
            if list(val.cols) != list(self.cols) and align:
                raise Unsupported("label-aligned store of a frame with other columns")
            src = [_plain(c) for c in val.cols.values()]
            labels = val.index
        elif isinstance(val, FrameArr):
            src, labels = val.cols, None
        else:
            raise Unsupported("whole-table store of this value")
        if len(src) != len(self.cols):
            raise ProgExc(ValueError, "Must have equal len keys and value when setting with an ndarray")
        n = zint(self.n)
        rows = z3.simplify(zint(val.n) == n)
        if not z3.is_true(rows) and not eng.spec_mode:
            eng.prove(eng.site("shape-match"), rows, "shape", "whole-table store: as many rows as the frame has")
        new = {}
        for (name, old), s in zip(self.cols.items(), src):
            s = SArr(s.arr, self.n, s.kind, name=name, dtype=dtype_of(s)) if getattr(s, "boxed", None) is None else _renamed(s, self.n, name)
            if align and labels is not None:
                s = aligned(eng, s, labels, self.n, name)
            new[name] = store_into(eng, s, dtype_of(old), name)
        self.cols.update(new)

    def __pyvc_getitem__(self, eng, key):
        if isinstance(key, str):
            if key not in self.cols:
                raise ProgExc(KeyError, key)
            eng.assumptions.add("pandas-model:DataFrame with default RangeIndex; df[col] is the column's values")
            return Series5.of(self.cols[key], self.index, name=key)
        if isinstance(key, PList) and key.items is not None and all(isinstance(k, str) for k in key.items):
            sub = ext_C18.DFrame.__pyvc_getitem__(self, eng, key)
            return self._like(sub.cols, self.n, self.index)
        if isinstance(key, slice) and key == slice(None):
            return self.clone()
        if self.index is not None:
            raise Unsupported("row selection on a frame whose index is not the default RangeIndex")
        return ext_C18.DFrame.__pyvc_getitem__(self, eng, key)

    def __pyvc_setitem__(self, eng, key, val):
        if isinstance(key, slice):
            if key != slice(None):
                raise Unsupported("partial row-slice store into a frame")
            return self.store_all(eng, val)
        if isinstance(key, PList) and key.items is not None and all(isinstance(k, str) for k in key.items) and isinstance(val, (FrameArr, DFrame)):
            # df[[c1, c2, ...]] = 2-D values: every named column is REPLACED (it takes the dtype of the values)
            used(eng, FRAME + "; df[list of columns] = 2-D values replaces the columns")
            src = val.cols if isinstance(val, FrameArr) else list(val.cols.values())
            if isinstance(val, DFrame) and val.index is not None:
                raise Unsupported("df[list of columns] = frame with a non-default index (aligned)")
            if len(src) != len(key.items):
                raise ProgExc(ValueError, "Columns must be same length as key")
            for k, s in zip(key.items, src):
                ext_C18.DFrame.__pyvc_setitem__(self, eng, k, _plain(s))
            return
        if isinstance(key, str) and isinstance(val, Series5) and val.index is not None:
            if self.index is not None:
                raise Unsupported("column store between two frames with non-default indices")
            val = aligned(eng, _plain(val), val.index, self.n, key)
        if isinstance(key, str) and isinstance(val, SArr) and val.dtype is None and key in self.cols and val.kind == self.cols[key].kind:
            # a column REPLACED by an array of unrecorded width keeps the dtype annotation of its kind's default
            pass
        return ext_C18.DFrame.__pyvc_setitem__(self, eng, key, val)

    def __pyvc_getattr__(self, eng, name):
        if name in ("iloc", "loc"):
            return _ILoc5(self, name == "loc")
        if name == "to_numpy":
            return NativeMethod(_df_to_numpy, self, name)
        if name == "values":
            return self.to_array(eng)
        if name == "copy":
            return NativeMethod(lambda e, r, a, k: r.clone(), self, name)
        if name == "take":
            return NativeMethod(_df_take, self, name)
        if name == "reindex":
            return NativeMethod(_df_reindex, self, name)
        if name == "reset_index":
            return NativeMethod(_df_reset_index, self, name)
        if name == "index":
            return self.index if self.index is not None else SArr(npmodels.lam(lambda i: i, "int"), self.n, "int", name="RangeIndex")
        if name == "dtypes":
            return PList([dtype_of(c) for c in self.cols.values()])
        if name == "__len__":
            return NativeMethod(lambda e, r, a, k: e.snum(zint(r.n), "int"), self, name)
        return ext_C18.DFrame.__pyvc_getattr__(self, eng, name)


def _renamed(s, n, name):
    out = SArr(s.arr, n, s.kind, name=name, dtype=s.dtype)
    out.boxed = s.boxed
    return out


def _df_to_numpy(eng, recv, args, kwargs):
    if args or set(kwargs) - {"copy"}:
        if len(args) == 1 and not kwargs or set(kwargs) == {"dtype"}:
            dst = np.dtype(args[0] if args else kwargs["dtype"])
            arr = recv.to_array(eng)
            return FrameArr([cast_col(eng, SArr(c.arr, recv.n, c.kind, name=k, dtype=dtype_of(c)), dst) for k, c in recv.cols.items()], recv.n, dst)
        raise Unsupported("DataFrame.to_numpy options")
    return recv.to_array(eng)


def _df_take(eng, recv, args, kwargs):
    if len(args) != 1 or kwargs.get("axis", 0) not in (0, "index") or set(kwargs) - {"axis"}:
        raise Unsupported("DataFrame.take options")
    ix = as_index(args[0])
    if ix is None or ix.kind != "int":
        raise Unsupported("DataFrame.take index")
    return recv.take_rows(eng, ix)


def _df_reindex(eng, recv, args, kwargs):
    """df.reindex(labels): label-based; a label no row carries gives a NaN row (int columns turn float) -- modelled only when every
    label exists (obligation), on the default index"""
    lab = args[0] if len(args) == 1 and not kwargs else kwargs.get("index") if not args and set(kwargs) == {"index"} else None
    ix = as_index(lab)
    if ix is None or ix.kind != "int" or recv.index is not None:
        raise Unsupported("DataFrame.reindex form")
    if not eng.spec_mode:
        j = z3.Int(fresh_name("rj"))
        eng.prove(eng.site("reindex-labels-exist"), z3.ForAll([j], z3.Implies(_rng(j, ix.nz()), _rng(z3.Select(ix.arr, j), zint(recv.n)))), "safety",
                  "DataFrame.reindex: a label that no row carries yields a row of NaN")
    used(eng, FRAME)
    return recv._like({c: gather(v, ix) for c, v in recv.cols.items()}, ix.n, _plain(ix))


def _df_reset_index(eng, recv, args, kwargs):
    if args or kwargs.get("drop") is not True or set(kwargs) - {"drop", "inplace"}:
        raise Unsupported("DataFrame.reset_index without drop=True")
    used(eng, FRAME)
    if kwargs.get("inplace"):
        models.check_frame(eng, recv)
        recv.index = None
        return None
    return recv._like({c: _plain(v) for c, v in recv.cols.items()}, recv.n, None)


def typed_frame(S, dtypes, n=None, name="df"):
    """setup helper: a frame whose columns carry the given numpy dtypes (dict name -> dtype; `object` columns hold opaque ids)"""
    from .values import fresh

    if n is None:
        n = fresh("int", name + "_n")
        S.eng.assume(n.z >= 0)
    nz = n.z if isinstance(n, Sym) else n
    cols = {}
    for c, dt in dtypes.items():
        dt = np.dtype(dt)
        cols[c] = SArr.fresh(kind_of_dt(dt), nz, name=f"{name}_{c}", dtype=dt)
        if dt.kind in "iu" and dt != np.dtype("int64"):
            # typing precondition: a column of a narrower / unsigned integer dtype holds values of that dtype (int64 columns are
            # mathematical integers, the convention of this project)
            lo, hi = _int_range(dt)
            j = z3.Int(fresh_name("tj"))
            e = z3.Select(cols[c].arr, j)
            S.eng.assume(z3.ForAll([j], z3.Implies(_rng(j, zint(nz)), z3.And(e >= lo, e <= hi)), patterns=[e]))
    return DFrame(cols, nz)
