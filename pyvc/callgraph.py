"""Static call graph of a carrier, read from the repository AST as it is NOW, and the obligation "no recursion reachable from it".

Nodes are functions of the repository (module level functions, methods, nested defs; a lambda belongs to the function
that creates it).  An edge F -> G exists when the body of F (nested defs excluded, lambdas and comprehensions included)
REFERS to G -- a call `G(...)` or a mere mention (`map(G, xs)`, `return G`): whoever gets hold of G may call it, so a
reference is counted as a possible call.  Names are resolved the way Python resolves them:

* through the lexical scope chain: a nested `def G` of F or of a function enclosing F; a name bound to a lambda in such a
  scope stands for the function that creates the lambda; any other local / parameter is an unknown value (the callbacks a
  traversal receives are parameters: they are the caller's code, not part of this graph);
* then through the REAL module's globals (so `from x import y as z`, re-exports and overload stubs resolve to the function
  object Python would call): repository functions, repository classes where they are CALLED (their `__init__` / `__new__`;
  a class that is only mentioned -- isinstance, an annotation -- constructs nothing), `module.f`, `Class.f`;
* `self.m` / `cls.m` inside a method (or inside a def nested in a method) through the MRO of the defining class: functions,
  static / class methods, property getters.

NOT resolved (documented limitation): calls through any other receiver (`x.m()`, dynamic dispatch on objects of unknown
class), `super()`, subscripts / operators that dispatch to dunder methods, functions stored in containers.

`cycles(key)` lists the cycles reachable from the carrier; `obligation(eng, contract, label)` turns "there is none that a
declared measure bounds" into a named obligation of kind `safety` whose note spells the cycle out.
"""
from __future__ import annotations

import ast
import inspect

from . import extract

_SCOPE = (ast.FunctionDef, ast.AsyncFunctionDef, ast.Lambda)
_cache: dict = {}


class Fn:
    """one function of the graph: `key` (relpath:qualname, nested defs as outer.<locals>.inner), its AST node, the chain of
    lexically enclosing Fn (outermost first), the real module and the real class that defines it (methods)"""

    def __init__(self, key, node, chain, module, owner):
        self.key, self.node, self.chain, self.module, self.owner = key, node, chain, module, owner
        self._locals = None

    @property
    def short(self):
        return self.key.split(":")[-1].replace(".<locals>.", ".")

    # ------------------------------------------------------------ the body of THIS function (nested defs / classes excluded)
    def own_nodes(self):
        todo = list(ast.iter_child_nodes(self.node))
        while todo:
            n = todo.pop()
            yield n
            if isinstance(n, (ast.FunctionDef, ast.AsyncFunctionDef, ast.ClassDef)):
                continue  # a nested def is its own node of the graph (its decorators / defaults are skipped with it: never recursion by themselves)
            todo.extend(ast.iter_child_nodes(n))

    def local_bindings(self):
        """name -> 'def' (nested FunctionDef node) | 'lambda' | 'value' for every name bound in this scope"""
        if self._locals is not None:
            return self._locals
        out = {}
        a = getattr(self.node, "args", None)
        if a is not None:
            for p in a.posonlyargs + a.args + a.kwonlyargs + [x for x in (a.vararg, a.kwarg) if x]:
                out[p.arg] = ("value", None)
        for n in self.own_nodes():
            if isinstance(n, (ast.FunctionDef, ast.AsyncFunctionDef)):
                out[n.name] = ("def", n)
            elif isinstance(n, ast.ClassDef):
                out[n.name] = ("value", None)
            elif isinstance(n, ast.Assign) and isinstance(n.value, ast.Lambda):
                for t in n.targets:
                    if isinstance(t, ast.Name) and out.get(t.id, ("", 0))[0] != "def":
                        out[t.id] = ("lambda", None)
            elif isinstance(n, ast.Name) and isinstance(n.ctx, (ast.Store, ast.Del)):
                out.setdefault(n.id, ("value", None))
            elif isinstance(n, (ast.Import, ast.ImportFrom)):
                for al in n.names:
                    out.setdefault((al.asname or al.name).split(".")[0], ("value", None))
            elif isinstance(n, ast.ExceptHandler) and n.name:
                out.setdefault(n.name, ("value", None))
            elif isinstance(n, (ast.Global, ast.Nonlocal)):
                for nm in n.names:
                    out[nm] = ("outer", None)
        self._locals = out
        return out


def _module_of(relpath):
    from .verify import module_of

    return module_of(relpath)


def _fn_of_pyfunc(f):
    """Fn of a real function object of the repository (None for anything else)"""
    try:
        f = inspect.unwrap(f)
    except Exception:
        pass
    if isinstance(f, (staticmethod, classmethod)):
        f = f.__func__
    if isinstance(f, property):
        f = f.fget
    if not inspect.isfunction(f) or "<locals>" in getattr(f, "__qualname__", "<locals>"):
        return None
    key = extract.func_key(f)
    if key is None:
        return None
    return fn_of_key(key)


def fn_of_key(key):
    if key in _cache:
        return _cache[key]
    try:
        node, _, _ = extract.find(key)
    except (KeyError, OSError, SyntaxError):
        _cache[key] = None
        return None
    relpath, qual = key.split(":")
    try:
        mod = _module_of(relpath)
    except Exception:
        mod = None
    owner = None
    parts = [p for p in qual.replace("@setter", "").split(".") if p != "<locals>"]
    if mod is not None and len(parts) > 1 and "<locals>" not in qual:
        obj = mod
        try:
            for p in parts[:-1]:
                obj = inspect.getattr_static(obj, p) if isinstance(obj, type) else getattr(obj, p)
            owner = obj if isinstance(obj, type) else None
        except AttributeError:
            owner = None
    fn = Fn(key, node, [], mod, owner)
    _cache[key] = fn
    return fn


def _nested(parent, node):
    key = parent.key + ".<locals>." + node.name
    ck = (key, id(node))
    if ck not in _cache:
        _cache[ck] = Fn(key, node, parent.chain + [parent], parent.module, parent.owner)
    return _cache[ck]


def _resolve_global(fn, name, is_called=True):
    """the repository function(s) a module-level name stands for"""
    mod = fn.module
    if mod is None or name not in getattr(mod, "__dict__", {}):
        return []
    return _of_object(mod.__dict__[name], is_called)


def _of_object(obj, is_called=True):
    if inspect.isclass(obj):
        if not is_called:  # a class that is merely mentioned (isinstance, annotations, a default) is not constructed there
            return []
        out = []
        for dunder in ("__init__", "__new__", "__post_init__"):
            try:
                m = inspect.getattr_static(obj, dunder)
            except AttributeError:
                continue
            g = _fn_of_pyfunc(m)
            if g is not None:
                out.append(g)
        return out
    g = _fn_of_pyfunc(obj)
    return [g] if g is not None else []


def _self_name(fn):
    """name of the first parameter of the METHOD that lexically encloses fn (or is fn), and the class"""
    for f in (fn.chain + [fn]):
        if f.owner is not None and isinstance(f.node, (ast.FunctionDef, ast.AsyncFunctionDef)):
            a = f.node.args
            ps = a.posonlyargs + a.args
            static = any(isinstance(d, ast.Name) and d.id == "staticmethod" for d in f.node.decorator_list)
            if ps and not static:
                return ps[0].arg, f.owner
    return None, None


def _class_of(spec):
    """'relpath:Qual.Class' -> the real class"""
    relpath, qual = spec.split(":")
    obj = _module_of(relpath)
    for p in qual.split("."):
        obj = inspect.getattr_static(obj, p) if isinstance(obj, type) else getattr(obj, p)
    return obj


def callees(fn, receivers=None):
    """[(Fn, line)] the functions `fn` refers to.  `receivers` (declared by a contract): {receiver expression text: 'relpath:Class'} --
    attribute references through such an expression are resolved in that class (e.g. {"self.attach": "swcgeom/core/tree.py:Tree"})"""
    out = []
    scopes = fn.chain + [fn]
    selfname, owner = _self_name(fn)
    called = {id(n.func) for n in fn.own_nodes() if isinstance(n, ast.Call)}
    for n in fn.own_nodes():
        line = getattr(n, "lineno", 0)
        if isinstance(n, ast.Name) and isinstance(n.ctx, ast.Load):
            hit = False
            for k in range(len(scopes) - 1, -1, -1):
                b = scopes[k].local_bindings().get(n.id)
                if b is None or b[0] == "outer":
                    continue
                hit = True
                if b[0] == "def":
                    out.append((_nested(scopes[k], b[1]), line))
                elif b[0] == "lambda":
                    out.append((scopes[k], line))  # the lambda belongs to the function that creates it
                break
            if not hit:
                out.extend((g, line) for g in _resolve_global(fn, n.id, id(n) in called))
        elif receivers and isinstance(n, ast.Attribute) and isinstance(n.ctx, ast.Load) and ast.unparse(n.value) in receivers:
            try:
                m = inspect.getattr_static(_class_of(receivers[ast.unparse(n.value)]), n.attr)
            except AttributeError:
                continue
            out.extend((g, line) for g in _of_object(m))
        elif isinstance(n, ast.Attribute) and isinstance(n.ctx, ast.Load) and isinstance(n.value, ast.Name):
            base = n.value.id
            if selfname is not None and base == selfname and owner is not None:
                try:
                    m = inspect.getattr_static(owner, n.attr)
                except AttributeError:
                    continue
                out.extend((g, line) for g in _of_object(m))
            elif all(sc.local_bindings().get(base) is None for sc in scopes) and fn.module is not None:
                obj = getattr(fn.module, "__dict__", {}).get(base)
                if inspect.ismodule(obj) or inspect.isclass(obj):
                    try:
                        m = inspect.getattr_static(obj, n.attr) if inspect.isclass(obj) else getattr(obj, n.attr)
                    except AttributeError:
                        continue
                    out.extend((g, line) for g in _of_object(m))
    return out


def reachable(key, receivers=None):
    """{Fn: [(Fn, line)]} the part of the graph reachable from the carrier `key`"""
    start = fn_of_key(key)
    if start is None:
        raise KeyError(f"carrier not found: {key}")
    graph, todo = {}, [start]
    while todo:
        f = todo.pop()
        if f in graph:
            continue
        graph[f] = callees(f, receivers)
        todo.extend(g for g, _ in graph[f])
    return start, graph


def cycles(key, receivers=None):
    """the cycles reachable from the carrier: one per strongly connected component that has an edge inside it, as a list of
    (Fn, line of the reference to the NEXT function of the cycle); the last reference leads back to the first function"""
    start, graph = reachable(key, receivers)
    index, low, onstack, stack, comps = {}, {}, set(), [], []
    counter = [0]

    def strong(v):  # Tarjan, iterative
        work = [(v, iter(graph[v]))]
        index[v] = low[v] = counter[0]
        counter[0] += 1
        stack.append(v)
        onstack.add(v)
        while work:
            u, it = work[-1]
            for w, _ in it:
                if w not in index:
                    index[w] = low[w] = counter[0]
                    counter[0] += 1
                    stack.append(w)
                    onstack.add(w)
                    work.append((w, iter(graph[w])))
                    break
                if w in onstack:
                    low[u] = min(low[u], index[w])
            else:
                work.pop()
                if work:
                    low[work[-1][0]] = min(low[work[-1][0]], low[u])
                if low[u] == index[u]:
                    comp = []
                    while True:
                        w = stack.pop()
                        onstack.discard(w)
                        comp.append(w)
                        if w is u:
                            break
                    comps.append(comp)

    strong(start)
    out = []
    for comp in comps:
        members = set(comp)
        if len(comp) == 1 and not any(g is comp[0] for g, _ in graph[comp[0]]):
            continue
        # one concrete cycle inside the component: breadth-first from its first member back to itself
        first = min(comp, key=lambda f: f.key)
        prev, todo, seen = {}, [first], set()
        closing = None
        while todo and closing is None:
            u = todo.pop(0)
            for w, line in graph[u]:
                if w is first:
                    closing = (u, line)
                    break
                if w in members and w not in seen:
                    seen.add(w)
                    prev[w] = (u, line)
                    todo.append(w)
        path = [closing]
        while path[0][0] is not first:
            path.insert(0, prev[path[0][0]])
        out.append(path)
    return start, out


def path_to(start, graph, target):
    """a shortest chain of references from the carrier to `target`: [(Fn, line)]"""
    prev, todo = {start: None}, [start]
    while todo:
        u = todo.pop(0)
        if u is target:
            break
        for w, line in graph[u]:
            if w not in prev:
                prev[w] = (u, line)
                todo.append(w)
    out, u = [], target
    while prev.get(u) is not None:
        out.insert(0, prev[u])
        u = prev[u][0]
    return out


def describe(key, registry=None, receivers=None):
    """(ok, text): ok = no cycle reachable from the carrier that is not bounded by a declared measure (a function of the cycle
    whose contract declares options['measure']: its decrease is then an obligation of that contract's own proof)"""
    start, cyc = cycles(key, receivers)
    _, graph = reachable(key, receivers)
    bad, excused = [], []
    for path in cyc:
        fns = [f for f, _ in path]
        measured = None
        if registry is not None:
            for f in fns:
                c = registry.get(f.key)
                if c is not None and c.options.get("measure") is not None:
                    measured = f
                    break
        lead = path_to(start, graph, fns[0])
        text = " -> ".join([f"{f.short} (line {ln})" for f, ln in lead] + [f"{f.short} (line {ln})" for f, ln in path] + [fns[0].short])
        (excused if measured is not None else bad).append(text + (f" [bounded by the declared measure of {measured.short}]" if measured is not None else ""))
    if not bad:
        return True, f"{len(graph)} functions reachable from {start.short}, no cycle" + (f" but {len(excused)} bounded by a declared measure: " + "; ".join(excused) if excused else "")
    return False, "recursion reachable from " + start.short + ": " + "; ".join(bad)


def obligation(eng, c, label, receivers=None):
    """named obligation `<carrier>/safety/<label>` (kind safety: failing it is a violation), decided syntactically; the note carries
    the cycle"""
    import z3

    from .engine import Oblig

    ok, text = describe(c.key, eng.registry, receivers)
    eng.obligs.append(Oblig(f"{eng.prop}/{c.short}/safety/{label}", [], z3.BoolVal(ok), "safety", "call graph of the module as it is now: " + text))
    eng.assumptions.add("call-graph: references are resolved lexically, through the real module globals and through self / cls; calls through other receivers, "
                        "super(), dunder dispatch and functions stored in containers are not followed")
    return ok, text
