"""Library models added for C03 (Normalizer): np.min / np.max of a 1-D array of symbolic length.

Reached ONLY through the contract option `models=ext_C03.MODELS` (an `eng.models` replacement, the same mechanism as
pyvc/ext_C09.py): nothing is registered in the process-wide tables, so no other carrier's proof can see these models.
Cross-check against numpy: tools/xcheck_ext_C03.py.
"""
from __future__ import annotations

import numpy as np
import z3

from . import models
from .engine import ProgExc, Unsupported
from .values import SArr, fresh, fresh_name


def extreme_facts(arr, n, m, w, is_min):
    """`m` is the minimum (maximum) of arr[0..n): attained at position w, and a bound of every entry"""
    i = z3.Int(fresh_name("mi"))
    bound = (m <= z3.Select(arr, i)) if is_min else (m >= z3.Select(arr, i))
    return z3.And(w >= 0, w < n, z3.Select(arr, w) == m, z3.ForAll([i], z3.Implies(z3.And(i >= 0, i < n), bound)))


def _extreme(is_min):
    name = "np.min" if is_min else "np.max"

    def model(eng, args, kwargs):
        a = args[0]
        if not isinstance(a, SArr) or len(args) > 1 or kwargs:
            prev = models.lookup_model(np.min if is_min else np.max)
            if prev is None:
                raise Unsupported(f"{name} form")
            return prev(eng, args, kwargs)
        if a.kind not in ("int", "real"):
            raise Unsupported(f"{name} of a {a.kind} array")
        eng.assumptions.add(f"numpy-model:{name} of a 1-D array of length n: ValueError when n == 0, otherwise a value that is attained "
                            "at some position and bounds every entry")
        n = a.nz()
        if not eng.spec_mode:
            if not eng.branch(eng.sbool(n > 0)):
                raise ProgExc(ValueError, "zero-size array to reduction operation which has no identity")
        m = fresh(a.kind, "amin" if is_min else "amax")
        w = z3.Int(fresh_name("wit"))
        eng.assume(extreme_facts(a.arr, n, m.z, w, is_min))
        return m

    return model


_MINE = {np.min: _extreme(True), np.max: _extreme(False), np.amin: _extreme(True), np.amax: _extreme(False)}


class ModelsProxy:
    """`eng.models` replacement (contract option `models=`): pyvc.models plus the models of this file"""

    def __getattr__(self, name):
        return getattr(models, name)

    def lookup_model(self, fn):
        try:
            m = _MINE.get(fn)
        except TypeError:
            m = None
        return m if m is not None else models.lookup_model(fn)


MODELS = ModelsProxy()
