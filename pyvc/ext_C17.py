"""Library models for C17 (swcgeom/transforms/mst.py): symbolic n x m matrices, the pairwise-distance
idiom, numpy.ma argmin.  Registered through pyvc.models.EXTRA_MODELS when contracts.C17 is imported.

Value types (all subclasses of SArr so that the engine's array dispatch, loop havoc and frame checks apply):
  V1      1-D array of symbolic length that additionally supports `a[:, None]`
  ColVec  the (n, 1) view `a[:, None]` of a 1-D array
  M2      (n, m) matrix, both extents symbolic: z3 Array (Int, Int) -> elem
  Points  (n, 3) point cloud (three coordinate columns)       [not an SArr: immutable input]
  Resh / PairDiff   `P.reshape((-1,1,3))`, `P.reshape((1,-1,3))` and their difference
  Masked  numpy.ma.array(data, mask=mask);  FlatIdx  the flat position returned by Masked.argmin() / M2.argmin()
  PointsT  `P.T`;  SqDiff  `(P[:, None] - P[None, :]) ** 2`;  FP  static rounding-error record of a real matrix expression (see the class)
Matrix reductions / selections: M.max(), M.min(), M.argmin(), np.where(C, x, y), np.sqrt(M), np.maximum(M, c); Gram idiom: np.einsum('ij,ij->i', P, P),
P @ P.T, c * P, v[:, None] + v[None, :].  Cross-check against numpy: tools/xcheck_ext_C17.py.

Every model records what it assumes with eng.assumptions.add("numpy-model(C17): ...").
"""
from __future__ import annotations

import ast

import numpy as np
import z3
from numpy import ma

from . import models, narr, npmodels
from .engine import ProgExc, Unsupported
from .values import NArr, NativeMethod, PDict, PList, SArr, Sym, fresh, fresh_name, kind_of, sort_of, to_z3, zint, next_uid

I = z3.IntSort()


def used(eng, what):
    eng.assumptions.add("numpy-model(C17): " + what)


def _z(n):
    return n.z if isinstance(n, Sym) else zint(n)


def _is_full(s):
    return isinstance(s, slice) and s.start is None and s.stop is None and s.step is None


def _same(a, b):
    return z3.is_true(z3.simplify(_z(a) == _z(b)))


def _shape_oblig(eng, a, b, what):
    g = z3.simplify(_z(a) == _z(b))
    if z3.is_true(g):
        return
    if z3.is_false(g):
        raise ProgExc(ValueError, "operands could not be broadcast together: " + what)
    if not eng.spec_mode:
        eng.prove(eng.site("shape-match"), g, "shape", what)


def _ix(a):
    return a if isinstance(a, z3.ExprRef) else (a.z if isinstance(a, Sym) else z3.IntVal(int(a)))


def sel2(arr, a, b):
    """arr[a, b] with the outermost lambda beta-reduced (bodies are built with sel2, so terms stay lambda-free)."""
    a, b = _ix(a), _ix(b)
    if z3.is_quantifier(arr) and arr.is_lambda() and arr.num_vars() == 2:
        return z3.substitute_vars(arr.body(), b, a)
    return z3.Select(arr, a, b)


def lam2(f):
    a, b = z3.Int(fresh_name("ra")), z3.Int(fresh_name("cb"))
    return z3.Lambda([a, b], f(a, b))


def sel1(arr, a):
    a = _ix(a)
    if z3.is_quantifier(arr) and arr.is_lambda() and arr.num_vars() == 1:
        return z3.substitute_vars(arr.body(), a)
    return z3.Select(arr, a)


UMUL = z3.Function("umul", z3.RealSort(), z3.RealSort(), z3.RealSort())


def rmul(eng, x, y):
    """x * y for two real terms.  A product of two SYMBOLIC factors is abstracted by the uninterpreted umul(x, y): the
    obligations then hold for every binary function in its place, in particular for multiplication (sound; it only
    loses arithmetic facts about the product, which keeps the solver in linear arithmetic)."""
    if z3.is_rational_value(x) or z3.is_int_value(x) or z3.is_rational_value(y) or z3.is_int_value(y):
        return x * y
    if eng is not None:
        used(eng, "a product of two symbolic reals (scalar * array cell) is abstracted as an uninterpreted function umul(scalar, cell)")
    return UMUL(x, y)


def _arith(eng, op, x, y, k, scalar=None):
    """x op y on z3 terms of kind k; `scalar` = 0 / 1 tells which operand is the broadcast scalar (put first in umul)"""
    if isinstance(op, ast.Mult) and k == "real":
        return rmul(eng, y, x) if scalar == 1 else rmul(eng, x, y)
    return npmodels._z3op(op, x, y)


class XArr(SArr):
    """marker: extension array values"""


# ------------------------------------------------------------ static rounding-error bookkeeping
RSQRT = z3.Function("rsqrt", z3.RealSort(), z3.RealSort())  # the real square root; the proofs use only rsqrt(x) >= 0 and rsqrt(0) = 0


class FP:
    """What is known STATICALLY about the floating-point evaluation of a real-valued array expression (the semantic value is the
    exact real term, "floats are reals"; this record rides along and is consulted only by the float clause of a contract).
      inexact   the value carries rounding error (False: an input of the carrier, or an exact constant)
      nonneg / nonpos   sign known from the shape of the expression (square, sum of squares, sqrt, maximum(., 0) ...)
      ops       number of roundings on the longest path (k of the usual relative-error bound gamma_k)
      sites     additions / subtractions that combine operands of which at least one is already rounded and whose signs are not
                statically coherent (x + y with x, y of the same sign, x - y with opposite signs: no cancellation, the relative errors
                of the operands carry over; otherwise the relative error of the result is unbounded): (description, sign-coherence
                formula over all cells).  An expression WITHOUT such sites has a relative error of at most gamma_ops."""

    def __init__(self, inexact, nonneg=False, nonpos=False, ops=0, sites=()):
        self.inexact, self.nonneg, self.nonpos, self.ops, self.sites = inexact, nonneg, nonpos, ops, tuple(sites)


def fp_of(v):
    from fractions import Fraction

    if isinstance(v, Points):
        return getattr(v, "fp", FP(False))  # the input cloud and selections / stackings of inputs are exact; arithmetic on coordinates is not tracked (fp = None)
    if isinstance(v, bool):
        return None
    if isinstance(v, (int, float, Fraction)):
        return FP(False, nonneg=v >= 0, nonpos=v <= 0)
    return getattr(v, "fp", None)


def fp_additive(sub, fx, fy, formula, what):
    """x + y (sub=False) or x - y (sub=True); `formula()` = the z3 statement that the operands are sign-coherent in every cell"""
    if fx is None or fy is None:
        return None
    sites = fx.sites + fy.sites
    y_nonneg, y_nonpos = (fy.nonpos, fy.nonneg) if sub else (fy.nonneg, fy.nonpos)
    if (fx.inexact or fy.inexact) and not ((fx.nonneg and y_nonneg) or (fx.nonpos and y_nonpos)):
        sites += ((what, formula()),)
    return FP(True, fx.nonneg and y_nonneg, fx.nonpos and y_nonpos, max(fx.ops, fy.ops) + 1, sites)


def fp_mul(fx, fy, same=False):
    if fx is None or fy is None:
        return None
    return FP(True, same or (fx.nonneg and fy.nonneg) or (fx.nonpos and fy.nonpos), (fx.nonneg and fy.nonpos) or (fx.nonpos and fy.nonneg),
              fx.ops + fy.ops + 1, fx.sites + fy.sites)


def fp_binop(op, fx, fy, formula, what):
    if isinstance(op, (ast.Add, ast.Sub)):
        return fp_additive(isinstance(op, ast.Sub), fx, fy, formula, what)
    if isinstance(op, ast.Mult):
        return fp_mul(fx, fy)
    return None


def coherent(sub, x, y):
    """no cancellation in x + y / x - y: the two summands have the same sign"""
    return z3.Or(z3.And(x >= 0, y <= 0), z3.And(x <= 0, y >= 0)) if sub else z3.Or(z3.And(x >= 0, y >= 0), z3.And(x <= 0, y <= 0))


def _cells2(n, m, f):
    a, b = z3.Int(fresh_name("fa")), z3.Int(fresh_name("fb"))
    return z3.ForAll([a, b], z3.Implies(z3.And(0 <= a, a < n, 0 <= b, b < m), f(a, b)))


# --------------------------------------------------------------------------- 1-D
class V1(XArr):
    def get(self, i):
        return Sym(sel1(self.arr, to_z3(i, "int")), self.kind)

    def __pyvc_getitem__(self, eng, idx):
        if isinstance(idx, tuple) and len(idx) == 2 and _is_full(idx[0]) and idx[1] is None:
            used(eng, "a[:, None] is the (n, 1) column view of a 1-D array")
            return ColVec(self)
        if isinstance(idx, tuple) and len(idx) == 2 and idx[0] is None and _is_full(idx[1]):
            row = SArr(self.arr, self.n, self.kind, name=self.name + "_row")  # (1, n): broadcasts like the 1-D array itself
            row.fp = getattr(self, "fp", None)
            return row
        if (isinstance(idx, int) and not isinstance(idx, bool)) or isinstance(idx, Sym):
            iz = models.norm_index(eng, idx, self.n, "array index")
            return Sym(sel1(self.arr, iz), self.kind)
        return npmodels.getitem(eng, SArr(self.arr, self.n, self.kind, self.name, self.dtype), idx)

    def __pyvc_setitem__(self, eng, idx, val):
        models.check_frame(eng, self)
        if not ((isinstance(idx, int) and not isinstance(idx, bool)) or isinstance(idx, Sym)):
            raise Unsupported("vector store into a symbolic 1-D array")
        if self.kind == "int" and kind_of(val) == "real":
            raise Unsupported("store of a real into an int array")
        iz = models.norm_index(eng, idx, self.n, "array store")
        self.arr = z3.Store(self.arr, iz, to_z3(val, self.kind))


class ColVec(XArr):
    """(n, 1) view of a 1-D array, possibly under an elementwise scalar expression (reads go to the CURRENT contents
    of the source array: it is a view)."""

    def __init__(self, src, f=None, kind=None):
        super().__init__(src.arr, src.n, kind or src.kind, name=src.name + "_col")
        self.src, self.f = src, f
        self.fp = getattr(src, "fp", None) if f is None else None

    def cell(self, a):
        return self.f(a) if self.f is not None else to_z3(self.src.get(a))

    def get(self, i):
        raise Unsupported("1-D access to a column view")

    def __pyvc_getattr__(self, eng, name):
        if name == "shape":
            return (eng.snum(self.nz(), "int"), 1)
        raise Unsupported(f"attribute {name} of a column view")

    def __pyvc_getitem__(self, eng, idx):
        raise Unsupported("subscript of a column view")

    def __pyvc_setitem__(self, eng, idx, val):
        raise Unsupported("store into a column view")

    def __pyvc_binop__(self, eng, op, a, b):
        other, left = (b, True) if a is self else (a, False)
        if isinstance(other, M2):
            return other.__pyvc_binop__(eng, op, a, b)
        if isinstance(other, SArr) and not isinstance(other, XArr):
            # (n, 1) op (m,): numpy broadcasts to the (n, m) matrix of all pairs
            used(eng, "elementwise arithmetic with numpy broadcasting")
            k = npmodels._join_kind(self.kind, other.kind, op)
            cell, mk, oarr, ok = self.cell, self.kind, other.arr, other.kind
            cx = lambda x, y: to_z3(Sym(cell(x), mk), k)
            cy = lambda x, y: to_z3(Sym(sel1(oarr, y), ok), k)
            if not left:
                cx, cy = cy, cx
            out = M2(lam2(lambda x, y: _arith(eng, op, cx(x, y), cy(x, y), k)), self.n, other.n, k, name="expr")
            fa, fb = (fp_of(self), fp_of(other)) if left else (fp_of(other), fp_of(self))
            n_, m_ = self.nz(), other.nz()
            out.fp = fp_binop(op, fa, fb, lambda: _cells2(n_, m_, lambda x, y: coherent(isinstance(op, ast.Sub), cx(x, y), cy(x, y))), f"(n, 1) {type(op).__name__} (m,)")
            return out
        ko = kind_of(other)
        if ko is None:
            raise Unsupported(f"column view {type(op).__name__} {type(other).__name__}")
        used(eng, "elementwise arithmetic with numpy broadcasting")
        k = npmodels._join_kind(self.kind, ko, op)
        oz = to_z3(other, k)
        cell, mk = self.cell, self.kind
        if left:
            f = lambda x: _arith(eng, op, to_z3(Sym(cell(x), mk), k), oz, k, scalar=1)
        else:
            f = lambda x: _arith(eng, op, oz, to_z3(Sym(cell(x), mk), k), k, scalar=0)
        return ColVec(self.src, f, k)


# --------------------------------------------------------------------------- 2-D
class M2(XArr):
    """(n, m) matrix with symbolic extents; `arr`: z3 Array (Int, Int) -> elem."""

    def __init__(self, arr, n, m, kind, name="M", dtype=None):
        super().__init__(arr, n, kind, name=name, dtype=dtype)
        self.m = m

    @staticmethod
    def fresh(kind, n, m, name="M"):
        return M2(z3.Const(fresh_name(name), z3.ArraySort(I, I, sort_of(kind))), n, m, kind, name=name)

    @staticmethod
    def const(kind, n, m, value, name="M"):
        vz = to_z3(value, kind)
        return M2(lam2(lambda a, b: vz), n, m, kind, name=name)

    def mz(self):
        return _z(self.m)

    def get2(self, a, b):
        return sel2(self.arr, to_z3(a, "int"), to_z3(b, "int"))

    def get(self, i):
        raise Unsupported("1-D access to a symbolic matrix")

    def __pyvc_getattr__(self, eng, name):
        if name == "shape":
            return (eng.snum(self.nz(), "int"), eng.snum(self.mz(), "int"))
        if name == "ndim":
            return 2
        if name == "dtype":
            return self.dtype if self.dtype is not None else npmodels.dtype_of_kind(self.kind)
        if name == "copy":
            return NativeMethod(lambda e, r, a, k: M2(r.arr, r.n, r.m, r.kind, r.name + "_cp", r.dtype), self, name)
        if name == "T":
            arr = self.arr
            return M2(lam2(lambda a, b: sel2(arr, b, a)), self.m, self.n, self.kind, self.name + "_T", self.dtype)
        if name in ("max", "min"):
            return NativeMethod(_m2_red(name == "max"), self, name)
        if name == "argmin":
            return NativeMethod(_m2_argmin, self, name)
        raise Unsupported(f"attribute {name} of a symbolic matrix")

    def _scalar_idx(self, x):
        return (isinstance(x, int) and not isinstance(x, bool)) or isinstance(x, Sym)

    def __pyvc_getitem__(self, eng, idx):
        if isinstance(idx, tuple) and len(idx) == 2:
            r, c = idx
            if self._scalar_idx(r) and self._scalar_idx(c):
                rz = models.norm_index(eng, r, self.n, "matrix row index")
                cz = models.norm_index(eng, c, self.m, "matrix column index")
                return Sym(sel2(self.arr, rz, cz), self.kind)
            arr = self.arr
            if self._scalar_idx(r) and _is_full(c):
                rz = models.norm_index(eng, r, self.n, "matrix row index")
                return SArr(npmodels.lam(lambda x: sel2(arr, rz, x), self.kind), self.m, self.kind, name=self.name + "_row")
            if _is_full(r) and self._scalar_idx(c):
                cz = models.norm_index(eng, c, self.m, "matrix column index")
                return SArr(npmodels.lam(lambda x: sel2(arr, x, cz), self.kind), self.n, self.kind, name=self.name + "_col")
        raise Unsupported("index form on a symbolic matrix")

    def __pyvc_setitem__(self, eng, idx, val):
        models.check_frame(eng, self)
        if not (isinstance(idx, tuple) and len(idx) == 2):
            raise Unsupported("store form on a symbolic matrix")
        r, c = idx
        old = self.arr
        k = self.kind
        used(eng, "m[i, :] = v / m[:, j] = v / m[i, j] = v write exactly that row / column / cell (a 1-D right-hand side is copied elementwise)")

        def rhs(length, what):
            """cell value as a function of the position along the written line"""
            if isinstance(val, M2) or isinstance(val, ColVec):
                raise Unsupported("2-D right-hand side in a matrix store")
            if isinstance(val, SArr):
                _shape_oblig(eng, val.n, length, what)
                src = val.arr  # value copy at the time of the store
                vk = val.kind
                return lambda x: to_z3(Sym(sel1(src, x), vk), k)
            if kind_of(val) is None:
                raise Unsupported("right-hand side of a matrix store")
            if k == "int" and kind_of(val) == "real":
                raise Unsupported("store of a real into an int matrix")
            vz = to_z3(val, k)
            return lambda x: vz

        if self._scalar_idx(r) and self._scalar_idx(c):
            rz = models.norm_index(eng, r, self.n, "matrix row index")
            cz = models.norm_index(eng, c, self.m, "matrix column index")
            f = rhs(1, "cell store")
            vz = f(z3.IntVal(0))
            self.arr = lam2(lambda a, b: z3.If(z3.And(a == rz, b == cz), vz, sel2(old, a, b)))
            return
        if self._scalar_idx(r) and _is_full(c):
            rz = models.norm_index(eng, r, self.n, "matrix row index")
            f = rhs(self.m, "row store")
            self.arr = lam2(lambda a, b: z3.If(a == rz, f(b), sel2(old, a, b)))
            return
        if _is_full(r) and self._scalar_idx(c):
            cz = models.norm_index(eng, c, self.m, "matrix column index")
            f = rhs(self.n, "column store")
            self.arr = lam2(lambda a, b: z3.If(b == cz, f(a), sel2(old, a, b)))
            return
        raise Unsupported("store form on a symbolic matrix")

    def __pyvc_binop__(self, eng, op, a, b):
        used(eng, "elementwise arithmetic with numpy broadcasting")
        me_left = a is self
        other = b if me_left else a
        arr = self.arr
        sk = self.kind
        scalar = False
        if isinstance(other, M2):
            _shape_oblig(eng, self.n, other.n, "matrix rows")
            _shape_oblig(eng, self.m, other.m, "matrix columns")
            oarr, ok = other.arr, other.kind
            oc = lambda x, y: Sym(sel2(oarr, x, y), ok)
        elif isinstance(other, ColVec):
            _shape_oblig(eng, self.n, other.n, "(n, m) with (n', 1): rows")
            ok = other.kind
            cell = other.cell
            oc = lambda x, y: Sym(cell(x), ok)
        elif isinstance(other, SArr):  # 1-D operand: broadcast along the LAST axis
            _shape_oblig(eng, self.m, other.n, "(n, m) with (m',): columns")
            oarr, ok = other.arr, other.kind
            oc = lambda x, y: Sym(sel1(oarr, y), ok)
        elif kind_of(other) is not None:
            ok = kind_of(other)
            oc = lambda x, y: other
            scalar = True
        else:
            raise Unsupported(f"matrix {type(op).__name__} {type(other).__name__}")
        k = npmodels._join_kind(sk, ok, op)
        ck = "bool" if isinstance(op, (ast.BitAnd, ast.BitOr)) else k
        mine = lambda x, y: to_z3(Sym(sel2(arr, x, y), sk), ck)
        theirs = lambda x, y: to_z3(oc(x, y), ck)
        cx, cy = (mine, theirs) if me_left else (theirs, mine)
        body = lambda x, y: _arith(eng, op, cx(x, y), cy(x, y), ck, scalar=(1 if me_left else 0) if scalar else None)
        out = M2(lam2(body), self.n, self.m, k, name="expr")
        if k == "real":
            fa, fb = (fp_of(self), fp_of(other)) if me_left else (fp_of(other), fp_of(self))
            n_, m_ = self.nz(), self.mz()
            out.fp = fp_binop(op, fa, fb, lambda: _cells2(n_, m_, lambda x, y: coherent(isinstance(op, ast.Sub), cx(x, y), cy(x, y))), f"matrix {type(op).__name__}")
        return out


# --------------------------------------------------------------------- dtypes of coordinates
# Coordinates are real numbers on the proof side; where the CODE converts (np.asarray / np.array with dtype=, .astype, the promotion of np.concatenate /
# np.vstack) the conversion is the cast model of pyvc/ext_C05_frame.py (`cast_<src>_<dst>`: float -> int truncates toward zero, int -> float is exact up to
# 2**53 (float64) / 2**24 (float32) and integer-valued, int -> int keeps values in range) - reused, not restated.  float32 <-> float64 is the identity:
# widening is exact in IEEE arithmetic, narrowing rounds - the standing assumption `floats are reals` of this project (the float32 storage of the tree
# is ignored in the same way).
F64 = np.dtype("float64")
FLOAT_WIDTH = ("dtype-cast-model(C17): float32 <-> float64 conversions of coordinates are the identity over the reals (widening is exact; narrowing rounds to 24 bits: "
               "standing assumption `floats are reals`); every other conversion goes through cast_<src>_<dst> of pyvc/ext_C05_frame.py")


def dt_of(x):
    """numpy dtype of an array operand (recorded, else the default of its kind: int64 / float64 / bool)"""
    d = getattr(x, "dtype", None)
    if d is not None:
        return np.dtype(d)
    k = x.kind if isinstance(x, (NArr, SArr)) else kind_of(x)
    if k not in ("int", "real", "bool"):
        raise Unsupported(f"dtype of {type(x).__name__}")
    return npmodels.dtype_of_kind(k)


def cast_coord(eng, z, src, dst):
    """the real-sorted term z (a value of dtype src; integer-valued when src is an integer dtype) converted to dtype dst, again as a real-sorted term"""
    src, dst = np.dtype(src), np.dtype(dst)
    if src == dst:
        return z
    if src.kind not in "iuf" or dst.kind not in "iuf":
        raise Unsupported(f"conversion of coordinates {src} -> {dst}")
    if src.kind == "f" and dst.kind == "f":
        used(eng, FLOAT_WIDTH)
        return z
    from .ext_C05_frame import cast_fn

    f = cast_fn(eng, src, dst)
    r = f(z3.simplify(z3.ToInt(z)) if src.kind in "iu" else z)
    return z3.ToReal(r) if dst.kind in "iu" else r


def cast_cloud(eng, P, dst):
    """P.astype(dst) / np.array(P, dtype=dst): a fresh cloud whose coordinates are those of P pushed through the cast model"""
    dst = np.dtype(dst)
    if dst.kind not in "iuf":
        raise Unsupported(f"point cloud converted to {dst}")
    src = P.dtype
    cast_coord(eng, z3.RealVal(0), src, dst)  # the axioms of the cast enter the path here (not inside a lambda body)
    out = Points([c if src == dst else npmodels.lam(lambda a, _c=c: cast_coord(eng, z3.Select(_c, a), src, dst), "real") for c in P.cols], P.n, name=P.name + "_as", dtype=dst)
    out.frozen = False
    out.fp = fp_of(P)
    if src == dst and hasattr(P, "selection"):
        out.selection = P.selection
    return out


def _dtype_arg(args, kwargs, pos, what):
    dt = kwargs.get("dtype", args[pos] if len(args) > pos else None)
    if dt is None:
        return None
    try:
        return np.dtype(dt)
    except TypeError:
        raise Unsupported(f"{what}: dtype argument {dt!r}")


def _pts_astype(eng, recv, args, kwargs):
    if set(kwargs) - {"dtype", "copy"} or len(args) > 1:
        raise Unsupported("astype options")
    dt = _dtype_arg(args, kwargs, 0, "astype")
    if dt is None:
        raise ProgExc(TypeError, "astype() missing required argument 'dtype'")
    used(eng, "P.astype(dtype): a fresh (n, 3) array, every coordinate converted (cast model)")
    return cast_cloud(eng, recv, dt)


def _np_array_of_cloud(copy):
    def model(eng, args, kwargs):
        P = args[0]
        if not isinstance(P, Points) or set(kwargs) - {"dtype", "copy"} or len(args) > 2:
            raise Unsupported("array conversion of the point cloud with these arguments")
        dt = _dtype_arg(args, kwargs, 1, "np.array")
        if not copy and (dt is None or dt == P.dtype):
            used(eng, "np.asarray(P[, dtype]) returns P itself when it already has that dtype")
            return P
        used(eng, "np.array(P[, dtype]) / np.asarray(P, other dtype): a fresh (n, 3) array, every coordinate converted (cast model)")
        return cast_cloud(eng, P, dt if dt is not None else P.dtype)

    return model


def _arith_dtype(P, other, op):
    """result dtype of cloud (op) other (numpy promotion; python scalars are weak)"""
    if isinstance(op, ast.Div):
        rt = np.result_type(P.dtype, dt_of(other)) if isinstance(other, (Points, NArr, SArr)) else P.dtype
        return rt if rt.kind == "f" else F64
    if isinstance(other, (Points, NArr, SArr)):
        return np.result_type(P.dtype, dt_of(other))
    if isinstance(other, PList):
        return np.result_type(P.dtype, F64 if any(kind_of(x) == "real" for x in (other.items or [])) else np.dtype("int64"))
    if kind_of(other) == "real" and P.dtype.kind in "iu":
        return F64
    return P.dtype


def typed_cloud(S, n, dtype, name="points"):
    """setup helper: an input cloud of the given numpy dtype.  Typing facts of an integer dtype: every coordinate is an integer, inside the range of the
    dtype when it is narrower than int64 (int64 = mathematical integers, the convention of this project)."""
    dt = np.dtype(dtype)
    if dt.kind not in "iuf" or (dt.kind == "f" and dt.itemsize < 4):
        raise Unsupported(f"point cloud of dtype {dt}")
    P = Points.fresh(n, name, dt)
    if dt.kind in "iu":
        j = z3.Int(fresh_name("tj"))
        for c in P.cols:
            e = z3.Select(c, j)
            fact = z3.IsInt(e)
            if dt != np.dtype("int64"):
                ii = np.iinfo(dt)
                fact = z3.And(fact, e >= int(ii.min), e <= int(ii.max))
            S.eng.assume(z3.ForAll([j], z3.Implies(z3.And(0 <= j, j < _z(n)), fact), patterns=[e]))
    return P


# --------------------------------------------------------------------- point cloud
class Points:
    """(n, 3) array of reals with symbolic n (columns x, y, z).  An input: stores are frame violations.
    `dtype`: the numpy dtype of the array.  The coordinates are real-sorted terms whatever the dtype; a cloud of an integer dtype holds integer VALUES
    (typing fact of the cloud it was made from: `typed_cloud` for an input, the cast model for a conversion).  Only conversions look at the dtype (`cast_coord`)."""

    def __init__(self, cols, n, name="points", dtype=None):
        self.cols = list(cols)
        self.n = n
        self.name = name
        self.dtype = np.dtype(dtype) if dtype is not None else F64
        self.uid = next_uid()
        self.frozen = True

    @staticmethod
    def fresh(n, name="points", dtype=None):
        return Points([z3.Const(fresh_name(f"{name}_{c}"), z3.ArraySort(I, z3.RealSort())) for c in "xyz"], n, name, dtype)

    def nz(self):
        return _z(self.n)

    def __pyvc_snapshot__(self, memo):
        c = Points(self.cols, self.n, self.name, self.dtype)
        c.uid = self.uid
        for x in ("fp", "selection"):
            if hasattr(self, x):
                setattr(c, x, getattr(self, x))
        return c

    def __pyvc_native__(self, native, max_len, NotConcrete):
        """the numpy array this cloud is in a solver model (counter-model replay)"""
        n = native(self.nz(), "int")
        if not 0 <= n <= max_len:
            raise NotConcrete(f"cloud of {n} points")
        return np.array([[native(z3.Select(c, z3.IntVal(i)), "real") for c in self.cols] for i in range(n)], dtype=np.float64).reshape(n, 3).astype(self.dtype)

    def __pyvc_getattr__(self, eng, name):
        if name == "shape":
            return (eng.snum(self.nz(), "int"), 3)
        if name == "ndim":
            return 2
        if name == "reshape":
            return NativeMethod(_pts_reshape, self, name)
        if name == "T":
            return PointsT(self)
        if name == "dtype":
            return self.dtype
        if name == "astype":
            return NativeMethod(_pts_astype, self, name)
        if name == "size":
            return eng.snum(z3.simplify(3 * self.nz()), "int")
        if name == "copy":
            return NativeMethod(_np_copy_like, self, name)
        if name in ("sum", "max", "min"):
            return NativeMethod(lambda e, r, a, k, _w=name: _pts_row_reduce(e, r, _w, a, k), self, name)
        raise Unsupported(f"attribute {name} of the point cloud")

    def __pyvc_compare__(self, eng, op, a, b):
        return _pts_compare(eng, op, a, b)

    def __pyvc_binop__(self, eng, op, a, b):
        if isinstance(op, ast.MatMult) and isinstance(a, Points) and isinstance(b, PointsT):
            return _gram(eng, a, b.pts)
        other = b if a is self else a
        if isinstance(op, ast.Mult) and not isinstance(other, (Sym, bool)) and kind_of(other) in ("int", "real"):
            used(eng, "elementwise arithmetic with numpy broadcasting")
            cz = to_z3(other, "real")
            out = Points([npmodels.lam(lambda x, _c=col: cz * z3.Select(_c, x), "real") for col in self.cols], self.n, name=self.name + "_scaled", dtype=_arith_dtype(self, other, op))
            out.frozen = False
            out.fp = None
            return out
        return _pts_arith(eng, op, a, b)

    def __pyvc_getitem__(self, eng, idx):
        if isinstance(idx, tuple) and len(idx) == 2 and _is_full(idx[0]) and isinstance(idx[1], int) and not isinstance(idx[1], bool):
            if not -3 <= idx[1] < 3:
                raise ProgExc(IndexError, "column index")
            return SArr(self.cols[idx[1]], self.n, "real", name=f"{self.name}_{'xyz'[idx[1]]}")
        if isinstance(idx, tuple) and len(idx) == 2 and isinstance(idx[1], int) and not isinstance(idx[1], bool):
            iz = models.norm_index(eng, idx[0], self.n, "point index")
            return Sym(z3.Select(self.cols[idx[1]], iz), "real")
        if (isinstance(idx, int) and not isinstance(idx, bool)) or isinstance(idx, Sym):
            iz = models.norm_index(eng, idx, self.n, "point index")
            return NArr((3,), [Sym(z3.Select(c, iz), "real") for c in self.cols], "real")
        if isinstance(idx, tuple) and len(idx) in (2, 3) and all(_is_full(x) for x in idx[2:]):
            # P[:, None] / P[:, None, :] = P.reshape((-1, 1, 3)),  P[None, :] / P[None, :, :] = P.reshape((1, -1, 3))
            if _is_full(idx[0]) and idx[1] is None:
                return Resh(self, "col")
            if idx[0] is None and _is_full(idx[1]):
                return Resh(self, "row")
        if isinstance(idx, tuple) and len(idx) == 2 and _is_full(idx[1]) and isinstance(idx[0], (SArr, slice)):
            idx = idx[0]  # P[rows, :] = P[rows]
        if isinstance(idx, tuple) and len(idx) == 1 and isinstance(idx[0], SArr):
            idx = idx[0]  # P[np.where(mask)]: a 1-tuple of index arrays
        if isinstance(idx, SArr) and idx.kind == "bool":
            return select_rows(eng, self, _mask_of(eng, self, idx, "boolean row index on the point cloud"))
        if isinstance(idx, SArr):
            return _gather_rows(eng, self, idx)
        if isinstance(idx, slice):
            return _slice_rows(eng, self, idx)
        raise Unsupported("index form on the point cloud")

    def __pyvc_setitem__(self, eng, idx, val):
        if not eng.spec_mode:
            eng.prove(eng.site("frame-write"), False, "frame", "write to the input point cloud")


class PointsT:
    """P.T, the (3, n) transpose of a point cloud"""

    def __init__(self, pts):
        self.pts = pts
        self.uid = next_uid()

    def __pyvc_getattr__(self, eng, name):
        if name == "shape":
            return (3, eng.snum(self.pts.nz(), "int"))
        if name == "T":
            return self.pts
        raise Unsupported(f"attribute {name} of a transposed point cloud")

    def __pyvc_binop__(self, eng, op, a, b):
        if isinstance(op, ast.MatMult) and isinstance(a, Points) and isinstance(b, PointsT):
            return _gram(eng, a, b.pts)
        raise Unsupported(f"{type(op).__name__} on a transposed point cloud")


def _dot3(P, a, Q, b):
    return [z3.Select(P.cols[c], a) * z3.Select(Q.cols[c], b) for c in range(3)]


def _same_sign_all(ts):
    return z3.Or(z3.And(*[t >= 0 for t in ts]), z3.And(*[t <= 0 for t in ts]))


def _gram(eng, P, Q):
    """P @ Q.T for two (n, 3), (m, 3) clouds: the (n, m) matrix of the inner products of the rows"""
    used(eng, "P @ Q.T of two point clouds is the (n, m) matrix of the inner products <P[a], Q[b]> (sum over the three coordinates)")
    out = M2(lam2(lambda a, b: z3.Sum(*_dot3(P, a, Q, b))), P.n, Q.n, "real", name="gram")
    n_, m_ = P.nz(), Q.nz()
    # the three products are rounded and of arbitrary sign: their sum is a cancellation site unless the signs agree
    out.fp = FP(True, ops=3, sites=(("inner products of the rows (P @ Q.T)", _cells2(n_, m_, lambda a, b: _same_sign_all(_dot3(P, a, Q, b)))),))
    return out


def _np_einsum(eng, args, kwargs):
    if len(args) == 3 and args[0] == "ij,ij->i" and isinstance(args[1], Points) and isinstance(args[2], Points) and not kwargs:
        P, Q = args[1], args[2]
        _shape_oblig(eng, P.n, Q.n, "einsum ij,ij->i: rows")
        used(eng, "np.einsum('ij,ij->i', P, Q) of two (n, 3) point clouds is the vector of the row-wise inner products <P[a], Q[a]>")
        out = V1(npmodels.lam(lambda a: z3.Sum(*_dot3(P, a, Q, a)), "real"), P.n, "real", name="rowdot")
        if P is Q:
            out.fp = FP(True, nonneg=True, ops=3)  # a sum of squares
        else:
            n_ = P.nz()
            a = z3.Int(fresh_name("fa"))
            out.fp = FP(True, ops=3, sites=(("row-wise inner products (einsum)", z3.ForAll([a], z3.Implies(z3.And(0 <= a, a < n_), _same_sign_all(_dot3(P, a, Q, a))))),))
        return out
    raise Unsupported("np.einsum form (modelled: 'ij,ij->i' on two point clouds)")


def _np_sqrt(eng, args, kwargs):
    x = args[0]
    if isinstance(x, M2) and len(args) == 1 and not kwargs:
        if x.kind != "real":
            raise Unsupported("np.sqrt of a non-float matrix")
        used(eng, "np.sqrt of a matrix is the cellwise real square root rsqrt (used: rsqrt(x) >= 0, rsqrt(0) = 0); a negative argument (nan + RuntimeWarning in numpy) is excluded by the obligation sqrt-nonneg")
        arr = x.arr
        if not eng.spec_mode:
            eng.prove(eng.site("sqrt-nonneg"), _cells2(x.nz(), x.mz(), lambda a, b: sel2(arr, a, b) >= 0), "safety", "np.sqrt of a negative number is nan")
        out = M2(lam2(lambda a, b: RSQRT(sel2(arr, a, b))), x.n, x.m, "real", name="sqrt")
        f = fp_of(x)
        out.fp = None if f is None else FP(True, nonneg=True, ops=f.ops + 1, sites=f.sites)
        return out
    if isinstance(x, (XArr, Points)):
        raise Unsupported("np.sqrt of this value")
    return narr.np_sqrt(eng, args, kwargs)


def _np_maximum(eng, args, kwargs):
    if len(args) == 2 and not kwargs and any(isinstance(x, M2) for x in args):
        x, c = (args[0], args[1]) if isinstance(args[0], M2) else (args[1], args[0])
        if isinstance(c, (XArr, SArr, NArr)) or kind_of(c) is None:
            raise Unsupported("np.maximum of a matrix with a non-scalar")
        used(eng, "np.maximum(M, c) is the cellwise maximum with the scalar c")
        k = npmodels._join_kind(x.kind, kind_of(c))
        arr, xk, cz = x.arr, x.kind, to_z3(c, k)
        cell = lambda a, b: to_z3(Sym(sel2(arr, a, b), xk), k)
        out = M2(lam2(lambda a, b: z3.If(cell(a, b) >= cz, cell(a, b), cz)), x.n, x.m, k, name="maximum")
        f, fc = fp_of(x), fp_of(c)
        out.fp = None if f is None or fc is None else FP(f.inexact, nonneg=f.nonneg or fc.nonneg, nonpos=f.nonpos and fc.nonpos, ops=f.ops, sites=f.sites)
        return out
    if any(isinstance(x, (XArr, Points)) for x in args):
        raise Unsupported("np.maximum of this value")
    return narr.np_maximum(eng, args, kwargs)


def sumsq(P, a, b):
    """|P[a] - P[b]|^2 as a polynomial in the coordinates"""
    d = [z3.Select(P.cols[c], a) - z3.Select(P.cols[c], b) for c in range(3)]
    return z3.Sum(*[t * t for t in d])


def _pts_reshape(eng, recv, args, kwargs):
    sh = args[0] if len(args) == 1 else tuple(args)
    if isinstance(sh, PList):
        sh = tuple(sh.items)
    if sh == (-1, 1, 3):
        return Resh(recv, "col")
    if sh == (1, -1, 3):
        return Resh(recv, "row")
    raise Unsupported(f"reshape{sh} of the point cloud")


class Resh(XArr):
    def __init__(self, pts, axis):
        super().__init__(z3.K(I, z3.RealVal(0)), pts.n, "real", name="reshaped")
        self.pts, self.axis = pts, axis

    def __pyvc_binop__(self, eng, op, a, b):
        if isinstance(op, ast.Sub) and isinstance(a, Resh) and isinstance(b, Resh) and a.pts is b.pts and {a.axis, b.axis} == {"col", "row"}:
            used(eng, "P.reshape((-1,1,3)) - P.reshape((1,-1,3)) is the (n, n, 3) array of pairwise differences P[a] - P[b]")
            return PairDiff(a.pts, swapped=(a.axis == "row"))
        raise Unsupported("arithmetic on a reshaped point cloud other than the pairwise difference")


class PairDiff(XArr):
    def __init__(self, pts, swapped=False):
        super().__init__(z3.K(I, z3.RealVal(0)), pts.n, "real", name="pairdiff")
        self.pts, self.swapped = pts, swapped

    def __pyvc_binop__(self, eng, op, a, b):
        if (isinstance(op, ast.Pow) and a is self and b == 2 and not isinstance(b, bool)) or (isinstance(op, ast.Mult) and a is self and b is self):
            used(eng, "D ** 2 / D * D of the (n, n, 3) array of pairwise differences: the array of squared coordinate differences")
            return SqDiff(self.pts)
        raise Unsupported("arithmetic on the pairwise-difference array")


class SqDiff(XArr):
    """(P[a] - P[b]) ** 2, shape (n, n, 3)"""

    def __init__(self, pts):
        super().__init__(z3.K(I, z3.RealVal(0)), pts.n, "real", name="sqdiff")
        self.pts = pts

    def get(self, i):
        raise Unsupported("1-D access to the squared pairwise differences")

    def __pyvc_getitem__(self, eng, idx):
        raise Unsupported("subscript of the squared pairwise differences")

    def __pyvc_getattr__(self, eng, name):
        if name == "sum":
            return NativeMethod(_sqdiff_sum, self, name)
        raise Unsupported(f"attribute {name} of the squared pairwise differences")

    def __pyvc_binop__(self, eng, op, a, b):
        raise Unsupported("arithmetic on the squared pairwise differences")


def _sqdiff_sum(eng, recv, args, kwargs):
    axis = kwargs.get("axis", args[0] if args else None)
    if axis not in (2, -1) or len(args) > 1 or set(kwargs) - {"axis"}:
        raise Unsupported("sum of the squared pairwise differences: only over the last axis")
    used(eng, "S.sum(axis=2) of the (n, n, 3) array of squared coordinate differences: the (n, n) matrix of squared Euclidean distances (a sum of three squares)")
    P = recv.pts
    out = M2(lam2(lambda a, b: sumsq(P, a, b)), P.n, P.n, "real", name="sqdist")  # (x_a - x_b)^2 is symmetric: the order of the two views does not matter
    out.fp = FP(True, nonneg=True, ops=5)  # 1 (difference of inputs) -> 3 (square) -> 5 (sum of three, all non-negative)
    return out


def _np_norm(eng, args, kwargs):
    x = args[0]
    if isinstance(x, PairDiff):
        if kwargs.get("axis", args[2] if len(args) > 2 else None) != 2 or kwargs.get("ord", args[1] if len(args) > 1 else None) is not None:
            raise Unsupported("np.linalg.norm of the pairwise differences: only the Euclidean norm over axis=2")
        used(eng, "np.linalg.norm(D, axis=2) of the (n, n, 3) array of pairwise differences D[a, b] = P[a] - P[b] is the matrix of "
                  "rsqrt(D[a, b, 0]^2 + D[a, b, 1]^2 + D[a, b, 2]^2) (rsqrt = real square root; floating point: differences of inputs, "
                  "a sum of squares and a square root - no cancellation of rounded quantities)")
        P = x.pts
        out = M2(lam2((lambda a, b: RSQRT(sumsq(P, b, a))) if x.swapped else (lambda a, b: RSQRT(sumsq(P, a, b)))), P.n, P.n, "real", name="dis")
        out.fp = FP(True, nonneg=True, ops=6)  # 1 (difference of inputs) -> 3 (square) -> 5 (sum of three) -> sqrt
        return out
    if isinstance(x, Points):
        if kwargs.get("ord", args[1] if len(args) > 1 else None) is not None or set(kwargs) - {"axis", "ord"}:
            raise Unsupported("np.linalg.norm of the point cloud: only the Euclidean norm of the rows")
        return _pts_row_reduce(eng, x, "norm", [], dict(axis=kwargs.get("axis", args[2] if len(args) > 2 else None)))
    if isinstance(x, (XArr, Points)):
        raise Unsupported("np.linalg.norm of this value")
    return narr.np_norm(eng, args, kwargs)


def _np_concatenate(eng, args, kwargs):
    seq = args[0].items if isinstance(args[0], PList) else args[0]
    if isinstance(seq, (list, tuple)) and any(isinstance(x, Points) for x in seq):
        if kwargs.get("axis", args[1] if len(args) > 1 else 0) != 0 or set(kwargs) - {"axis"} or len(args) > 2:
            raise Unsupported("np.concatenate on the point cloud: only along axis 0")
        if not (len(seq) == 2 and isinstance(seq[1], Points) and isinstance(seq[0], PList)):
            return stack_rows(eng, list(seq), False, "np.concatenate")
        if len(seq) == 2 and isinstance(seq[1], Points) and isinstance(seq[0], PList) and seq[0].items is not None and len(seq[0].items) == 1 and kwargs.get("axis", 0) == 0 and len(args) == 1:
            row = seq[0].items[0]
            if isinstance(row, NArr) and row.shape == (3,):
                used(eng, "np.concatenate([[s], P]) is the fresh (n+1, 3) array with row 0 = s and row a+1 = P[a]")
                pts = seq[1]
                cols = []
                # numpy promotes the operands to their common dtype (an int cloud next to a float64 soma becomes float64): cast model
                res = np.result_type(dt_of(row), pts.dtype)
                for c in range(3):
                    sz, pc = _cast_item(eng, row.items[c], dt_of(row), res), pts.cols[c]
                    cols.append(npmodels.lam(lambda x, _s=sz, _p=pc: z3.If(x == 0, _s, cast_coord(eng, z3.Select(_p, x - 1), pts.dtype, res)), "real"))
                out = Points(cols, z3.simplify(pts.nz() + 1), name="points1", dtype=res)
                out.frozen = False
                return out
        return stack_rows(eng, list(seq), False, "np.concatenate")
    return narr.np_concatenate(eng, args, kwargs)


# ------------------------------------------------------------ rows of a point cloud: tests, selection, stacking
# Pre-processing of the cloud before the Prim loop (dropping / deduplicating / stacking rows).  Everything here is a statement about
# ROWS: a test yields one truth value per row (or per coordinate), a selection yields a cloud whose rows are rows of the operand.
class Bool3(XArr):
    """(n, 3) boolean array: the result of a coordinate-wise test on a point cloud (three boolean columns)"""

    def __init__(self, cols, n, name="test3"):
        super().__init__(cols[0], n, "bool", name=name)
        self.cols = list(cols)

    def cell(self, c, a):
        return sel1(self.cols[c], a)

    def get(self, i):
        raise Unsupported("1-D access to an (n, 3) boolean array")

    def row(self, how):
        """the 1-D boolean array `B.all(axis=1)` / `B.any(axis=1)`"""
        cols = self.cols
        f = (lambda a: z3.And(*[sel1(c, a) for c in cols])) if how == "all" else (lambda a: z3.Or(*[sel1(c, a) for c in cols]))
        return V1(npmodels.lam(f, "bool"), self.n, "bool", name=f"{self.name}_{how}")

    def __pyvc_getattr__(self, eng, name):
        if name == "shape":
            return (eng.snum(self.nz(), "int"), 3)
        if name == "ndim":
            return 2
        if name in ("all", "any"):
            return NativeMethod(lambda e, r, a, k, _h=name: _bool3_reduce(e, r, _h, a, k), self, name)
        if name == "sum":
            return NativeMethod(_bool3_sum, self, name)
        raise Unsupported(f"attribute {name} of an (n, 3) boolean array")

    def __pyvc_getitem__(self, eng, idx):
        if isinstance(idx, tuple) and len(idx) == 2 and _is_full(idx[0]) and isinstance(idx[1], int) and not isinstance(idx[1], bool) and -3 <= idx[1] < 3:
            return V1(self.cols[idx[1]], self.n, "bool", name=f"{self.name}_{idx[1] % 3}")
        raise Unsupported("index form on an (n, 3) boolean array")

    def __pyvc_setitem__(self, eng, idx, val):
        raise Unsupported("store into an (n, 3) boolean array")

    def __pyvc_unop__(self, eng, op):
        if isinstance(op, (ast.Invert, ast.Not)) and isinstance(op, ast.Invert):
            return Bool3([npmodels.lam(lambda a, _c=c: z3.Not(sel1(_c, a)), "bool") for c in self.cols], self.n, name="not_" + self.name)
        raise Unsupported(f"{type(op).__name__} of an (n, 3) boolean array")

    def __pyvc_binop__(self, eng, op, a, b):
        if isinstance(op, (ast.BitAnd, ast.BitOr)) and isinstance(a, Bool3) and isinstance(b, Bool3):
            _shape_oblig(eng, a.n, b.n, "(n, 3) & (n', 3): rows")
            j = z3.And if isinstance(op, ast.BitAnd) else z3.Or
            return Bool3([npmodels.lam(lambda x, _p=p, _q=q: j(sel1(_p, x), sel1(_q, x)), "bool") for p, q in zip(a.cols, b.cols)], a.n)
        raise Unsupported(f"{type(op).__name__} on an (n, 3) boolean array")


def _axis_of(args, kwargs, what):
    if len(args) > 1 or set(kwargs) - {"axis"}:
        raise Unsupported(f"{what} with these arguments")
    return kwargs.get("axis", args[0] if args else None)


def _forall_rows(n, f):
    a = z3.Int(fresh_name("ra"))
    return z3.ForAll([a], z3.Implies(z3.And(0 <= a, a < n), f(a)))


def _exists_row(n, f):
    a = z3.Int(fresh_name("ra"))
    return z3.Exists([a], z3.And(0 <= a, a < n, f(a)))


def _bool3_reduce(eng, recv, how, args, kwargs):
    axis = _axis_of(args, kwargs, "all / any of an (n, 3) boolean array")
    used(eng, "B.all(axis=1) / B.any(axis=1) of an (n, 3) boolean array: per row, the conjunction / disjunction of its three entries; without axis: over all entries")
    if axis in (1, -1):
        return recv.row(how)
    if axis is None:
        rows = recv.row(how)
        n, arr = recv.nz(), rows.arr
        return eng.sbool(_forall_rows(n, lambda a: sel1(arr, a)) if how == "all" else _exists_row(n, lambda a: sel1(arr, a)))
    raise Unsupported("all / any of an (n, 3) boolean array over axis 0")


def _bool3_sum(eng, recv, args, kwargs):
    axis = _axis_of(args, kwargs, "sum of an (n, 3) boolean array")
    if axis not in (1, -1):
        raise Unsupported("sum of an (n, 3) boolean array: only over the last axis")
    used(eng, "B.sum(axis=1) of an (n, 3) boolean array: per row, the number of true entries")
    cols = recv.cols
    return V1(npmodels.lam(lambda a: z3.Sum(*[z3.If(sel1(c, a), z3.IntVal(1), z3.IntVal(0)) for c in cols]), "int"), recv.n, "int", name="count3")


def _np_all_any(how):
    def model(eng, args, kwargs):
        if args and isinstance(args[0], Bool3):
            return _bool3_reduce(eng, args[0], how, list(args[1:]), kwargs)
        raise Unsupported("np.all / np.any of this operand")

    return model


def _row_operand(eng, other, what):
    """the other operand of a coordinate-wise operation on an (n, 3) cloud, as `coordinate c of row a` (numpy broadcasting:
    a scalar, a (3,) vector - the same for every row -, a (1, 3) array, or an (n', 3) cloud with n' == n)"""
    if isinstance(other, Points):
        return (lambda c, a: z3.Select(other.cols[c], a)), other.n
    if isinstance(other, NArr) and other.kind in ("real", "int") and other.shape in ((3,), (1, 3)):
        zs = [to_z3(x, "real") for x in other.items]
        return (lambda c, a: zs[c]), None
    if isinstance(other, PList) and other.items is not None and len(other.items) == 3 and all(kind_of(x) in ("real", "int") for x in other.items):
        zs = [to_z3(x, "real") for x in other.items]
        return (lambda c, a: zs[c]), None
    if not isinstance(other, bool) and kind_of(other) in ("real", "int"):
        z = to_z3(other, "real")
        return (lambda c, a: z), None
    raise Unsupported(f"{what} of the point cloud with {type(other).__name__}")


def _derived(P, f, name, exact=False, dtype=None):
    out = Points([npmodels.lam(lambda a, _c=c: f(_c, a), "real") for c in range(3)], P.n, name=name, dtype=dtype if dtype is not None else P.dtype)
    out.frozen = False
    out.fp = FP(False) if exact else None  # arithmetic on coordinates rounds; what a clause about rounding may assume is not tracked for it
    return out


def _pts_arith(eng, op, a, b):
    me, other, left = (a, b, True) if isinstance(a, Points) else (b, a, False)
    if not isinstance(op, (ast.Add, ast.Sub, ast.Mult, ast.Div)):
        if isinstance(op, ast.Pow) and left and not isinstance(other, bool) and other == 2:
            used(eng, "elementwise arithmetic with numpy broadcasting")
            return _derived(me, lambda c, x: z3.Select(me.cols[c], x) * z3.Select(me.cols[c], x), "squared")
        raise Unsupported(f"{type(op).__name__} on the point cloud")
    g, on = _row_operand(eng, other, type(op).__name__)
    if on is not None:
        _shape_oblig(eng, me.n, on, "(n, 3) with (n', 3): rows")
    used(eng, "elementwise arithmetic with numpy broadcasting")
    if isinstance(op, ast.Div):
        if not left:
            raise Unsupported("division by the point cloud")
        if not eng.spec_mode:
            eng.prove(eng.site("division-by-zero"), z3.And(*[_forall_rows(me.nz(), lambda x, _c=c: g(_c, x) != 0) for c in range(3)]), "safety", "coordinate-wise division")
    mine = lambda c, x: z3.Select(me.cols[c], x)
    cx, cy = (mine, g) if left else (g, mine)
    return _derived(me, lambda c, x: npmodels._z3op(op, cx(c, x), cy(c, x)), "expr", dtype=_arith_dtype(me, other, op))


def _pts_compare(eng, op, a, b):
    me, other, left = (a, b, True) if isinstance(a, Points) else (b, a, False)
    if type(op) not in npmodels._CMP:
        return NotImplemented
    g, on = _row_operand(eng, other, "comparison")
    if on is not None:
        _shape_oblig(eng, me.n, on, "(n, 3) with (n', 3): rows")
    used(eng, "coordinate-wise comparison of an (n, 3) cloud with a scalar / a (3,) vector / an (n, 3) cloud: an (n, 3) boolean array")
    f = npmodels._CMP[type(op)]
    mine = lambda c, x: z3.Select(me.cols[c], x)
    cx, cy = (mine, g) if left else (g, mine)
    return Bool3([npmodels.lam(lambda x, _c=c: f(cx(_c, x), cy(_c, x)), "bool") for c in range(3)], me.n, name="cmp3")


def _tolerances(args, kwargs):
    from fractions import Fraction

    if set(kwargs) - {"rtol", "atol", "equal_nan"}:
        raise Unsupported("np.isclose keyword")
    rtol = kwargs.get("rtol", args[2] if len(args) > 2 else Fraction(1, 100000))
    atol = kwargs.get("atol", args[3] if len(args) > 3 else Fraction(1, 100000000))
    if kind_of(rtol) not in ("real", "int") or kind_of(atol) not in ("real", "int") or isinstance(rtol, bool) or isinstance(atol, bool):
        raise Unsupported("np.isclose tolerances that are not scalars")
    return to_z3(rtol, "real"), to_z3(atol, "real")


def _zabs(x):
    return z3.If(x >= 0, x, -x)


def _np_isclose(eng, args, kwargs):
    """np.isclose(a, b, rtol=1e-5, atol=1e-8) with a point cloud among the operands: |a - b| <= atol + rtol * |b| per coordinate
    (the SECOND operand carries the relative tolerance - the test is not symmetric)"""
    if len(args) >= 2 and any(isinstance(x, Points) for x in args[:2]):
        if getattr(eng, "exact_tolerances", False):
            raise Unsupported("np.isclose on a point cloud under exact_tolerances")
        a, b = args[0], args[1]
        me = a if isinstance(a, Points) else b
        rtol, atol = _tolerances(args, kwargs)
        ga = (lambda c, x: z3.Select(a.cols[c], x)) if isinstance(a, Points) else _row_operand(eng, a, "np.isclose")[0]
        gb = (lambda c, x: z3.Select(b.cols[c], x)) if isinstance(b, Points) else _row_operand(eng, b, "np.isclose")[0]
        if isinstance(a, Points) and isinstance(b, Points):
            _shape_oblig(eng, a.n, b.n, "np.isclose: rows")
        used(eng, "np.isclose(a, b, rtol, atol) on an (n, 3) cloud (against a scalar / a (3,) vector / a cloud): per coordinate |a - b| <= atol + rtol * |b| over the reals "
                  "(defaults rtol = 1e-5, atol = 1e-8; the relative part scales with the SECOND operand)")
        return Bool3([npmodels.lam(lambda x, _c=c: _zabs(ga(_c, x) - gb(_c, x)) <= atol + rtol * _zabs(gb(_c, x)), "bool") for c in range(3)], me.n, name="isclose")
    return narr.np_isclose(eng, args, kwargs)


def _np_allclose(eng, args, kwargs):
    if len(args) >= 2 and any(isinstance(x, Points) for x in args[:2]):
        return _bool3_reduce(eng, _np_isclose(eng, args, kwargs), "all", [], {})
    return narr.np_allclose(eng, args, kwargs)


def _np_abs(eng, args, kwargs):
    if len(args) == 1 and not kwargs and isinstance(args[0], Points):
        P = args[0]
        used(eng, "np.abs of an (n, 3) cloud: coordinate-wise absolute value")
        return _derived(P, lambda c, x: _zabs(z3.Select(P.cols[c], x)), "abs", exact=True)
    return narr.np_abs(eng, args, kwargs)


def _pts_row_reduce(eng, recv, what, args, kwargs):
    axis = _axis_of(args, kwargs, f"{what} of the point cloud")
    if axis not in (1, -1):
        raise Unsupported(f"{what} of the point cloud: only over the last axis")
    cs = recv.cols
    if what == "sum":
        used(eng, "P.sum(axis=1) of an (n, 3) cloud: per row, the sum of the three coordinates")
        f = lambda a: z3.Sum(*[z3.Select(c, a) for c in cs])
    elif what == "norm":
        used(eng, "np.linalg.norm(P, axis=1) of an (n, 3) cloud: per row rsqrt(x^2 + y^2 + z^2) (rsqrt = real square root)")
        f = lambda a: RSQRT(z3.Sum(*[z3.Select(c, a) * z3.Select(c, a) for c in cs]))
    elif what in ("max", "min"):
        used(eng, "P.max(axis=1) / P.min(axis=1) of an (n, 3) cloud: per row, the largest / smallest coordinate")
        pick = (lambda x, y: z3.If(x >= y, x, y)) if what == "max" else (lambda x, y: z3.If(x <= y, x, y))
        f = lambda a: pick(pick(z3.Select(cs[0], a), z3.Select(cs[1], a)), z3.Select(cs[2], a))
    else:
        raise Unsupported(what)
    return V1(npmodels.lam(f, "real"), recv.n, "real", name=what + "_rows")


# ---- selections.  A selection of rows is described by the ghost symbols of npmodels.filter_axioms: N kept rows, K(m) = the input row
# shown in row m (strictly increasing: the order is kept), R(i) = the row that shows input row i.
def _mask_of(eng, P, mask, what):
    if isinstance(mask, Bool3) or not (isinstance(mask, SArr) and mask.kind == "bool" and not isinstance(mask, (M2, ColVec))):
        raise Unsupported(f"{what}: the mask is not a 1-D boolean array")
    g = z3.simplify(P.nz() == mask.nz())
    if z3.is_false(g):
        raise ProgExc(IndexError, "boolean index did not match indexed array along axis 0")
    if not z3.is_true(g) and not eng.spec_mode:
        eng.prove(eng.site("mask-as-long-as-the-cloud"), g, "shape", what)
    arr = mask.arr
    return lambda t: sel1(arr, t)


def _assume_selection(eng, ax):
    """a quantified axiom of a row selection: assumed, and remembered so that a contract may DROP it from the path condition once the facts about the
    selected cloud are established (weakening the context is always sound; the quantified axioms only slow the later obligations down)"""
    eng.assume(ax)
    eng.ghost.setdefault("c17-selection-axioms", []).append(ax)


def select_rows(eng, P, holds, name="selected"):
    """the rows a of P with holds(a), in their order: P[mask] (numpy boolean indexing along axis 0 copies the selected rows in position order)"""
    nz = P.nz()
    probe = z3.Int("sel_probe")
    key = ("c17-rowsel", z3.simplify(holds(probe)).get_id(), z3.simplify(nz).get_id())
    got = eng.ghost.get(key)
    if got is None:
        used(eng, "P[mask] / P[~mask] / np.delete(P, mask, axis=0) on an (n, 3) cloud with a 1-D boolean mask: the fresh cloud of exactly the selected rows, in their order "
                  "(ghost symbols of the order-preserving selection: N kept rows, K(m) the row shown in row m, R(i) the row that shows row i; npmodels.filter_axioms)")
        tag = fresh_name("rows")
        N, K, R = z3.Int(tag + "_N"), z3.Function(tag + "_K", I, I), z3.Function(tag + "_R", I, I)
        i, m, m2 = z3.Int(tag + "_i"), z3.Int(tag + "_m"), z3.Int(tag + "_m2")
        axs = npmodels.filter_axioms(nz, holds, N, K, R, i, m, m2)
        eng.assume(axs[0])  # 0 <= N <= n
        for ax in axs[1:]:
            _assume_selection(eng, ax)
        got = eng.ghost[key] = (N, K, R)
        eng.ghost.setdefault("filters", []).append(dict(N=N, K=K, R=R, n=nz, cond=holds, out=None))
    N, K, R = got
    out = Points([npmodels.lam(lambda x, _c=c: z3.Select(_c, K(x)), "real") for c in P.cols], N, name=name, dtype=P.dtype)
    out.frozen = False
    out.fp = fp_of(P)
    out.selection = dict(src=P, N=N, K=K, R=R, holds=holds)
    return out


def _gather_rows(eng, P, idx):
    sel = getattr(idx, "positions_of", None)
    if sel is not None and _same(sel[1], P.n):
        return select_rows(eng, P, sel[0])  # P[np.where(mask)[0]] = P[mask]
    if not (isinstance(idx, SArr) and idx.kind == "int" and not isinstance(idx, (M2, ColVec))):
        raise Unsupported("index array on the point cloud")
    used(eng, "P[idx] on an (n, 3) cloud with a 1-D integer index array: the fresh cloud whose row m is row idx[m] (negative positions count from the end)")
    n, arr, j = P.nz(), idx.arr, z3.Int(fresh_name("gi"))
    if not eng.spec_mode:
        eng.prove(eng.site("gather-in-bounds"), z3.ForAll([j], z3.Implies(z3.And(j >= 0, j < idx.nz()), z3.And(sel1(arr, j) >= -n, sel1(arr, j) < n))), "safety", "row index array")
    pos = lambda x: z3.If(sel1(arr, x) < 0, sel1(arr, x) + n, sel1(arr, x))
    out = Points([npmodels.lam(lambda x, _c=c: z3.Select(_c, pos(x)), "real") for c in P.cols], idx.n, name="gathered", dtype=P.dtype)
    out.frozen = False
    out.fp = fp_of(P)
    return out


def _slice_rows(eng, P, sl):
    if sl.step not in (None, 1):
        raise Unsupported("strided slice of the point cloud")
    used(eng, "P[a:b] on an (n, 3) cloud: the rows a .. b-1 (bounds clipped as Python slices are)")
    n = P.nz()

    def clamp(v, default):
        if v is None:
            return default
        vz = to_z3(v, "int")
        vz = z3.If(vz < 0, vz + n, vz)
        return z3.If(vz < 0, z3.IntVal(0), z3.If(vz > n, n, vz))

    lo, hi = z3.simplify(clamp(sl.start, z3.IntVal(0))), z3.simplify(clamp(sl.stop, n))
    ln = z3.simplify(z3.If(hi >= lo, hi - lo, z3.IntVal(0)))
    out = Points([npmodels.lam(lambda x, _c=c: z3.Select(_c, x + lo), "real") for c in P.cols], ln, name=P.name + "_rows", dtype=P.dtype)
    out.frozen = P.frozen  # a view: a store reaches the operand
    out.fp = fp_of(P)
    return out


class Positions(V1):
    """np.flatnonzero(mask) / np.where(mask)[0]: the positions at which a 1-D boolean array is true, ascending"""


def _positions(eng, mask):
    if isinstance(mask, Bool3) or not (isinstance(mask, SArr) and mask.kind == "bool" and not isinstance(mask, (M2, ColVec))):
        raise Unsupported("positions of the true entries: not a 1-D boolean array")
    arr, nz = mask.arr, mask.nz()
    holds = lambda t: sel1(arr, t)
    used(eng, "np.flatnonzero(mask) / np.where(mask)[0] of a 1-D boolean array: the positions of its true entries in ascending order (order-preserving selection, npmodels.filter_axioms)")
    tag = fresh_name("pos")
    N, K, R = z3.Int(tag + "_N"), z3.Function(tag + "_K", I, I), z3.Function(tag + "_R", I, I)
    i, m, m2 = z3.Int(tag + "_i"), z3.Int(tag + "_m"), z3.Int(tag + "_m2")
    axs = npmodels.filter_axioms(nz, holds, N, K, R, i, m, m2)
    eng.assume(axs[0])
    for ax in axs[1:]:
        _assume_selection(eng, ax)
    out = Positions(npmodels.lam(lambda x: K(x), "int"), N, "int", name="positions")
    out.positions_of = (holds, mask.n)
    return out


def _np_flatnonzero(eng, args, kwargs):
    if len(args) == 1 and not kwargs and isinstance(args[0], SArr) and args[0].kind == "bool":
        return _positions(eng, args[0])
    raise Unsupported("np.flatnonzero of this operand")


def _np_delete(eng, args, kwargs):
    if args and isinstance(args[0], Points):
        P = args[0]
        obj = kwargs.get("obj", args[1] if len(args) > 1 else None)
        axis = kwargs.get("axis", args[2] if len(args) > 2 else None)
        if axis != 0 or set(kwargs) - {"obj", "axis"} or obj is None:
            raise Unsupported("np.delete on the point cloud: only whole rows (axis=0)")
        if isinstance(obj, tuple) and len(obj) == 1:
            obj = obj[0]  # np.where(mask) is a 1-tuple
        sel = getattr(obj, "positions_of", None)
        if sel is not None and _same(sel[1], P.n):
            h = sel[0]
            return select_rows(eng, P, lambda t: z3.Not(h(t)), name="remaining")
        if isinstance(obj, SArr) and obj.kind == "bool":
            h = _mask_of(eng, P, obj, "np.delete with a boolean mask")
            return select_rows(eng, P, lambda t: z3.Not(h(t)), name="remaining")
        if (isinstance(obj, int) and not isinstance(obj, bool)) or (isinstance(obj, Sym) and obj.kind == "int"):
            iz = models.norm_index(eng, obj, P.n, "np.delete row")
            used(eng, "np.delete(P, i, axis=0) on an (n, 3) cloud: the fresh cloud of the n - 1 other rows, in their order")
            out = Points([npmodels.lam(lambda x, _c=c: z3.Select(_c, z3.If(x < iz, x, x + 1)), "real") for c in P.cols], z3.simplify(P.nz() - 1), name="remaining", dtype=P.dtype)
            out.frozen = False
            out.fp = fp_of(P)
            return out
        if isinstance(obj, SArr) and obj.kind == "int":
            # rows listed in an arbitrary index array: the rows that are NOT listed, in their order
            arr, ln, n = obj.arr, obj.nz(), P.nz()
            j = z3.Int(fresh_name("dj"))
            if not eng.spec_mode:
                eng.prove(eng.site("delete-in-bounds"), z3.ForAll([j], z3.Implies(z3.And(j >= 0, j < ln), z3.And(sel1(arr, j) >= -n, sel1(arr, j) < n))), "safety", "np.delete row index array")
            listed = lambda t: z3.Exists([j], z3.And(j >= 0, j < ln, z3.Or(sel1(arr, j) == t, sel1(arr, j) + n == t)))
            return select_rows(eng, P, lambda t: z3.Not(listed(t)), name="remaining")
        raise Unsupported("np.delete on the point cloud with this index")
    raise Unsupported("np.delete on symbolic data (modelled: rows of the point cloud)")


def _lex_less(P, a, b):
    x, y, z_ = [(z3.Select(c, a), z3.Select(c, b)) for c in P.cols]
    return z3.Or(x[0] < x[1], z3.And(x[0] == x[1], z3.Or(y[0] < y[1], z3.And(y[0] == y[1], z_[0] < z_[1]))))


def _row_eq(P, a, Q, b):
    return z3.And(*[z3.Select(p, a) == z3.Select(q, b) for p, q in zip(P.cols, Q.cols)])


def _np_unique(eng, args, kwargs):
    if args and isinstance(args[0], Points):
        P = args[0]
        if len(args) != 1 or kwargs.get("axis") != 0 or set(kwargs) - {"axis"}:
            raise Unsupported("np.unique on the point cloud: only np.unique(P, axis=0) without further results")
        used(eng, "np.unique(P, axis=0) of an (n, 3) cloud: the fresh cloud of the DISTINCT rows in ascending lexicographic order (every row of the result is a row of P, every "
                  "row of P occurs exactly once; pairwise distinct rows: nothing is dropped)")
        n = P.nz()
        tag = fresh_name("uniq")
        N, K, R = z3.Int(tag + "_N"), z3.Function(tag + "_K", I, I), z3.Function(tag + "_R", I, I)
        m, m2, i, i2 = z3.Int(tag + "_m"), z3.Int(tag + "_m2"), z3.Int(tag + "_i"), z3.Int(tag + "_i2")
        out = Points([npmodels.lam(lambda x, _c=c: z3.Select(_c, K(x)), "real") for c in P.cols], N, name="unique", dtype=P.dtype)
        out.frozen = False
        out.fp = fp_of(P)
        rng_m = lambda t: z3.And(t >= 0, t < N)
        rng_i = lambda t: z3.And(t >= 0, t < n)
        eng.assume(z3.And(N >= 0, N <= n, z3.Implies(n > 0, N > 0)))
        _assume_selection(eng, z3.ForAll([m], z3.Implies(rng_m(m), z3.And(rng_i(K(m)), R(K(m)) == m)), patterns=[K(m)]))
        _assume_selection(eng, z3.ForAll([i], z3.Implies(rng_i(i), z3.And(rng_m(R(i)), _row_eq(P, i, P, K(R(i))))), patterns=[R(i)]))
        _assume_selection(eng, z3.ForAll([m, m2], z3.Implies(z3.And(rng_m(m), rng_m(m2), m < m2), _lex_less(P, K(m), K(m2))), patterns=[z3.MultiPattern(K(m), K(m2))]))
        _assume_selection(eng, z3.Implies(z3.ForAll([i, i2], z3.Implies(z3.And(rng_i(i), rng_i(i2), i != i2), z3.Not(_row_eq(P, i, P, i2)))), N == n))
        out.selection = dict(src=P, N=N, K=K, R=R, holds=None)
        return out
    return npmodels._np_unique(eng, args, kwargs)


# ---- stacking rows
def _row_parts(eng, seq, promote_1d):
    """the operands of a row-wise concatenation as (number of rows, coordinate getter (c, row) -> real term, exact?)"""
    parts = []
    for x in seq:
        if isinstance(x, Points):
            parts.append((x.nz(), (lambda c, a, _p=x: z3.Select(_p.cols[c], a)), fp_of(x), x.dtype))
            continue
        if isinstance(x, PList) and x.items is not None:
            its = x.items
            if its and all(isinstance(r, NArr) and r.shape == (3,) for r in its):
                rows = [[to_z3(v, "real") for v in r.items] for r in its]
                dt = np.result_type(*[dt_of(r) for r in its])
            elif its and all(isinstance(r, PList) and r.items is not None and len(r.items) == 3 for r in its):
                rows = [[to_z3(v, "real") for v in r.items] for r in its]
                dt = _scalars_dtype([v for r in its for v in r.items])
            elif promote_1d and len(its) == 3 and all(kind_of(v) in ("real", "int") for v in its):
                rows = [[to_z3(v, "real") for v in its]]
                dt = _scalars_dtype(its)
            else:
                raise Unsupported("row-wise concatenation: a list operand that is not a list of (3,) rows")
        elif isinstance(x, NArr) and x.kind in ("real", "int") and len(x.shape) == 2 and x.shape[1] == 3:
            rows = [[to_z3(v, "real") for v in x.items[3 * r:3 * r + 3]] for r in range(x.shape[0])]
            dt = dt_of(x)
        elif isinstance(x, NArr) and x.kind in ("real", "int") and x.shape == (3,) and promote_1d:
            rows = [[to_z3(v, "real") for v in x.items]]
            dt = dt_of(x)
        else:
            raise Unsupported(f"row-wise concatenation of the point cloud with {type(x).__name__}" + (f" of shape {x.shape}" if isinstance(x, NArr) else ""))

        def get(c, a, _rows=rows):
            t = _rows[-1][c]
            for r in range(len(_rows) - 2, -1, -1):
                t = z3.If(a == r, _rows[r][c], t)
            return t

        parts.append((z3.IntVal(len(rows)), get, FP(False), dt))
    return parts


def _scalars_dtype(vs):
    """dtype of the array numpy makes of a (nested) list of python numbers: float64 when one of them is a float, else int64"""
    return F64 if any(kind_of(v) == "real" for v in vs) else np.dtype("int64")


def _cast_item(eng, v, src, dst):
    """a scalar operand (python number, Sym) of dtype src as a real-sorted term of dtype dst; a concrete integer of magnitude <= 2**53 is its own float64"""
    z = to_z3(v, "real")
    src, dst = np.dtype(src), np.dtype(dst)
    if src.kind in "iu" and dst == F64 and not isinstance(v, Sym) and abs(int(v)) <= 2 ** 53:
        return z
    return cast_coord(eng, z, src, dst)


def stack_rows(eng, seq, promote_1d, what):
    parts = _row_parts(eng, seq, promote_1d)
    used(eng, f"{what} of (k, 3) arrays / lists of (3,) rows and (n, 3) clouds along axis 0: the fresh array holding the rows of the operands one after the other")
    total, offs = z3.IntVal(0), []
    for n, _, _, _ in parts:
        offs.append(total)
        total = z3.simplify(total + n)
    # numpy promotes all operands to their common dtype (an int cloud stacked on a float64 soma becomes float64, a float soma cast to an int
    # dtype BEFORE the stacking stays truncated): every operand goes through the cast model on its way into the result
    res = np.result_type(*[d for _, _, _, d in parts])
    parts = [(n, (lambda c, a, _g=get, _d=d: cast_coord(eng, _g(c, a), _d, res)), f, d) for n, get, f, d in parts]

    def cell(c, a):
        t = parts[-1][1](c, a - offs[-1])
        for (n, get, _, _), off in reversed(list(zip(parts[:-1], offs[:-1]))):
            t = z3.If(a < z3.simplify(off + n), get(c, a - off), t)
        return t

    out = Points([npmodels.lam(lambda a, _c=c: cell(_c, a), "real") for c in range(3)], total, name="points1", dtype=res)
    out.frozen = False
    out.fp = FP(False) if all(f is not None and not f.inexact for _, _, f, _ in parts) else None
    return out


def _seq_items(x):
    if isinstance(x, PList) and x.items is not None:
        return list(x.items)
    if isinstance(x, (list, tuple)):
        return list(x)
    return None


def _np_vstack(eng, args, kwargs):
    seq = _seq_items(args[0]) if args else None
    if seq is not None and any(isinstance(x, Points) for x in seq):
        if len(args) != 1 or kwargs:
            raise Unsupported("np.vstack arguments")
        return stack_rows(eng, seq, True, "np.vstack")
    raise Unsupported("np.vstack on this operand (modelled: rows stacked on a point cloud)")


def _np_copy_like(eng, recv, args, kwargs):
    out = Points(recv.cols, recv.n, name=recv.name + "_cp", dtype=recv.dtype)
    out.frozen = False
    out.fp = fp_of(recv)
    return out


def _b_len(eng, args, kwargs):
    if len(args) == 1 and isinstance(args[0], (Points, Bool3)):
        return eng.snum(args[0].nz(), "int")
    raise Unsupported("len of this value")


# ------------------------------------------------------------ constructors (symbolic shapes)
def _sym_shape(s):
    if isinstance(s, PList) and s.items is not None:
        s = tuple(s.items)
    if isinstance(s, Sym):
        return (s,)
    if isinstance(s, tuple) and any(isinstance(x, Sym) for x in s):
        return s
    return None


def _filled(eng, sh, value, kind, dt, name):
    used(eng, "np.zeros / np.ones / np.full of symbolic shape (n,) or (n, m): fresh array, every cell = the fill value")
    if kind == "int" and kind_of(value) == "real":
        raise Unsupported("real fill value for an int array")
    if len(sh) == 1:
        return V1(z3.K(I, to_z3(value, kind)), _z(sh[0]), kind, name=name, dtype=dt)
    if len(sh) == 2:
        m = M2.const(kind, _z(sh[0]), _z(sh[1]), value, name=name)
        m.dtype = dt
        return m
    raise Unsupported("symbolic shape of rank > 2")


def _np_zeros(eng, args, kwargs):
    sh = _sym_shape(args[0])
    if sh is None:
        return narr.np_zeros(eng, args, kwargs)
    dt = kwargs.get("dtype", args[1] if len(args) > 1 else None)
    k = npmodels.kind_of_dtype(dt) if dt is not None else "real"
    return _filled(eng, sh, False if k == "bool" else 0, k, dt, "zeros")


def _np_ones(eng, args, kwargs):
    sh = _sym_shape(args[0])
    if sh is None:
        return narr.np_ones(eng, args, kwargs)
    dt = kwargs.get("dtype", args[1] if len(args) > 1 else None)
    k = npmodels.kind_of_dtype(dt) if dt is not None else "real"
    return _filled(eng, sh, True if k == "bool" else 1, k, dt, "ones")


def _np_full(eng, args, kwargs):
    sh = _sym_shape(args[0])
    if sh is None:
        return narr.np_full(eng, args, kwargs)
    fv = kwargs.get("fill_value", args[1] if len(args) > 1 else None)
    dt = kwargs.get("dtype")
    k = npmodels.kind_of_dtype(dt) if dt is not None else kind_of(fv)
    if k is None:
        raise Unsupported("np.full fill value")
    return _filled(eng, sh, fv, k, dt, "full")


# ------------------------------------------------------------------ reductions of a symbolic matrix
def _nonempty(eng, n, m, what):
    """numpy raises ValueError for a reduction without identity / an argmin over an empty array"""
    c = eng.sbool(z3.And(n > 0, m > 0))
    if not eng.branch(c):
        raise ProgExc(ValueError, what + " of an empty array")


def _m2_red(is_max):
    def f(eng, recv, args, kwargs):
        if args or kwargs:
            raise Unsupported("matrix max/min with arguments")
        if recv.kind not in ("real", "int"):
            raise Unsupported("max/min of a non-numeric matrix")
        n, m = recv.nz(), recv.mz()
        _nonempty(eng, n, m, "max" if is_max else "min")
        used(eng, "M.max() / M.min() of a non-empty (n, m) matrix: bounds every cell and is the value of some cell")
        arr = recv.arr
        a, b = z3.Int(fresh_name("xa")), z3.Int(fresh_name("xb"))
        wa, wb = fresh("int", "ext_i"), fresh("int", "ext_j")
        r = fresh(recv.kind, "mx" if is_max else "mn")
        bound = (sel2(arr, a, b) <= r.z) if is_max else (sel2(arr, a, b) >= r.z)
        eng.assume(z3.And(0 <= wa.z, wa.z < n, 0 <= wb.z, wb.z < m, sel2(arr, wa.z, wb.z) == r.z,
                          z3.ForAll([a, b], z3.Implies(z3.And(0 <= a, a < n, 0 <= b, b < m), bound))))
        return r

    return f


def argmin_first(eng, cell, n, m, what="argmin"):
    """(A) ndarray.argmin() of a non-empty (n, m) array followed by np.unravel_index(., (n, m)): the cell (i, j) that comes FIRST in
    row-major order among the cells of minimal value.  `cell(a, b)` is the z3 term of cell (a, b)."""
    a, b = z3.Int(fresh_name("ua")), z3.Int(fresh_name("ub"))
    inr = z3.And(0 <= a, a < n, 0 <= b, b < m)
    i, j = fresh("int", "arg_i"), fresh("int", "arg_j")
    first = z3.Or(i.z < a, z3.And(i.z == a, j.z <= b))
    eng.assume(z3.And(0 <= i.z, i.z < n, 0 <= j.z, j.z < m,
                      z3.ForAll([a, b], z3.Implies(inr, z3.And(cell(i.z, j.z) <= cell(a, b), z3.Implies(cell(a, b) == cell(i.z, j.z), first))))))
    return i, j


def _m2_argmin(eng, recv, args, kwargs):
    if args or kwargs:
        raise Unsupported("ndarray.argmin with arguments")
    if recv.kind not in ("real", "int"):
        raise Unsupported("argmin of a non-numeric matrix")
    n, m = recv.nz(), recv.mz()
    _nonempty(eng, n, m, "argmin")
    used(eng, "ndarray.argmin() of a non-empty (n, m) matrix with np.unravel_index(., shape) = the first cell in row-major order among the cells of minimal value")
    arr = recv.arr
    i, j = argmin_first(eng, lambda x, y: sel2(arr, x, y), n, m)
    return FlatIdx(i, j, recv.n, recv.m)


def _np_where(eng, args, kwargs):
    """np.where(C, x, y) with an (n, m) condition: cellwise choice (x, y scalars or (n, m) matrices)"""
    if len(args) == 3 and isinstance(args[0], M2) and not kwargs:
        c, x, y = args
        if c.kind != "bool":
            raise Unsupported("np.where with a non-boolean matrix condition")
        ks = []
        for v in (x, y):
            if isinstance(v, M2):
                _shape_oblig(eng, c.n, v.n, "np.where: rows")
                _shape_oblig(eng, c.m, v.m, "np.where: columns")
                ks.append(v.kind)
            elif isinstance(v, SArr) or kind_of(v) is None:
                raise Unsupported("np.where(matrix, ., .) with an operand that is neither a scalar nor a matrix of the same shape")
            else:
                ks.append(kind_of(v))
        k = npmodels._join_kind(ks[0], ks[1])
        used(eng, "np.where(C, x, y) on an (n, m) boolean matrix: cell (a, b) is x[a, b] where C[a, b], else y[a, b] (scalars broadcast)")
        carr = c.arr
        import math

        ops = [x, y]
        for t in (0, 1):
            if isinstance(ops[t], float) and math.isinf(ops[t]):
                # +-inf next to a matrix of finite reals: a constant beyond every cell of the other operand (floats are reals: cells are finite)
                o = ops[1 - t]
                if not isinstance(o, M2):
                    raise Unsupported("np.where with an infinite scalar and a scalar")
                used(eng, "np.inf / -np.inf in np.where(C, inf, M): a real constant larger / smaller than every cell of M (floats are reals, cells are finite)")
                inf, oarr, pos = z3.Const(fresh_name("inf"), z3.RealSort()), o.arr, ops[t] > 0
                eng.assume(_cells2(c.nz(), c.mz(), lambda a, b: (sel2(oarr, a, b) < inf) if pos else (sel2(oarr, a, b) > inf)))
                ops[t] = Sym(inf, "real")
        x, y = ops
        g = [(lambda a, b, _v=v: to_z3(Sym(sel2(_v.arr, a, b), _v.kind), k)) if isinstance(v, M2) else (lambda a, b, _z=to_z3(v, k): _z) for v in (x, y)]
        return M2(lam2(lambda a, b: z3.If(sel2(carr, a, b), g[0](a, b), g[1](a, b))), c.n, c.m, k, name="where")
    if len(args) == 1 and not kwargs and isinstance(args[0], SArr) and args[0].kind == "bool" and not isinstance(args[0], (M2, ColVec, Bool3)):
        return (_positions(eng, args[0]),)  # np.where(mask) of a 1-D mask: the 1-tuple holding the positions of its true entries
    return npmodels._np_where(eng, args, kwargs)


# ------------------------------------------------------------------ masked argmin
class Masked:
    """numpy.ma.array(data, mask=mask) of two (n, m) matrices (the mask is shared, not copied)."""

    def __init__(self, data, mask):
        self.data, self.mask = data, mask
        self.uid = next_uid()

    def __pyvc_getattr__(self, eng, name):
        if name == "shape":
            return self.data.__pyvc_getattr__(eng, "shape")
        if name == "argmin":
            return NativeMethod(_masked_argmin, self, name)
        raise Unsupported(f"attribute {name} of a masked array")


class FlatIdx:
    """flat (row-major) position i * m + j of cell (i, j) in an (n, m) array"""

    def __init__(self, i, j, n, m):
        self.i, self.j, self.n, self.m = i, j, n, m


def _ma_array(eng, args, kwargs):
    data = args[0]
    mask = kwargs.get("mask", ma.nomask)
    extra = set(kwargs) - {"mask"}
    if not isinstance(data, M2) or not isinstance(mask, M2) or mask.kind != "bool" or extra or len(args) != 1:
        raise Unsupported("numpy.ma.array form (modelled: ma.array(matrix, mask=bool matrix))")
    _shape_oblig(eng, data.n, mask.n, "ma.array: data and mask rows")
    _shape_oblig(eng, data.m, mask.m, "ma.array: data and mask columns")
    return Masked(data, mask)


def _masked_argmin(eng, recv, args, kwargs):
    """MaskedArray.argmin() followed by np.unravel_index(., shape).

    numpy/ma/core.py:  argmin(axis=None, fill_value=None) = self.filled(minimum_fill_value(self)).view(ndarray).argmin().
    What is ASSUMED are these library primitives (cross-checked against numpy by tools/xcheck_ext_C17.py):
      (F) filled(v)[a, b] = v where mask[a, b], data[a, b] elsewhere;
      (I) minimum_fill_value of a float array is +inf, which is larger than every cell (floats are reals: finite);
      (A) ndarray.argmin() of a non-empty array is the flat position of the FIRST minimum in row-major order, and
          np.unravel_index(flat, (n, m)) = (flat // m, flat % m).
    What the carrier's proof USES - the result is an unmasked cell whose value is <= every unmasked cell - is DERIVED from them
    on the path (obligation `model/masked-argmin-returns-an-unmasked-minimal-cell`), given that some cell is unmasked (safety
    obligation `argmin-some-unmasked-entry`: numpy returns 0 silently for a fully masked array)."""
    if args or kwargs:
        raise Unsupported("MaskedArray.argmin with arguments")
    data, mask = recv.data, recv.mask
    if data.kind != "real":
        raise Unsupported("MaskedArray.argmin of a non-float array (its fill value is not +inf)")
    n, m = data.nz(), data.mz()
    a, b = z3.Int(fresh_name("ua")), z3.Int(fresh_name("ub"))
    inr = z3.And(0 <= a, a < n, 0 <= b, b < m)
    marr, darr = mask.arr, data.arr
    if not eng.spec_mode:
        eng.prove(eng.site("argmin-some-unmasked-entry"), z3.Exists([a, b], z3.And(inr, z3.Not(sel2(marr, a, b)))), "safety",
                  "MaskedArray.argmin() of a fully masked array returns 0 without any error")
    used(eng, "MaskedArray.argmin() with np.unravel_index(., shape) = first row-major minimum of the array in which the masked cells are replaced by "
              "+inf (primitives: filled, minimum_fill_value(float) = +inf > every cell, ndarray.argmin = first minimum); the characterisation used by "
              "the proof (an unmasked cell, minimal among the unmasked ones) is derived from these on the path; REQUIRES some unmasked cell "
              "(proof obligation argmin-some-unmasked-entry)")
    inf = z3.Const(fresh_name("ma_inf"), z3.RealSort())
    filled = lambda x, y: z3.If(sel2(marr, x, y), inf, sel2(darr, x, y))                                                          # (F)
    eng.assume(z3.ForAll([a, b], z3.Implies(inr, sel2(darr, a, b) < inf)))                                                     # (I)
    i, j = argmin_first(eng, filled, n, m)                                                                                         # (A): the same primitive as ndarray.argmin
    derived = z3.And(z3.Not(sel2(marr, i.z, j.z)), z3.ForAll([a, b], z3.Implies(z3.And(inr, z3.Not(sel2(marr, a, b))), sel2(darr, i.z, j.z) <= sel2(darr, a, b))))
    if not eng.spec_mode:
        fn = (eng.cur_key or "?").split(":")[-1]
        eng.prove(f"{fn}/model/masked-argmin-returns-an-unmasked-minimal-cell", derived, "annotation", "derived from the numpy primitives filled / +inf fill value / first minimum")
    else:
        eng.assume(derived)
    return FlatIdx(i, j, data.n, data.m)


def _np_unravel_index(eng, args, kwargs):
    flat, shape = args[0], args[1]
    if isinstance(flat, FlatIdx):
        if kwargs or len(args) != 2:
            raise Unsupported("np.unravel_index order argument")
        if isinstance(shape, PList) and shape.items is not None:
            shape = tuple(shape.items)
        if not (isinstance(shape, tuple) and len(shape) == 2 and _same(shape[0], flat.n) and _same(shape[1], flat.m)):
            raise Unsupported("np.unravel_index of an argmin position with a shape other than the array's own")
        return (flat.i, flat.j)
    raise Unsupported("np.unravel_index on symbolic data (modelled only for the result of MaskedArray.argmin())")


# -------------------------------------------------------------- tail: DataFrame.from_dict
def _df_from_dict(eng, args, kwargs):
    d = args[0]
    if kwargs or len(args) != 1 or not isinstance(d, PDict) or d.items is None:
        raise Unsupported("pd.DataFrame.from_dict form")
    used(eng, "pd.DataFrame.from_dict(dict of equally long 1-D arrays and scalars): frame with these columns (copied), scalars broadcast")
    n = None
    for v in d.items.values():
        if isinstance(v, SArr):
            if n is None:
                n = v.n
            else:
                _shape_oblig(eng, n, v.n, "DataFrame.from_dict: all arrays must be of the same length")
    if n is None:
        raise Unsupported("DataFrame.from_dict of scalars only")
    cols = {}
    for k, v in d.items.items():
        if isinstance(v, SArr):
            cols[k] = SArr(v.arr, n, v.kind, name=str(k), dtype=v.dtype)
        elif kind_of(v) is not None:
            cols[k] = SArr(z3.K(I, to_z3(v, kind_of(v))), n, kind_of(v), name=str(k))
        else:
            raise Unsupported("DataFrame.from_dict column value")
    return npmodels.DFrame(cols, n)


# ------------------------------------------------------------------- registration
def _dispatch(orig):
    def f(eng, op, a, b):
        for x in (a, b):
            h = getattr(x, "__pyvc_binop__", None)
            if h is not None:
                return h(eng, op, a, b)
        return orig(eng, op, a, b)

    f._c17 = True
    return f


def _dispatch_compare(orig):
    def f(eng, op, a, b):
        for x in (a, b):
            h = getattr(x, "__pyvc_compare__", None)
            if h is not None:
                r = h(eng, op, a, b)
                if r is not NotImplemented:
                    return r
        return orig(eng, op, a, b)

    f._c17 = True
    return f


def _dispatch_unop(orig):
    def f(eng, op, a):
        h = getattr(a, "__pyvc_unop__", None)
        if h is not None:
            return h(eng, op)
        return orig(eng, op, a)

    f._c17 = True
    return f


def _guard(fn, applies, mine):
    cur = models.EXTRA_MODELS.get(fn)
    if getattr(cur, "_c17_guard", None) is fn:
        return

    def f(eng, args, kwargs):
        if applies(args, kwargs):
            return mine(eng, args, kwargs)
        m = cur if cur is not None else (models.BUILTIN_MODELS.get(fn) or npmodels.lookup_model(fn))
        if m is None:
            raise Unsupported(f"call to unmodelled {getattr(fn, '__module__', '')}.{getattr(fn, '__name__', fn)}")
        return m(eng, args, kwargs)

    f._c17_guard = fn
    models.EXTRA_MODELS[fn] = f


def install():
    import pandas as pd

    models.EXTRA_MODELS.update({
        np.zeros: _np_zeros, np.ones: _np_ones, np.full: _np_full, np.linalg.norm: _np_norm, np.concatenate: _np_concatenate,
        ma.array: _ma_array, ma.masked_array: _ma_array, np.unravel_index: _np_unravel_index, pd.DataFrame.from_dict: _df_from_dict, np.where: _np_where,
        np.einsum: _np_einsum, np.sqrt: _np_sqrt, np.maximum: _np_maximum,
    })
    # functions that other properties model as well (process-wide table): ours serve only calls with a point cloud among the operands,
    # every other call goes to the model that was registered before (or to the stock one)
    cloud = lambda args, kwargs: any(isinstance(x, (Points, Bool3)) for x in args[:2])
    cloud1 = lambda args, kwargs: bool(args) and isinstance(args[0], Points)
    stacked = lambda args, kwargs: bool(args) and _seq_items(args[0]) is not None and any(isinstance(x, Points) for x in _seq_items(args[0]))
    mask1 = lambda args, kwargs: len(args) == 1 and isinstance(args[0], SArr) and args[0].kind == "bool" and not isinstance(args[0], (M2, ColVec, Bool3))
    for fn, applies, mine in ((np.isclose, cloud, _np_isclose), (np.allclose, cloud, _np_allclose), (np.all, cloud, _np_all_any("all")), (np.any, cloud, _np_all_any("any")),
                              (np.abs, cloud, _np_abs), (np.absolute, cloud, _np_abs), (np.delete, cloud, _np_delete), (np.unique, cloud, _np_unique),
                              (np.vstack, stacked, _np_vstack), (np.array, cloud1, _np_array_of_cloud(True)), (np.asarray, cloud1, _np_array_of_cloud(False)), (np.flatnonzero, mask1, _np_flatnonzero), (len, cloud, _b_len)):
        _guard(fn, applies, mine)
    # binary operators on the extension arrays: the engine sends every SArr operand to models.array_binop; values that
    # carry a __pyvc_binop__ method are served by it, everything else goes to the stock implementation unchanged
    if not getattr(models.array_binop, "_c17", False):
        models.array_binop = _dispatch(models.array_binop)
    # the same for comparisons and unary operators that reach the array dispatch (an NArr / SArr operand next to an extension value)
    if not getattr(models.array_compare, "_c17", False):
        models.array_compare = _dispatch_compare(models.array_compare)
    if not getattr(models.array_unop, "_c17", False):
        models.array_unop = _dispatch_unop(models.array_unop)
