"""Library models for C17 (swcgeom/transforms/mst.py): symbolic n x m matrices, the pairwise-distance
idiom, numpy.ma argmin.  Registered through pyvc.models.EXTRA_MODELS when contracts.C17 is imported.

Value types (all subclasses of SArr so that the engine's array dispatch, loop havoc and frame checks apply):
  V1      1-D array of symbolic length that additionally supports `a[:, None]`
  ColVec  the (n, 1) view `a[:, None]` of a 1-D array
  M2      (n, m) matrix, both extents symbolic: z3 Array (Int, Int) -> elem
  Points  (n, 3) point cloud (three coordinate columns)       [not an SArr: immutable input]
  Resh / PairDiff   `P.reshape((-1,1,3))`, `P.reshape((1,-1,3))` and their difference
  Masked  numpy.ma.array(data, mask=mask);  FlatIdx  the flat position returned by Masked.argmin()

Every model records what it assumes with eng.assumptions.add("numpy-model(C17): ...").
"""
from __future__ import annotations

import ast

import numpy as np
import z3
from numpy import ma

from . import models, narr, npmodels
from .engine import ProgExc, Unsupported
from .values import NArr, NativeMethod, PDict, PList, SArr, Sym, fresh, fresh_name, kind_of, sort_of, to_z3, zint, next_uid

I = z3.IntSort()


def used(eng, what):
    eng.assumptions.add("numpy-model(C17): " + what)


def _z(n):
    return n.z if isinstance(n, Sym) else zint(n)


def _is_full(s):
    return isinstance(s, slice) and s.start is None and s.stop is None and s.step is None


def _same(a, b):
    return z3.is_true(z3.simplify(_z(a) == _z(b)))


def _shape_oblig(eng, a, b, what):
    g = z3.simplify(_z(a) == _z(b))
    if z3.is_true(g):
        return
    if z3.is_false(g):
        raise ProgExc(ValueError, "operands could not be broadcast together: " + what)
    if not eng.spec_mode:
        eng.prove(eng.site("shape-match"), g, "shape", what)


def _ix(a):
    return a if isinstance(a, z3.ExprRef) else (a.z if isinstance(a, Sym) else z3.IntVal(int(a)))


def sel2(arr, a, b):
    """arr[a, b] with the outermost lambda beta-reduced (bodies are built with sel2, so terms stay lambda-free)."""
    a, b = _ix(a), _ix(b)
    if z3.is_quantifier(arr) and arr.is_lambda() and arr.num_vars() == 2:
        return z3.substitute_vars(arr.body(), b, a)
    return z3.Select(arr, a, b)


def lam2(f):
    a, b = z3.Int(fresh_name("ra")), z3.Int(fresh_name("cb"))
    return z3.Lambda([a, b], f(a, b))


def sel1(arr, a):
    a = _ix(a)
    if z3.is_quantifier(arr) and arr.is_lambda() and arr.num_vars() == 1:
        return z3.substitute_vars(arr.body(), a)
    return z3.Select(arr, a)


UMUL = z3.Function("umul", z3.RealSort(), z3.RealSort(), z3.RealSort())


def rmul(eng, x, y):
    """x * y for two real terms.  A product of two SYMBOLIC factors is abstracted by the uninterpreted umul(x, y): the
    obligations then hold for every binary function in its place, in particular for multiplication (sound; it only
    loses arithmetic facts about the product, which keeps the solver in linear arithmetic)."""
    if z3.is_rational_value(x) or z3.is_int_value(x) or z3.is_rational_value(y) or z3.is_int_value(y):
        return x * y
    if eng is not None:
        used(eng, "a product of two symbolic reals (scalar * array cell) is abstracted as an uninterpreted function umul(scalar, cell)")
    return UMUL(x, y)


def _arith(eng, op, x, y, k, scalar=None):
    """x op y on z3 terms of kind k; `scalar` = 0 / 1 tells which operand is the broadcast scalar (put first in umul)"""
    if isinstance(op, ast.Mult) and k == "real":
        return rmul(eng, y, x) if scalar == 1 else rmul(eng, x, y)
    return npmodels._z3op(op, x, y)


class XArr(SArr):
    """marker: extension array values"""


# --------------------------------------------------------------------------- 1-D
class V1(XArr):
    def get(self, i):
        return Sym(sel1(self.arr, to_z3(i, "int")), self.kind)

    def __pyvc_getitem__(self, eng, idx):
        if isinstance(idx, tuple) and len(idx) == 2 and _is_full(idx[0]) and idx[1] is None:
            used(eng, "a[:, None] is the (n, 1) column view of a 1-D array")
            return ColVec(self)
        if isinstance(idx, tuple) and len(idx) == 2 and idx[0] is None and _is_full(idx[1]):
            return SArr(self.arr, self.n, self.kind, name=self.name + "_row")  # (1, n): broadcasts like the 1-D array itself
        if (isinstance(idx, int) and not isinstance(idx, bool)) or isinstance(idx, Sym):
            iz = models.norm_index(eng, idx, self.n, "array index")
            return Sym(sel1(self.arr, iz), self.kind)
        return npmodels.getitem(eng, SArr(self.arr, self.n, self.kind, self.name, self.dtype), idx)

    def __pyvc_setitem__(self, eng, idx, val):
        models.check_frame(eng, self)
        if not ((isinstance(idx, int) and not isinstance(idx, bool)) or isinstance(idx, Sym)):
            raise Unsupported("vector store into a symbolic 1-D array")
        if self.kind == "int" and kind_of(val) == "real":
            raise Unsupported("store of a real into an int array")
        iz = models.norm_index(eng, idx, self.n, "array store")
        self.arr = z3.Store(self.arr, iz, to_z3(val, self.kind))


class ColVec(XArr):
    """(n, 1) view of a 1-D array, possibly under an elementwise scalar expression (reads go to the CURRENT contents
    of the source array: it is a view)."""

    def __init__(self, src, f=None, kind=None):
        super().__init__(src.arr, src.n, kind or src.kind, name=src.name + "_col")
        self.src, self.f = src, f

    def cell(self, a):
        return self.f(a) if self.f is not None else to_z3(self.src.get(a))

    def get(self, i):
        raise Unsupported("1-D access to a column view")

    def __pyvc_getattr__(self, eng, name):
        if name == "shape":
            return (eng.snum(self.nz(), "int"), 1)
        raise Unsupported(f"attribute {name} of a column view")

    def __pyvc_getitem__(self, eng, idx):
        raise Unsupported("subscript of a column view")

    def __pyvc_setitem__(self, eng, idx, val):
        raise Unsupported("store into a column view")

    def __pyvc_binop__(self, eng, op, a, b):
        other, left = (b, True) if a is self else (a, False)
        if isinstance(other, M2):
            return other.__pyvc_binop__(eng, op, a, b)
        ko = kind_of(other)
        if ko is None:
            raise Unsupported(f"column view {type(op).__name__} {type(other).__name__}")
        used(eng, "elementwise arithmetic with numpy broadcasting")
        k = npmodels._join_kind(self.kind, ko, op)
        oz = to_z3(other, k)
        cell, mk = self.cell, self.kind
        if left:
            f = lambda x: _arith(eng, op, to_z3(Sym(cell(x), mk), k), oz, k, scalar=1)
        else:
            f = lambda x: _arith(eng, op, oz, to_z3(Sym(cell(x), mk), k), k, scalar=0)
        return ColVec(self.src, f, k)


# --------------------------------------------------------------------------- 2-D
class M2(XArr):
    """(n, m) matrix with symbolic extents; `arr`: z3 Array (Int, Int) -> elem."""

    def __init__(self, arr, n, m, kind, name="M", dtype=None):
        super().__init__(arr, n, kind, name=name, dtype=dtype)
        self.m = m

    @staticmethod
    def fresh(kind, n, m, name="M"):
        return M2(z3.Const(fresh_name(name), z3.ArraySort(I, I, sort_of(kind))), n, m, kind, name=name)

    @staticmethod
    def const(kind, n, m, value, name="M"):
        vz = to_z3(value, kind)
        return M2(lam2(lambda a, b: vz), n, m, kind, name=name)

    def mz(self):
        return _z(self.m)

    def get2(self, a, b):
        return sel2(self.arr, to_z3(a, "int"), to_z3(b, "int"))

    def get(self, i):
        raise Unsupported("1-D access to a symbolic matrix")

    def __pyvc_getattr__(self, eng, name):
        if name == "shape":
            return (eng.snum(self.nz(), "int"), eng.snum(self.mz(), "int"))
        if name == "ndim":
            return 2
        if name == "dtype":
            return self.dtype if self.dtype is not None else npmodels.dtype_of_kind(self.kind)
        if name == "copy":
            return NativeMethod(lambda e, r, a, k: M2(r.arr, r.n, r.m, r.kind, r.name + "_cp", r.dtype), self, name)
        if name == "T":
            arr = self.arr
            return M2(lam2(lambda a, b: sel2(arr, b, a)), self.m, self.n, self.kind, self.name + "_T", self.dtype)
        raise Unsupported(f"attribute {name} of a symbolic matrix")

    def _scalar_idx(self, x):
        return (isinstance(x, int) and not isinstance(x, bool)) or isinstance(x, Sym)

    def __pyvc_getitem__(self, eng, idx):
        if isinstance(idx, tuple) and len(idx) == 2:
            r, c = idx
            if self._scalar_idx(r) and self._scalar_idx(c):
                rz = models.norm_index(eng, r, self.n, "matrix row index")
                cz = models.norm_index(eng, c, self.m, "matrix column index")
                return Sym(sel2(self.arr, rz, cz), self.kind)
            arr = self.arr
            if self._scalar_idx(r) and _is_full(c):
                rz = models.norm_index(eng, r, self.n, "matrix row index")
                return SArr(npmodels.lam(lambda x: sel2(arr, rz, x), self.kind), self.m, self.kind, name=self.name + "_row")
            if _is_full(r) and self._scalar_idx(c):
                cz = models.norm_index(eng, c, self.m, "matrix column index")
                return SArr(npmodels.lam(lambda x: sel2(arr, x, cz), self.kind), self.n, self.kind, name=self.name + "_col")
        raise Unsupported("index form on a symbolic matrix")

    def __pyvc_setitem__(self, eng, idx, val):
        models.check_frame(eng, self)
        if not (isinstance(idx, tuple) and len(idx) == 2):
            raise Unsupported("store form on a symbolic matrix")
        r, c = idx
        old = self.arr
        k = self.kind
        used(eng, "m[i, :] = v / m[:, j] = v / m[i, j] = v write exactly that row / column / cell (a 1-D right-hand side is copied elementwise)")

        def rhs(length, what):
            """cell value as a function of the position along the written line"""
            if isinstance(val, M2) or isinstance(val, ColVec):
                raise Unsupported("2-D right-hand side in a matrix store")
            if isinstance(val, SArr):
                _shape_oblig(eng, val.n, length, what)
                src = val.arr  # value copy at the time of the store
                vk = val.kind
                return lambda x: to_z3(Sym(sel1(src, x), vk), k)
            if kind_of(val) is None:
                raise Unsupported("right-hand side of a matrix store")
            if k == "int" and kind_of(val) == "real":
                raise Unsupported("store of a real into an int matrix")
            vz = to_z3(val, k)
            return lambda x: vz

        if self._scalar_idx(r) and self._scalar_idx(c):
            rz = models.norm_index(eng, r, self.n, "matrix row index")
            cz = models.norm_index(eng, c, self.m, "matrix column index")
            f = rhs(1, "cell store")
            vz = f(z3.IntVal(0))
            self.arr = lam2(lambda a, b: z3.If(z3.And(a == rz, b == cz), vz, sel2(old, a, b)))
            return
        if self._scalar_idx(r) and _is_full(c):
            rz = models.norm_index(eng, r, self.n, "matrix row index")
            f = rhs(self.m, "row store")
            self.arr = lam2(lambda a, b: z3.If(a == rz, f(b), sel2(old, a, b)))
            return
        if _is_full(r) and self._scalar_idx(c):
            cz = models.norm_index(eng, c, self.m, "matrix column index")
            f = rhs(self.n, "column store")
            self.arr = lam2(lambda a, b: z3.If(b == cz, f(a), sel2(old, a, b)))
            return
        raise Unsupported("store form on a symbolic matrix")

    def __pyvc_binop__(self, eng, op, a, b):
        used(eng, "elementwise arithmetic with numpy broadcasting")
        me_left = a is self
        other = b if me_left else a
        arr = self.arr
        sk = self.kind
        scalar = False
        if isinstance(other, M2):
            _shape_oblig(eng, self.n, other.n, "matrix rows")
            _shape_oblig(eng, self.m, other.m, "matrix columns")
            oarr, ok = other.arr, other.kind
            oc = lambda x, y: Sym(sel2(oarr, x, y), ok)
        elif isinstance(other, ColVec):
            _shape_oblig(eng, self.n, other.n, "(n, m) with (n', 1): rows")
            ok = other.kind
            cell = other.cell
            oc = lambda x, y: Sym(cell(x), ok)
        elif isinstance(other, SArr):  # 1-D operand: broadcast along the LAST axis
            _shape_oblig(eng, self.m, other.n, "(n, m) with (m',): columns")
            oarr, ok = other.arr, other.kind
            oc = lambda x, y: Sym(sel1(oarr, y), ok)
        elif kind_of(other) is not None:
            ok = kind_of(other)
            oc = lambda x, y: other
            scalar = True
        else:
            raise Unsupported(f"matrix {type(op).__name__} {type(other).__name__}")
        k = npmodels._join_kind(sk, ok, op)
        ck = "bool" if isinstance(op, (ast.BitAnd, ast.BitOr)) else k
        if me_left:
            body = lambda x, y: _arith(eng, op, to_z3(Sym(sel2(arr, x, y), sk), ck), to_z3(oc(x, y), ck), ck, scalar=1 if scalar else None)
        else:
            body = lambda x, y: _arith(eng, op, to_z3(oc(x, y), ck), to_z3(Sym(sel2(arr, x, y), sk), ck), ck, scalar=0 if scalar else None)
        return M2(lam2(body), self.n, self.m, k, name="expr")


# --------------------------------------------------------------------- point cloud
class Points:
    """(n, 3) array of reals with symbolic n (columns x, y, z).  An input: stores are frame violations."""

    def __init__(self, cols, n, name="points"):
        self.cols = list(cols)
        self.n = n
        self.name = name
        self.uid = next_uid()
        self.frozen = True

    @staticmethod
    def fresh(n, name="points"):
        return Points([z3.Const(fresh_name(f"{name}_{c}"), z3.ArraySort(I, z3.RealSort())) for c in "xyz"], n, name)

    def nz(self):
        return _z(self.n)

    def __pyvc_snapshot__(self, memo):
        c = Points(self.cols, self.n, self.name)
        c.uid = self.uid
        return c

    def __pyvc_getattr__(self, eng, name):
        if name == "shape":
            return (eng.snum(self.nz(), "int"), 3)
        if name == "ndim":
            return 2
        if name == "reshape":
            return NativeMethod(_pts_reshape, self, name)
        raise Unsupported(f"attribute {name} of the point cloud")

    def __pyvc_getitem__(self, eng, idx):
        if isinstance(idx, tuple) and len(idx) == 2 and _is_full(idx[0]) and isinstance(idx[1], int) and not isinstance(idx[1], bool):
            if not -3 <= idx[1] < 3:
                raise ProgExc(IndexError, "column index")
            return SArr(self.cols[idx[1]], self.n, "real", name=f"{self.name}_{'xyz'[idx[1]]}")
        if isinstance(idx, tuple) and len(idx) == 2 and isinstance(idx[1], int) and not isinstance(idx[1], bool):
            iz = models.norm_index(eng, idx[0], self.n, "point index")
            return Sym(z3.Select(self.cols[idx[1]], iz), "real")
        if (isinstance(idx, int) and not isinstance(idx, bool)) or isinstance(idx, Sym):
            iz = models.norm_index(eng, idx, self.n, "point index")
            return NArr((3,), [Sym(z3.Select(c, iz), "real") for c in self.cols], "real")
        raise Unsupported("index form on the point cloud")

    def __pyvc_setitem__(self, eng, idx, val):
        if not eng.spec_mode:
            eng.prove(eng.site("frame-write"), False, "frame", "write to the input point cloud")


def _pts_reshape(eng, recv, args, kwargs):
    sh = args[0] if len(args) == 1 else tuple(args)
    if isinstance(sh, PList):
        sh = tuple(sh.items)
    if sh == (-1, 1, 3):
        return Resh(recv, "col")
    if sh == (1, -1, 3):
        return Resh(recv, "row")
    raise Unsupported(f"reshape{sh} of the point cloud")


class Resh(XArr):
    def __init__(self, pts, axis):
        super().__init__(z3.K(I, z3.RealVal(0)), pts.n, "real", name="reshaped")
        self.pts, self.axis = pts, axis

    def __pyvc_binop__(self, eng, op, a, b):
        if isinstance(op, ast.Sub) and isinstance(a, Resh) and isinstance(b, Resh) and a.pts is b.pts and {a.axis, b.axis} == {"col", "row"}:
            used(eng, "P.reshape((-1,1,3)) - P.reshape((1,-1,3)) is the (n, n, 3) array of pairwise differences P[a] - P[b]")
            return PairDiff(a.pts, swapped=(a.axis == "row"))
        raise Unsupported("arithmetic on a reshaped point cloud other than the pairwise difference")


class PairDiff(XArr):
    def __init__(self, pts, swapped=False):
        super().__init__(z3.K(I, z3.RealVal(0)), pts.n, "real", name="pairdiff")
        self.pts, self.swapped = pts, swapped

    def __pyvc_binop__(self, eng, op, a, b):
        raise Unsupported("arithmetic on the pairwise-difference array")


def euclid(eng, pts):
    """ghost function edist(a, b) = |P[a] - P[b]| of a point cloud (one per Points value)."""
    key = ("edist", pts.uid)
    f = eng.ghost.get(key)
    if f is None:
        f = z3.Function(fresh_name("edist"), I, I, z3.RealSort())
        a, b = z3.Int(fresh_name("ea")), z3.Int(fresh_name("eb"))
        eng.assume(z3.ForAll([a, b], z3.And(f(a, b) >= 0, f(a, b) == f(b, a)), patterns=[f(a, b)]))
        eng.assume(z3.ForAll([a], f(a, a) == 0, patterns=[f(a, a)]))
        eng.ghost[key] = f
    return f


def _np_norm(eng, args, kwargs):
    x = args[0]
    if isinstance(x, PairDiff):
        if kwargs.get("axis", args[2] if len(args) > 2 else None) != 2 or kwargs.get("ord", args[1] if len(args) > 1 else None) is not None:
            raise Unsupported("np.linalg.norm of the pairwise differences: only the Euclidean norm over axis=2")
        used(eng, "np.linalg.norm(P.reshape((-1,1,3)) - P.reshape((1,-1,3)), axis=2)[a, b] = edist(a, b), the Euclidean distance of "
                  "P[a] and P[b]; only edist >= 0, edist(a, b) = edist(b, a), edist(a, a) = 0 are used (edist is otherwise abstract)")
        f = euclid(eng, x.pts)
        return M2(lam2((lambda a, b: f(b, a)) if x.swapped else (lambda a, b: f(a, b))), x.pts.n, x.pts.n, "real", name="dis")
    if isinstance(x, (XArr, Points)):
        raise Unsupported("np.linalg.norm of this value")
    return narr.np_norm(eng, args, kwargs)


def _np_concatenate(eng, args, kwargs):
    seq = args[0].items if isinstance(args[0], PList) else args[0]
    if isinstance(seq, (list, tuple)) and any(isinstance(x, Points) for x in seq):
        if len(seq) == 2 and isinstance(seq[1], Points) and isinstance(seq[0], PList) and seq[0].items is not None and len(seq[0].items) == 1 and kwargs.get("axis", 0) == 0 and len(args) == 1:
            row = seq[0].items[0]
            if isinstance(row, NArr) and row.shape == (3,):
                used(eng, "np.concatenate([[s], P]) is the fresh (n+1, 3) array with row 0 = s and row a+1 = P[a]")
                pts = seq[1]
                cols = []
                for c in range(3):
                    sz, pc = to_z3(row.items[c], "real"), pts.cols[c]
                    cols.append(npmodels.lam(lambda x, _s=sz, _p=pc: z3.If(x == 0, _s, z3.Select(_p, x - 1)), "real"))
                out = Points(cols, z3.simplify(pts.nz() + 1), name="points1")
                out.frozen = False
                return out
        raise Unsupported("np.concatenate form on the point cloud")
    return narr.np_concatenate(eng, args, kwargs)


# ------------------------------------------------------------ constructors (symbolic shapes)
def _sym_shape(s):
    if isinstance(s, PList) and s.items is not None:
        s = tuple(s.items)
    if isinstance(s, Sym):
        return (s,)
    if isinstance(s, tuple) and any(isinstance(x, Sym) for x in s):
        return s
    return None


def _filled(eng, sh, value, kind, dt, name):
    used(eng, "np.zeros / np.ones / np.full of symbolic shape (n,) or (n, m): fresh array, every cell = the fill value")
    if kind == "int" and kind_of(value) == "real":
        raise Unsupported("real fill value for an int array")
    if len(sh) == 1:
        return V1(z3.K(I, to_z3(value, kind)), _z(sh[0]), kind, name=name, dtype=dt)
    if len(sh) == 2:
        m = M2.const(kind, _z(sh[0]), _z(sh[1]), value, name=name)
        m.dtype = dt
        return m
    raise Unsupported("symbolic shape of rank > 2")


def _np_zeros(eng, args, kwargs):
    sh = _sym_shape(args[0])
    if sh is None:
        return narr.np_zeros(eng, args, kwargs)
    dt = kwargs.get("dtype", args[1] if len(args) > 1 else None)
    k = npmodels.kind_of_dtype(dt) if dt is not None else "real"
    return _filled(eng, sh, False if k == "bool" else 0, k, dt, "zeros")


def _np_ones(eng, args, kwargs):
    sh = _sym_shape(args[0])
    if sh is None:
        return narr.np_ones(eng, args, kwargs)
    dt = kwargs.get("dtype", args[1] if len(args) > 1 else None)
    k = npmodels.kind_of_dtype(dt) if dt is not None else "real"
    return _filled(eng, sh, True if k == "bool" else 1, k, dt, "ones")


def _np_full(eng, args, kwargs):
    sh = _sym_shape(args[0])
    if sh is None:
        return narr.np_full(eng, args, kwargs)
    fv = kwargs.get("fill_value", args[1] if len(args) > 1 else None)
    dt = kwargs.get("dtype")
    k = npmodels.kind_of_dtype(dt) if dt is not None else kind_of(fv)
    if k is None:
        raise Unsupported("np.full fill value")
    return _filled(eng, sh, fv, k, dt, "full")


# ------------------------------------------------------------------ masked argmin
class Masked:
    """numpy.ma.array(data, mask=mask) of two (n, m) matrices (the mask is shared, not copied)."""

    def __init__(self, data, mask):
        self.data, self.mask = data, mask
        self.uid = next_uid()

    def __pyvc_getattr__(self, eng, name):
        if name == "shape":
            return self.data.__pyvc_getattr__(eng, "shape")
        if name == "argmin":
            return NativeMethod(_masked_argmin, self, name)
        raise Unsupported(f"attribute {name} of a masked array")


class FlatIdx:
    """flat (row-major) position i * m + j of cell (i, j) in an (n, m) array"""

    def __init__(self, i, j, n, m):
        self.i, self.j, self.n, self.m = i, j, n, m


def _ma_array(eng, args, kwargs):
    data = args[0]
    mask = kwargs.get("mask", ma.nomask)
    extra = set(kwargs) - {"mask"}
    if not isinstance(data, M2) or not isinstance(mask, M2) or mask.kind != "bool" or extra or len(args) != 1:
        raise Unsupported("numpy.ma.array form (modelled: ma.array(matrix, mask=bool matrix))")
    _shape_oblig(eng, data.n, mask.n, "ma.array: data and mask rows")
    _shape_oblig(eng, data.m, mask.m, "ma.array: data and mask columns")
    return Masked(data, mask)


def _masked_argmin(eng, recv, args, kwargs):
    """MaskedArray.argmin() followed by np.unravel_index(., shape).

    numpy/ma/core.py:  argmin(axis=None, fill_value=None) = self.filled(minimum_fill_value(self)).view(ndarray).argmin().
    What is ASSUMED are these library primitives (cross-checked against numpy by tools/xcheck_ext_C17.py):
      (F) filled(v)[a, b] = v where mask[a, b], data[a, b] elsewhere;
      (I) minimum_fill_value of a float array is +inf, which is larger than every cell (floats are reals: finite);
      (A) ndarray.argmin() of a non-empty array is the flat position of the FIRST minimum in row-major order, and
          np.unravel_index(flat, (n, m)) = (flat // m, flat % m).
    What the carrier's proof USES - the result is an unmasked cell whose value is <= every unmasked cell - is DERIVED from them
    on the path (obligation `model/masked-argmin-returns-an-unmasked-minimal-cell`), given that some cell is unmasked (safety
    obligation `argmin-some-unmasked-entry`: numpy returns 0 silently for a fully masked array)."""
    if args or kwargs:
        raise Unsupported("MaskedArray.argmin with arguments")
    data, mask = recv.data, recv.mask
    if data.kind != "real":
        raise Unsupported("MaskedArray.argmin of a non-float array (its fill value is not +inf)")
    n, m = data.nz(), data.mz()
    a, b = z3.Int(fresh_name("ua")), z3.Int(fresh_name("ub"))
    inr = z3.And(0 <= a, a < n, 0 <= b, b < m)
    marr, darr = mask.arr, data.arr
    if not eng.spec_mode:
        eng.prove(eng.site("argmin-some-unmasked-entry"), z3.Exists([a, b], z3.And(inr, z3.Not(sel2(marr, a, b)))), "safety",
                  "MaskedArray.argmin() of a fully masked array returns 0 without any error")
    used(eng, "MaskedArray.argmin() with np.unravel_index(., shape) = first row-major minimum of the array in which the masked cells are replaced by "
              "+inf (primitives: filled, minimum_fill_value(float) = +inf > every cell, ndarray.argmin = first minimum); the characterisation used by "
              "the proof (an unmasked cell, minimal among the unmasked ones) is derived from these on the path; REQUIRES some unmasked cell "
              "(proof obligation argmin-some-unmasked-entry)")
    i, j = fresh("int", "arg_i"), fresh("int", "arg_j")
    inf = z3.Const(fresh_name("ma_inf"), z3.RealSort())
    filled = lambda x, y: z3.If(sel2(marr, x, y), inf, sel2(darr, x, y))
    eng.assume(z3.ForAll([a, b], z3.Implies(inr, sel2(darr, a, b) < inf)))                                                     # (I)
    first = z3.Or(i.z < a, z3.And(i.z == a, j.z <= b))
    eng.assume(z3.And(0 <= i.z, i.z < n, 0 <= j.z, j.z < m,                                                                        # (F), (A)
                      z3.ForAll([a, b], z3.Implies(inr, z3.And(filled(i.z, j.z) <= filled(a, b), z3.Implies(filled(a, b) == filled(i.z, j.z), first))))))
    derived = z3.And(z3.Not(sel2(marr, i.z, j.z)), z3.ForAll([a, b], z3.Implies(z3.And(inr, z3.Not(sel2(marr, a, b))), sel2(darr, i.z, j.z) <= sel2(darr, a, b))))
    if not eng.spec_mode:
        fn = (eng.cur_key or "?").split(":")[-1]
        eng.prove(f"{fn}/model/masked-argmin-returns-an-unmasked-minimal-cell", derived, "annotation", "derived from the numpy primitives filled / +inf fill value / first minimum")
    else:
        eng.assume(derived)
    return FlatIdx(i, j, data.n, data.m)


def _np_unravel_index(eng, args, kwargs):
    flat, shape = args[0], args[1]
    if isinstance(flat, FlatIdx):
        if kwargs or len(args) != 2:
            raise Unsupported("np.unravel_index order argument")
        if isinstance(shape, PList) and shape.items is not None:
            shape = tuple(shape.items)
        if not (isinstance(shape, tuple) and len(shape) == 2 and _same(shape[0], flat.n) and _same(shape[1], flat.m)):
            raise Unsupported("np.unravel_index of an argmin position with a shape other than the array's own")
        return (flat.i, flat.j)
    raise Unsupported("np.unravel_index on symbolic data (modelled only for the result of MaskedArray.argmin())")


# -------------------------------------------------------------- tail: DataFrame.from_dict
def _df_from_dict(eng, args, kwargs):
    d = args[0]
    if kwargs or len(args) != 1 or not isinstance(d, PDict) or d.items is None:
        raise Unsupported("pd.DataFrame.from_dict form")
    used(eng, "pd.DataFrame.from_dict(dict of equally long 1-D arrays and scalars): frame with these columns (copied), scalars broadcast")
    n = None
    for v in d.items.values():
        if isinstance(v, SArr):
            if n is None:
                n = v.n
            else:
                _shape_oblig(eng, n, v.n, "DataFrame.from_dict: all arrays must be of the same length")
    if n is None:
        raise Unsupported("DataFrame.from_dict of scalars only")
    cols = {}
    for k, v in d.items.items():
        if isinstance(v, SArr):
            cols[k] = SArr(v.arr, n, v.kind, name=str(k), dtype=v.dtype)
        elif kind_of(v) is not None:
            cols[k] = SArr(z3.K(I, to_z3(v, kind_of(v))), n, kind_of(v), name=str(k))
        else:
            raise Unsupported("DataFrame.from_dict column value")
    return npmodels.DFrame(cols, n)


# ------------------------------------------------------------------- registration
def _dispatch(orig):
    def f(eng, op, a, b):
        for x in (a, b):
            h = getattr(x, "__pyvc_binop__", None)
            if h is not None:
                return h(eng, op, a, b)
        return orig(eng, op, a, b)

    f._c17 = True
    return f


def install():
    import pandas as pd

    models.EXTRA_MODELS.update({
        np.zeros: _np_zeros, np.ones: _np_ones, np.full: _np_full, np.linalg.norm: _np_norm, np.concatenate: _np_concatenate,
        ma.array: _ma_array, np.unravel_index: _np_unravel_index, pd.DataFrame.from_dict: _df_from_dict,
    })
    # binary operators on the extension arrays: the engine sends every SArr operand to models.array_binop; values that
    # carry a __pyvc_binop__ method are served by it, everything else goes to the stock implementation unchanged
    if not getattr(models.array_binop, "_c17", False):
        models.array_binop = _dispatch(models.array_binop)
