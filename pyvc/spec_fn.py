class SpecFn:
    """A specification-only function: f(engine, args, kwargs)."""

    def __init__(self, f, name):
        self.f = f
        self.name = name
