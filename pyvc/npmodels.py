"""Assumed contracts of numpy / pandas primitives.

SArr  = 1-D array of symbolic length (z3 Array); elementwise results are z3 lambda
        arrays, so `select` beta-reduces and no quantified axiom is needed;
NArr  = array of concrete shape holding symbolic scalars (geometry code).
Each model adds its name to engine.assumptions (reported as trusted_base).
"""
from __future__ import annotations

import ast
from fractions import Fraction

import numpy as np
import z3

from .engine import Frame, ProgExc, Unsupported
from .values import (
    DictListRef, Func, Iter, NArr, NativeMethod, Obj, PDict, PList, SArr, Sym, fresh, fresh_name,
    kind_of, sort_of, to_z3, zint, frac,
)


def used(eng, name):
    eng.assumptions.add("numpy-model:" + name)


def dtype_of_kind(kind):
    return {"int": np.dtype("int64"), "real": np.dtype("float64"), "bool": np.dtype("bool")}[kind]


def kind_of_dtype(dt):
    if dt is None:
        return None
    dt = np.dtype(dt)
    if dt.kind in "iu":
        return "int"
    if dt.kind == "f":
        return "real"
    if dt.kind == "b":
        return "bool"
    raise Unsupported(f"dtype {dt}")


def lam(body_fn, kind):
    i = z3.Int(fresh_name("li"))
    return z3.Lambda([i], body_fn(i))


def _join_kind(ka, kb, op=None):
    if isinstance(op, ast.Div):
        return "real"
    if "real" in (ka, kb):
        return "real"
    if ka == "bool" and kb == "bool":
        return "int" if op is not None and isinstance(op, (ast.Add, ast.Sub, ast.Mult)) else "bool"
    return "int"


def _z3op(op, a, b):
    if isinstance(op, ast.Add):
        return a + b
    if isinstance(op, ast.Sub):
        return a - b
    if isinstance(op, ast.Mult):
        return a * b
    if isinstance(op, ast.Div):
        return a / b
    if isinstance(op, ast.BitAnd):
        return z3.And(a, b)
    if isinstance(op, ast.BitOr):
        return z3.Or(a, b)
    raise Unsupported(f"array operator {type(op).__name__}")


def _len_eq(eng, a, b, what):
    """numpy broadcasting of two 1-D arrays requires equal length: a shape obligation."""
    if isinstance(a.n, int) and isinstance(b.n, int):
        if a.n != b.n:
            raise ProgExc(ValueError, "operands could not be broadcast together")
        return
    g = z3.simplify(a.nz() == b.nz())
    if z3.is_true(g):
        return
    if not eng.spec_mode:
        eng.prove(eng.site("shape-match"), g, "shape", what)


# ------------------------------------------------------------------ SArr ops
def array_binop(eng, op, a, b):
    if isinstance(a, NArr) or isinstance(b, NArr):
        from . import narr

        return narr.binop(eng, op, a, b)
    used(eng, "elementwise-arith")
    if isinstance(a, SArr) and isinstance(b, SArr):
        _len_eq(eng, a, b, "binary op")
        k = _join_kind(a.kind, b.kind, op)
        ck = "bool" if isinstance(op, (ast.BitAnd, ast.BitOr)) else k
        arr = lam(lambda i: _z3op(op, to_z3(a.get(i), ck), to_z3(b.get(i), ck)), k)
        return SArr(arr, a.n, k)
    arrv, sc, left = (a, b, True) if isinstance(a, SArr) else (b, a, False)
    ks = kind_of(sc)
    if ks is None:
        raise Unsupported(f"array op with {type(sc).__name__}")
    k = _join_kind(arrv.kind, ks, op)
    ck = "bool" if isinstance(op, (ast.BitAnd, ast.BitOr)) else k
    sz = to_z3(sc, ck)
    if left:
        arr = lam(lambda i: _z3op(op, to_z3(arrv.get(i), ck), sz), k)
    else:
        arr = lam(lambda i: _z3op(op, sz, to_z3(arrv.get(i), ck)), k)
    return SArr(arr, arrv.n, k)


def array_unop(eng, op, a):
    if isinstance(a, NArr):
        from . import narr

        return narr.unop(eng, op, a)
    if isinstance(op, ast.USub):
        return SArr(lam(lambda i: -a.get(i).z, a.kind), a.n, a.kind)
    if isinstance(op, ast.Invert) and a.kind == "bool":
        return SArr(lam(lambda i: z3.Not(a.get(i).z), "bool"), a.n, "bool")
    raise Unsupported("array unary op")


_CMP = {
    ast.Eq: lambda a, b: a == b, ast.NotEq: lambda a, b: a != b, ast.Lt: lambda a, b: a < b,
    ast.LtE: lambda a, b: a <= b, ast.Gt: lambda a, b: a > b, ast.GtE: lambda a, b: a >= b,
}


def array_compare(eng, op, a, b):
    if isinstance(a, NArr) or isinstance(b, NArr):
        from . import narr

        return narr.compare(eng, op, a, b)
    used(eng, "elementwise-compare")
    f = _CMP[type(op)]
    if isinstance(a, SArr) and isinstance(b, SArr):
        _len_eq(eng, a, b, "comparison")
        k = _join_kind(a.kind, b.kind)
        return SArr(lam(lambda i: f(to_z3(a.get(i), k), to_z3(b.get(i), k)), "bool"), a.n, "bool")
    arrv, sc, left = (a, b, True) if isinstance(a, SArr) else (b, a, False)
    ks = kind_of(sc)
    if ks is None:
        raise Unsupported("array comparison with non-scalar")
    k = _join_kind(arrv.kind, ks)
    sz = to_z3(sc, k)
    if left:
        out = SArr(lam(lambda i: f(to_z3(arrv.get(i), k), sz), "bool"), arrv.n, "bool")
    else:
        out = SArr(lam(lambda i: f(sz, to_z3(arrv.get(i), k)), "bool"), arrv.n, "bool")
    if isinstance(op, ast.Eq) and getattr(arrv, "diff_of", None) is not None and not isinstance(sc, Sym) and k in ("int", "real"):
        out.steps_of = (arrv.diff_of, sc)  # `np.diff(a) == c`: remembered for np.all (see _np_all_any)
    return out


def inplace_binop(eng, op, cur, val):
    from .models import check_frame

    if isinstance(cur, S2Arr):
        return cur.inplace(eng, op, val)

    if isinstance(cur, NArr):
        from . import narr

        return narr.inplace(eng, op, cur, val)
    check_frame(eng, cur)
    r = array_binop(eng, op, cur, val)
    if r.kind != cur.kind and not (cur.kind == "real" and r.kind == "int"):
        raise ProgExc(TypeError, "numpy casting error in in-place operation")
    cur.arr = r.arr


def getitem(eng, base, idx):
    from .models import norm_index

    if isinstance(base, NArr):
        from . import narr

        if isinstance(idx, SArr) and base.ndim == 1 and not hasattr(idx, "__pyvc_getitem__"):  # (was: unsupported "index SArr")
            from . import stock_np

            b = stock_np._as_sarr(base)
            if b is not None:
                return getitem(eng, b, idx)
        return narr.getitem(eng, base, idx)
    if hasattr(base, "__pyvc_getitem__"):
        return base.__pyvc_getitem__(eng, idx)
    if isinstance(idx, tuple) and len(idx) == 2 and type(base) in (SArr, SView) and any(x is None for x in idx) and any(isinstance(x, slice) and x == slice(None) for x in idx):
        used(eng, "a[:, None] / a[None, :] of a 1-D array: the (n,1) column / (1,n) row holding the same entries")
        return S2Arr([base.arr], base.n, base.kind, transposed=idx[0] is None)
    if hasattr(idx, "materialize") and type(idx).__name__ == "FirstTrue":  # a[np.nonzero(mask)[0]]
        idx = idx.materialize(eng)
    if isinstance(idx, SArr):
        if idx.kind == "bool":
            return mask_filter(eng, base, idx)
        used(eng, "fancy-index-gather-is-fresh")
        j = z3.Int(fresh_name("gi"))
        if not eng.spec_mode:
            eng.prove(eng.site("gather-in-bounds"), z3.ForAll([j], z3.Implies(z3.And(j >= 0, j < idx.nz()), z3.And(idx.get(j).z >= 0, idx.get(j).z < base.nz()))), "safety")
        return SArr(lam(lambda i: base.get(idx.get(i)).z, base.kind), idx.n, base.kind, name="gather")
    if isinstance(idx, PList) and idx.items is None:
        tmp = SArr(idx.cols[0], idx.n, idx.kinds[0])
        return getitem(eng, base, tmp)
    if isinstance(idx, NArr) and idx.kind == "int":
        used(eng, "fancy-index-gather-is-fresh")
        return NArr(idx.shape, [Sym(z3.Select(base.arr, norm_index(eng, x, base.n, "gather index")), base.kind) for x in idx.items], base.kind, base.dtype)
    if isinstance(idx, PList) and idx.items is not None:
        used(eng, "fancy-index-gather-is-fresh")
        return NArr((len(idx.items),), [Sym(z3.Select(base.arr, norm_index(eng, x, base.n, "gather index")), base.kind) for x in idx.items], base.kind, base.dtype)
    if isinstance(idx, slice):
        return slice_view(eng, base, idx)
    iz = norm_index(eng, idx, base.n, "array index")
    return Sym(z3.Select(base.arr, iz), base.kind)


class SView(SArr):
    """Basic-slice view a[lo:]: reads and writes go to the parent allocation."""


def slice_view(eng, base, sl):
    used(eng, "basic-slice-is-view")
    if sl.step not in (None, 1):
        raise Unsupported("strided slice of symbolic array")
    n = base.nz()

    def clamp(v, default):
        if v is None:
            return default
        vz = to_z3(v, "int")
        vz = z3.If(vz < 0, vz + n, vz)
        return z3.If(vz < 0, z3.IntVal(0), z3.If(vz > n, n, vz))

    lo = z3.simplify(clamp(sl.start, z3.IntVal(0)))
    hi = z3.simplify(clamp(sl.stop, n))
    ln = z3.simplify(z3.If(hi >= lo, hi - lo, z3.IntVal(0)))
    v = SArr(lam(lambda i: base.get(i + lo).z, base.kind), ln, base.kind, name=base.name + "_sl", dtype=base.dtype)  # a view has its base's dtype
    v.view_of = (base, lo)
    v.uid = base.uid
    v.frozen = base.frozen
    return v


def plist_slice(eng, base, sl):
    if sl.step == -1 and sl.start is None and sl.stop is None and len(base.cols) == 1:
        # lst[::-1]: a NEW list with the same elements in reverse order
        used(eng, "list[::-1]: new list, element i is element n-1-i of the operand")
        i, n = z3.Int(fresh_name("rv")), zint(base.n)
        p = PList()
        p.items, p.cols, p.kinds, p.n, p.tup = None, [z3.Lambda([i], z3.Select(base.cols[0], n - 1 - i))], [base.kinds[0]], base.n, False
        p.proto = base.proto
        return p
    if sl.step not in (None, 1):
        # L[a:b:step] with a CONCRETE step: a new list of len(range(*slice.indices(len(L)))) elements, element t = L[lo + t*step]
        # (the models of slice.indices / range, cross-checked against CPython; list slices: tools/xcheck_C19_models.py)
        if isinstance(sl.step, Sym) or isinstance(sl.step, bool) or not isinstance(sl.step, int) or len(base.cols) > 1:
            raise Unsupported("strided slice of symbolic list")
        from . import models as _M

        used(eng, "list-slice-with-a-concrete-step: L[a:b:s] is a new list, element t = L[lo + t*s] for t < len(range(*slice(a, b, s).indices(len(L))))")
        lo, hi, st = _M.slice_indices(eng, sl, [eng.snum(base.nz(), "int")], {})
        n, get = _M.as_sequence(eng, _M._SymRange(lo, hi, st))
        p = PList()
        p.items, p.kinds, p.tup = None, [base.kinds[0]], False
        p.cols = [lam(lambda t: z3.Select(base.cols[0], to_z3(get(Sym(t, "int")), "int")), base.kinds[0])]
        p.n = n if isinstance(n, (int, z3.ExprRef)) else to_z3(n, "int")
        p.proto = base.proto
        return p
    tmp = SArr(base.cols[0], base.n, base.kinds[0])
    v = slice_view(eng, tmp, sl)
    p = PList()
    p.items, p.cols, p.kinds, p.n, p.tup = None, [v.arr], [base.kinds[0]], v.n, False
    p.proto = base.proto  # the elements of a slice are the same objects (same protocol)
    if len(base.cols) > 1:
        raise Unsupported("slice of a list of tuples")
    return p


def concat_sarr(eng, seq):
    """np.concatenate of 1-D arrays of which at least one has a symbolic length: a fresh array, the operands one after the other."""
    used(eng, "np.concatenate-1d: fresh array holding the operands one after the other")
    parts = []
    for x in seq:
        if isinstance(x, NArr) and x.ndim == 1:
            items, k = list(x.items), x.kind
            parts.append((z3.IntVal(len(items)), k, (lambda i, kk, _it=items: _ite_items(_it, i, kk))))
        elif isinstance(x, SArr) and not hasattr(x, "__pyvc_getitem__"):
            parts.append((x.nz(), x.kind, (lambda i, kk, _a=x.arr, _k=x.kind: to_z3(Sym(z3.Select(_a, i), _k), kk))))
        else:
            raise Unsupported("np.concatenate of this operand with an array of symbolic length")
    kinds = {k for _, k, _ in parts}
    kind = "real" if "real" in kinds else ("int" if "int" in kinds else "bool")
    i = z3.Int(fresh_name("ci"))
    total, offs = z3.IntVal(0), []
    for n, _, _ in parts:
        offs.append(total)
        total = z3.simplify(total + n)
    body = parts[-1][2](i - offs[-1], kind)
    for (n, _, get), off in reversed(list(zip(parts[:-1], offs[:-1]))):
        body = z3.If(i < z3.simplify(off + n), get(i - off, kind), body)
    out = SArr.fresh(kind, total, name="concat")  # a fresh array constant defined cell by cell (stable triggers), same meaning as the lambda term
    eng.assume(z3.ForAll([i], z3.Implies(z3.And(i >= 0, i < total), z3.Select(out.arr, i) == body), patterns=[z3.Select(out.arr, i)]))
    return out


def _ite_items(items, i, kind):
    if not items:
        return to_z3(False if kind == "bool" else 0, kind)
    z = to_z3(items[-1], kind)
    for j in range(len(items) - 2, -1, -1):
        z = z3.If(i == j, to_z3(items[j], kind), z)
    return z


def mask_filter(eng, base, mask):
    """a[mask]: fresh array of the selected elements in position order (assumed
    contract of numpy boolean indexing), with ghost maps kappa (out pos -> in pos)
    and rho (in pos -> out pos)."""
    used(eng, "boolean-mask-filter-keeps-order")
    _len_eq(eng, base, mask, "boolean index")
    I = z3.IntSort()
    ck = ("filter", mask.arr.get_id(), z3.simplify(mask.nz()).get_id())
    cached = eng.ghost.get(ck)
    tag = fresh_name("m")
    k, k2, i = z3.Ints(f"k_{tag} k2_{tag} i_{tag}")
    if cached is not None:
        # the same mask selects the same positions: share kappa / rho / length
        kappa, rho, mlen = cached
        out = SArr.fresh(base.kind, mlen, name="flt")
        eng.assume(z3.ForAll([k], z3.Implies(z3.And(k >= 0, k < out.nz()), out.get(k).z == base.get(kappa(k)).z)))
        out.kappa, out.rho, out.src, out.mask = kappa, rho, base, mask
        return out
    out = SArr.fresh(base.kind, name="flt")
    kappa = z3.Function("kappa_" + tag, I, I)
    rho = z3.Function("rho_" + tag, I, I)
    eng.ghost[ck] = (kappa, rho, out.n)
    n, m = base.nz(), out.nz()
    eng.assume(z3.And(m >= 0, m <= n))
    eng.assume(z3.ForAll([k], z3.Implies(z3.And(k >= 0, k < m), z3.And(kappa(k) >= 0, kappa(k) < n, mask.get(kappa(k)).z, out.get(k).z == base.get(kappa(k)).z, rho(kappa(k)) == k))))
    eng.assume(z3.ForAll([k, k2], z3.Implies(z3.And(k >= 0, k < k2, k2 < m), kappa(k) < kappa(k2))))
    eng.assume(z3.ForAll([i], z3.Implies(z3.And(i >= 0, i < n, mask.get(i).z), z3.And(rho(i) >= 0, rho(i) < m, kappa(rho(i)) == i))))
    out.kappa, out.rho, out.src, out.mask = kappa, rho, base, mask
    eng.last_filter = out
    return out


def setitem(eng, base, idx, val):
    from .models import check_frame, norm_index

    if isinstance(base, NArr):
        from . import narr

        return narr.setitem(eng, base, idx, val)
    if hasattr(base, "__pyvc_setitem__"):
        return base.__pyvc_setitem__(eng, idx, val)
    check_frame(eng, base)
    if hasattr(idx, "materialize") and type(idx).__name__ == "FirstTrue":  # a[np.nonzero(mask)[0]] = ...
        idx = idx.materialize(eng)
    if isinstance(idx, (SArr, NArr, PList)) and getattr(base, "view_of", None) is None and kind_of(val) is not None:
        return _vector_store(eng, base, idx, val)
    if isinstance(idx, (SArr, slice, PList)):
        from . import stock_np

        if not isinstance(idx, slice) and stock_np.scatter(eng, base, idx, val):  # a[index array] = value array (last resort)
            return
        raise Unsupported("vector store into a symbolic array")
    iz = norm_index(eng, idx, base.n, "array store")
    vz = to_z3(val, base.kind) if not (base.kind == "int" and kind_of(val) == "real") else None
    if vz is None:
        raise Unsupported("store of a real into an int array")
    tgt = getattr(base, "view_of", None)
    if tgt is not None:
        parent, lo = tgt
        check_frame(eng, parent)
        parent.arr = z3.Store(parent.arr, iz + lo, vz)
        base.arr = lam(lambda i: parent.get(i + lo).z, base.kind)
        return
    base.arr = z3.Store(base.arr, iz, vz)


def _vector_store(eng, base, idx, val):
    """`a[idx] = scalar` on a 1-D array of symbolic length, idx a boolean mask of the same length or an integer index array / list:
    exactly the selected cells get the value, every other cell keeps its content (numpy: repeated positions are harmless for a
    scalar).  Positions must lie in [0, len(a)) (safety obligation; negative positions are not modelled)."""
    from .models import norm_index

    if base.kind == "int" and kind_of(val) == "real":
        raise Unsupported("store of a real into an int array")
    vz, old, n = to_z3(val, base.kind), base.arr, base.nz()
    i, j = z3.Int(fresh_name("vs_i")), z3.Int(fresh_name("vs_j"))
    if isinstance(idx, SArr) and idx.kind == "bool":
        used(eng, "boolean-mask store a[mask] = scalar writes exactly the cells where the mask is set (mask as long as the array)")
        if not eng.spec_mode:
            eng.prove(eng.site("mask-as-long-as-the-array"), idx.nz() == n, "safety", "boolean index did not match the indexed array")
        m = idx.arr
        base.arr = z3.Lambda([i], z3.If(z3.Select(m, i), vz, z3.Select(old, i)))
        return
    if isinstance(idx, SArr) and idx.kind == "int":
        used(eng, "index-array store a[idx] = scalar writes exactly the cells idx names (hit array defined with a witness position per written cell)")
        m, A = idx.nz(), idx.arr
        if not eng.spec_mode:
            eng.prove(eng.site("index-in-bounds"), z3.ForAll([j], z3.Implies(z3.And(j >= 0, j < m), z3.And(z3.Select(A, j) >= 0, z3.Select(A, j) < n))), "safety", "index array store")
        tag = fresh_name("vst")
        hit = z3.Const(tag + "_hit", z3.ArraySort(z3.IntSort(), z3.BoolSort()))
        wit = z3.Function(tag + "_wit", z3.IntSort(), z3.IntSort())
        eng.assume(z3.ForAll([j], z3.Implies(z3.And(j >= 0, j < m), z3.Select(hit, z3.Select(A, j)))))
        eng.assume(z3.ForAll([i], z3.Implies(z3.Select(hit, i), z3.And(wit(i) >= 0, wit(i) < m, z3.Select(A, wit(i)) == i))))
        base.arr = z3.Lambda([i], z3.If(z3.Select(hit, i), vz, z3.Select(old, i)))
        return
    items = idx.items if isinstance(idx, (NArr, PList)) else None
    if items is None or (isinstance(idx, NArr) and idx.ndim != 1) or not all(kind_of(x) in ("int", "bool") for x in items):
        raise Unsupported("vector store into a symbolic array")
    if items and all(kind_of(x) == "bool" for x in items):  # a concrete-length boolean mask
        used(eng, "boolean-mask store a[mask] = scalar writes exactly the cells where the mask is set (mask as long as the array)")
        if not eng.spec_mode:
            eng.prove(eng.site("mask-as-long-as-the-array"), n == len(items), "safety", "boolean index did not match the indexed array")
        arr = old
        for q, b in enumerate(items):
            arr = z3.Store(arr, q, z3.If(to_z3(b, "bool"), vz, z3.Select(old, q)))
        base.arr = arr
        return
    used(eng, "index-list store a[[i, j, ...]] = scalar writes the named cells")
    arr = old
    for x in items:
        arr = z3.Store(arr, norm_index(eng, x, base.n, "array store"), vz)
    base.arr = arr


# ------------------------------------------------------------------ methods
def _a_copy(eng, recv, args, kwargs):
    used(eng, "ndarray.copy-is-fresh")
    if isinstance(recv, NArr):
        return NArr(recv.shape, list(recv.items), recv.kind, recv.dtype)
    return SArr(recv.arr, recv.n, recv.kind, name=recv.name + "_cp", dtype=recv.dtype)


def _a_item(eng, recv, args, kwargs):
    if isinstance(recv, NArr):
        if len(recv.items) != 1:
            raise ProgExc(ValueError, "item() of non-scalar array")
        return recv.items[0]
    raise Unsupported("item() on a symbolic-length array")


def first_true(eng, mask):
    """argmax of a boolean array: first True position, else 0 (numpy semantics)."""
    used(eng, "argmax-of-bool-is-first-true-else-0")
    r = fresh("int", "argmax")
    j = z3.Int(fresh_name("j"))
    n = mask.nz()
    anyt = z3.Exists([j], z3.And(j >= 0, j < n, mask.get(j).z))
    eng.assume(z3.And(r.z >= 0, z3.Or(r.z < n, z3.And(n == 0, r.z == 0))))
    eng.assume(z3.ForAll([j], z3.Implies(z3.And(j >= 0, j < r.z), z3.Not(mask.get(j).z))))
    eng.assume(z3.Or(mask.get(r.z).z, z3.And(r.z == 0, z3.ForAll([j], z3.Implies(z3.And(j >= 0, j < n), z3.Not(mask.get(j).z))))))
    return r


def _a_argmax(eng, recv, args, kwargs):
    if isinstance(recv, SArr) and recv.kind == "bool":
        if not eng.spec_mode:
            if not eng.branch(eng.sbool(recv.nz() > 0)):
                raise ProgExc(ValueError, "argmax of an empty sequence")
        return first_true(eng, recv)
    raise Unsupported("argmax on non-boolean symbolic array")


def _a_any(eng, recv, args, kwargs):
    if isinstance(recv, SArr) and recv.kind == "bool":
        j = z3.Int(fresh_name("j"))
        return eng.sbool(z3.Exists([j], z3.And(j >= 0, j < recv.nz(), recv.get(j).z)))
    raise Unsupported("any()")


def _a_all(eng, recv, args, kwargs):
    if isinstance(recv, SArr) and recv.kind == "bool":
        j = z3.Int(fresh_name("j"))
        return eng.sbool(z3.ForAll([j], z3.Implies(z3.And(j >= 0, j < recv.nz()), recv.get(j).z)))
    raise Unsupported("all()")


def _a_to_numpy(eng, recv, args, kwargs):
    return recv


def faithful_cast(eng, recv, dt):
    """where the carrier's contract asks for DTYPE-FAITHFUL casts (`eng.ghost["dtype-faithful"]`, set by its setup: the SWC reading
    chain), a cast of a symbolic 1-D array that can change a value (int -> narrower int wraps, int -> float, float -> int) goes through
    `ext_C05_frame.cast_col`; None = the stock model applies"""
    if not isinstance(recv, SArr) or dt is None or not (eng.ghost.get("dtype-faithful") or recv.kind == "real"):
        return None
    from . import ext_C05_frame

    if recv.kind == "real" and kind_of_dtype(dt) != "int":
        return None
    return ext_C05_frame.array_astype(eng, recv, dt)


def _a_astype(eng, recv, args, kwargs):
    if not args and "dtype" in kwargs:
        args = [kwargs["dtype"]]
    k = kind_of_dtype(args[0])
    fc = faithful_cast(eng, recv, args[0])
    if fc is not None:
        return fc
    if isinstance(recv, NArr):
        from . import narr

        return narr.astype(eng, recv, k, args[0])
    if k == recv.kind:
        used(eng, "astype-same-kind-copies")
        return SArr(recv.arr, recv.n, k, name=recv.name + "_as", dtype=args[0])
    if k == "real" and recv.kind in ("int", "bool"):
        return SArr(lam(lambda i: to_z3(recv.get(i), "real"), "real"), recv.n, "real", dtype=args[0])
    if k == "int" and recv.kind == "bool":
        used(eng, "astype bool->int: True is 1, False is 0")
        return SArr(lam(lambda i: to_z3(recv.get(i), "int"), "int"), recv.n, "int", dtype=args[0])
    if k == "bool" and recv.kind in ("int", "real"):
        used(eng, "astype number->bool: nonzero")
        return SArr(lam(lambda i: recv.get(i).z != 0, "bool"), recv.n, "bool", dtype=args[0])
    raise Unsupported("astype narrowing on symbolic array")


def _a_sum(eng, recv, args, kwargs):
    return s2_reduce(eng, "sum", [recv] + list(args), kwargs)


def _a_mean(eng, recv, args, kwargs):
    return s2_reduce(eng, "mean", [recv] + list(args), kwargs)


def _a_dot(eng, recv, args, kwargs):
    from . import narr

    return narr.matmul(eng, recv, args[0])


ARR_METHODS = {
    "copy": _a_copy, "item": _a_item, "argmax": _a_argmax, "any": _a_any, "all": _a_all,
    "to_numpy": _a_to_numpy, "astype": _a_astype, "sum": _a_sum, "mean": _a_mean,
}


def method_of(eng, v, name):
    if name == "shape":
        return v.shape if isinstance(v, NArr) else (eng.snum(v.nz(), "int"),)
    if name == "ndim":
        return v.ndim if isinstance(v, NArr) else 1
    if name == "dtype":
        return v.dtype if v.dtype is not None else dtype_of_kind(v.kind)
    if name == "size":
        return len(v.items) if isinstance(v, NArr) else eng.snum(v.nz(), "int")
    from . import layout

    m = layout.method_of(eng, v, name)  # copy / flatten / ravel / reshape(-1) / view / flags of a 1-D array with a contiguity flag
    if m is not None:
        return m
    if isinstance(v, NArr):
        from . import narr

        m = narr.method_of(eng, v, name)
        if m is not None:
            return m
    if name == "T" and isinstance(v, SArr):
        return v
    if name in ARR_METHODS:
        return NativeMethod(ARR_METHODS[name], v, name)
    raise Unsupported(f"ndarray.{name}")


def narr_rows(eng, v):
    from . import narr

    return narr.rows(eng, v)


# ------------------------------------------------ comprehensions over symbolic
def skolemizer(bound, u0):
    """Fresh constants created while the element of a comprehension was evaluated for the ARBITRARY position `bound` (results of
    modular calls, havocked values: names `base!N` with N > u0) are values AT that position.  Before a fact / an element term
    is generalised over the position (ForAll / Lambda over `bound`) every such constant c is replaced by c@(bound): a fresh
    function of the position (Skolem form of "for every position there is such a value").  Leaving c a constant would assume
    that ONE value serves every position (e.g. that all members of a list have the same length)."""
    import re as _re

    cache = {}
    bound = list(bound)

    def sk(e):
        if not isinstance(e, z3.ExprRef):
            return e
        found, seen, stack = {}, set(), [e]
        while stack:
            x = stack.pop()
            if x.get_id() in seen:
                continue
            seen.add(x.get_id())
            if z3.is_quantifier(x):
                stack.append(x.body())
            elif z3.is_app(x):
                if x.num_args() == 0 and x.decl().kind() == z3.Z3_OP_UNINTERPRETED:
                    m = _re.search(r"!(\d+)$", x.decl().name())
                    if m and int(m.group(1)) > u0 and not any(x.eq(b) for b in bound):
                        found[x.get_id()] = x
                else:
                    stack.extend(x.children())
        if not found:
            return e
        subs = []
        for c in found.values():
            nm = c.decl().name()
            if nm not in cache:
                cache[nm] = z3.Function(nm + "@", *[b.sort() for b in bound], c.sort())
            subs.append((c, cache[nm](*bound)))
        return z3.substitute(e, *subs)

    return sk



def _sk_value(sk, v):
    """a scalar element value with the position-dependent constants in Skolem form (other values are handed on as they are)"""
    if isinstance(v, Sym):
        z = sk(v.z)
        return v if z is v.z else Sym(z, v.kind)
    if isinstance(v, tuple):
        return tuple(_sk_value(sk, x) for x in v)
    return v


def symbolic_comprehension(eng, n, fr, kind, first):
    """[elt for x in S]  (no filter, one generator) over a symbolic-length S: the
    result is the pointwise image (z3 lambda array)."""
    from .models import as_sequence

    gens = n.generators
    if len(gens) != 1 or gens[0].ifs:
        hook = getattr(eng, "comprehension_hook", None)
        if hook is not None:
            return hook(eng, n, fr, kind, first)
        if len(gens) == 1 and kind in ("list", "gen"):
            return filtered_comprehension(eng, n, fr, kind, first)
        raise Unsupported("filtered / nested comprehension over a symbolic sequence")
    length, getter = as_sequence(eng, first)
    upstream = (first, first.seq, True) if isinstance(first, Iter) and not first.consumed and kind == "gen" else None
    bulk = _bulk_dict_pop(eng, n, fr, kind, length, getter)
    if bulk is not None:
        if isinstance(first, Iter):
            first.consumed = True
        return bulk
    i = z3.Int(fresh_name("ci"))
    from .values import next_uid as _next_uid

    u0 = _next_uid()
    sk = skolemizer([i], u0)
    eng.comp_skolem_u0 = u0  # for EXTRA_ELEMENT_HOOKS that generalise a non-scalar element themselves
    sub = Frame(parent=fr, globs=fr.globs, func=fr.func)
    eng.assign(gens[0].target, getter(Sym(i, "int")), sub)
    # the element expression is evaluated once, symbolically in the position i
    # (it must be free of side effects; obligations it raises are universally
    # quantified by construction because i is unconstrained apart from the range)
    nz = length.z if isinstance(length, Sym) else zint(length)
    saved = list(eng.pc)
    eng.pc.append(z3.And(i >= 0, i < nz))
    eng.pure_mode = getattr(eng, "pure_mode", 0) + 1
    try:
        if kind == "dict":
            kv = eng.ev(n.key, sub)
            vv = eng.ev(n.value, sub)
        else:
            vv = eng.ev(n.elt, sub)
    finally:
        eng.pure_mode -= 1
        new = eng.pc[len(saved) + 1 :]
        eng.pc = saved
        # facts assumed while evaluating the element (e.g. proved bounds) are
        # re-added under the quantifier
        for h in new:
            eng.pc.append(z3.ForAll([i], z3.Implies(z3.And(i >= 0, i < nz), sk(h))))
    if isinstance(first, Iter):
        first.consumed = True
    if kind == "dict":
        return _dict_from_pairs(eng, i, nz, _sk_value(sk, kv), _sk_value(sk, vv))
    if isinstance(vv, tuple):
        kinds = [kind_of(x) for x in vv]
        if any(k is None for k in kinds):
            raise Unsupported("comprehension element type")
        p = PList()
        p.items, p.kinds, p.tup, p.n = None, kinds, True, z3.simplify(nz)
        p.cols = [z3.Lambda([i], sk(to_z3(x, k))) for x, k in zip(vv, kinds)]
    else:
        k = kind_of(vv)
        proto = None
        if vv is None:
            k = "oref"
        from .values import Opaque as _Op
        if isinstance(vv, _Op):
            k, proto, vv = "ref", vv.proto, Sym(vv.z, "ref")
        if k is None:
            from . import models as _models

            for hook in getattr(_models, "EXTRA_ELEMENT_HOOKS", ()):  # extension values for non-scalar elements (pyvc/ext_*.py)
                r = hook(eng, vv, i, nz, kind)
                if r is not None:
                    if isinstance(first, Iter):
                        first.consumed = True
                    return r
            raise Unsupported(f"comprehension element of type {type(vv).__name__} over a symbolic sequence")
        p = PList()
        p.items, p.kinds, p.tup, p.n = None, [k], False, z3.simplify(nz)
        p.cols = [z3.Lambda([i], sk(to_z3(vv, k)))]
        if proto is not None:
            p.proto = proto
    if kind == "gen":
        out = Iter(p)
        out.source = upstream  # a generator over a one-shot iterator: a consumer that stops early leaves the rest in THAT iterator
        return out
    if kind == "list":
        return p
    raise Unsupported("set comprehension over a symbolic sequence")


FILTER_MODEL = ("comprehension-model: [e(x) for x in S if c(x)] over a sequence of unknown length keeps exactly the elements whose condition holds, in "
                "order (ghost symbols: the number N of kept elements, the position K(m) of the m-th kept one, the rank R(i) of a kept position; if "
                "every condition holds nothing is dropped); condition and element are evaluated once for an arbitrary position and must be pure")


def filtered_comprehension(eng, n, fr, kind, first):
    """[elt for x in S if c1 if c2 ...] (one generator) over a symbolic-length S.  Condition and element are evaluated once, for an
    arbitrary position i (pure: no fork, no side effect); the result is a fresh list described by an order-preserving selection."""
    from .models import as_sequence
    from .values import Opaque as _Op

    g = n.generators[0]
    length, getter = as_sequence(eng, first)
    upstream = (first, first.seq, False) if isinstance(first, Iter) and not first.consumed and kind == "gen" else None
    nz = length.z if isinstance(length, Sym) else zint(length)
    i = z3.Int(fresh_name("fi"))
    from .values import next_uid as _next_uid

    sk = skolemizer([i], _next_uid())
    in_range = z3.And(i >= 0, i < nz)
    sub = Frame(parent=fr, globs=fr.globs, func=fr.func)
    saved = list(eng.pc)
    eng.pc.append(in_range)
    guards = 1  # number of guard hypotheses pushed on the path condition (range, then every condition that is not decided)
    cond, vv = True, None
    eng.pure_mode = getattr(eng, "pure_mode", 0) + 1
    try:
        eng.assign(g.target, getter(Sym(i, "int")), sub)
        facts = []  # (hypotheses added while evaluating, number of guards in force)
        for c in g.ifs:  # `if a if b`: b is evaluated only where a holds
            k0 = len(eng.pc)
            t = eng.truth(eng.ev(c, sub))
            facts.append((eng.pc[k0:], cond))
            del eng.pc[k0:]
            cond = eng.and_(cond, t)
            if cond is False:
                break
            if isinstance(t, Sym):
                eng.pc.append(t.z)
        if cond is not False:
            k0 = len(eng.pc)
            vv = eng.ev(n.elt, sub)
            facts.append((eng.pc[k0:], cond))
    finally:
        eng.pure_mode -= 1
        eng.pc = saved
    for hs, gd in facts:  # facts established while evaluating (proved bounds ...) hold at every position where that part is evaluated
        gz = in_range if gd is True else z3.And(in_range, to_z3(gd, "bool"))
        for h in hs:
            eng.pc.append(z3.ForAll([i], z3.Implies(sk(gz), sk(h))))
    if isinstance(first, Iter):
        first.consumed = True
    if cond is False:
        return Iter(PList([])) if kind == "gen" else PList([])
    if isinstance(cond, Sym):
        cond = _sk_value(sk, cond)
    vals = vv if isinstance(vv, tuple) else (vv,)
    kinds, terms, proto = [], [], None
    for x in vals:
        if x is None:
            kinds.append("oref"), terms.append(z3.IntVal(0))
        elif isinstance(x, _Op):
            kinds.append("ref"), terms.append(sk(x.z))
            proto = x.proto if not isinstance(vv, tuple) else None
        elif kind_of(x) is not None:
            kinds.append(kind_of(x)), terms.append(sk(to_z3(x, kind_of(x))))
        else:
            raise Unsupported(f"filtered comprehension element of type {type(x).__name__} over a symbolic sequence")
    p = PList()
    p.items, p.kinds, p.tup, p.proto = None, kinds, isinstance(vv, tuple), proto
    def _gen(p):
        out = Iter(p)
        out.source = upstream
        return out

    if cond is True:  # nothing is filtered: the pointwise image
        p.n = z3.simplify(nz)
        p.cols = [z3.Lambda([i], t) for t in terms]
        if upstream is not None:
            upstream = upstream[:2] + (True,)
        return _gen(p) if kind == "gen" else p
    eng.assumptions.add(FILTER_MODEL)
    tag = fresh_name("flt")
    N = z3.Int(tag + "_N")
    K = z3.Function(tag + "_K", z3.IntSort(), z3.IntSort())
    R = z3.Function(tag + "_R", z3.IntSort(), z3.IntSort())
    m, m2 = z3.Int(tag + "_m"), z3.Int(tag + "_m2")
    holds = lambda t: z3.substitute(cond.z, (i, t))
    for ax in filter_axioms(nz, holds, N, K, R, i, m, m2):
        eng.assume(ax)
    p.n = N
    p.cols = [z3.Lambda([m], z3.substitute(t, (i, K(m)))) for t in terms]
    eng.ghost.setdefault("filters", []).append(dict(N=N, K=K, R=R, n=nz, cond=holds, out=p))
    return _gen(p) if kind == "gen" else p


def filter_axioms(nz, holds, N, K, R, i, m, m2):
    """the order-preserving selection of the positions 0 <= i < nz at which holds(i): N of them, K(m) the m-th, R(i) the rank of a kept one
    (every formula is a property of CPython's filtering: tools/xcheck_strmodel.py evaluates them on concrete lists)"""
    in_range = z3.And(i >= 0, i < nz)
    return [
        z3.And(N >= 0, N <= nz),
        z3.ForAll([m], z3.Implies(z3.And(m >= 0, m < N), z3.And(K(m) >= m, K(m) < nz, holds(K(m)), R(K(m)) == m)), patterns=[K(m)]),
        z3.ForAll([m, m2], z3.Implies(z3.And(m >= 0, m < m2, m2 < N), K(m) < K(m2)), patterns=[z3.MultiPattern(K(m), K(m2))]),
        z3.ForAll([i], z3.Implies(z3.And(in_range, holds(i)), z3.And(R(i) >= 0, R(i) < N, R(i) <= i, K(R(i)) == i)), patterns=[R(i)]),
        z3.Implies(z3.ForAll([i], z3.Implies(in_range, holds(i))),
                   z3.And(N == nz, z3.ForAll([m], z3.Implies(z3.And(m >= 0, m < N), K(m) == m), patterns=[K(m)]))),
    ]


def _bulk_dict_pop(eng, n, fr, kind, length, getter):
    """The idiom  [d.pop(x) for x in S]  over a symbolic-length S and a symbolic scalar dict d.
    CPython pops the keys one after the other: the j-th pop raises KeyError unless its key is present and was not
    popped before.  Both conditions become obligations; then the result is the list of the old values in order
    and d loses exactly those keys (ghost pp(q) = the position that popped q)."""
    if kind != "list" or eng.spec_mode or getattr(eng, "pure_mode", 0):
        return None
    g, e = n.generators[0], n.elt
    if not (isinstance(g.target, ast.Name) and isinstance(e, ast.Call) and isinstance(e.func, ast.Attribute) and e.func.attr == "pop"
            and len(e.args) == 1 and not e.keywords and isinstance(e.args[0], ast.Name) and e.args[0].id == g.target.id):
        return None
    d = eng.ev(e.func.value, fr)
    if not isinstance(d, PDict) or d.items is not None or d.vkind == "intlist":
        return None
    used(eng, "list-comprehension-of-dict.pop: pops in sequence order (KeyError unless every key is present and the keys are pairwise distinct)")
    nz = length.z if isinstance(length, Sym) else zint(length)
    k, k2, q = z3.Int(fresh_name("bp")), z3.Int(fresh_name("bq")), z3.Int(fresh_name("bk"))
    key_at = lambda t: to_z3(getter(Sym(t, "int")), "int")
    rng = lambda t: z3.And(t >= 0, t < nz)
    check_frame(eng, d)
    eng.prove(eng.site("popped-keys-present"), z3.ForAll([k], z3.Implies(rng(k), z3.Select(d.dom, key_at(k)))), "safety", "dict.pop inside a comprehension")
    eng.prove(eng.site("popped-keys-distinct"), z3.ForAll([k, k2], z3.Implies(z3.And(rng(k), rng(k2), k < k2), key_at(k) != key_at(k2))), "safety", "dict.pop inside a comprehension")
    tag = fresh_name("pp")
    pp = z3.Function(tag, z3.IntSort(), z3.IntSort())
    eng.assume(z3.ForAll([k], z3.Implies(rng(k), pp(key_at(k)) == k)))  # definitional: keys are pairwise distinct (proved above)
    out = PList()
    out.items, out.kinds, out.tup, out.n = None, [d.vkind], False, z3.simplify(nz)
    out.cols = [z3.Lambda([k], z3.Select(d.val, key_at(k)))]
    d.dom = z3.Lambda([q], z3.And(z3.Select(d.dom, q), z3.Not(z3.And(rng(pp(q)), key_at(pp(q)) == q))))
    eng.ghost[("bulkpop", d.uid)] = (pp, key_at, nz)
    return out


def check_frame(eng, v):
    from .models import check_frame as _cf

    return _cf(eng, v)


def _dict_from_pairs(eng, i, nz, kv, vv):
    """{k(i): v(i) for i < n}: later entries win.  Encoded with a ghost
    `last(key)` = the last position whose key equals `key`."""
    used(eng, "dict-from-pairs-last-wins")
    vk = kind_of(vv)
    if vk is None or kind_of(kv) is None:
        raise Unsupported("dict comprehension element types")
    d = PDict.fresh(vk, name="dc")
    tag = fresh_name("dl")
    last = z3.Function("last_" + tag, z3.IntSort(), z3.IntSort())
    key_at = z3.Lambda([i], to_z3(kv, "int"))
    val_at = z3.Lambda([i], to_z3(vv, vk))
    x, j = z3.Ints(f"x_{tag} j_{tag}")
    inr = lambda t: z3.And(t >= 0, t < nz)
    eng.assume(z3.ForAll([x], z3.Select(d.dom, x) == z3.And(inr(last(x)), z3.Select(key_at, last(x)) == x)))
    eng.assume(z3.ForAll([j], z3.Implies(inr(j), z3.And(inr(last(z3.Select(key_at, j))), last(z3.Select(key_at, j)) >= j,
                                                         z3.Select(key_at, last(z3.Select(key_at, j))) == z3.Select(key_at, j)))))
    eng.assume(z3.ForAll([x], z3.Implies(z3.Select(d.dom, x), z3.Select(d.val, x) == z3.Select(val_at, last(x)))))
    d.last, d.key_at = last, key_at
    return d


def dict_from_symbolic_pairs(eng, a):
    """dict(zip(keys, range(n))) and friends."""
    from .models import as_sequence

    length, getter = as_sequence(eng, a)
    i = z3.Int(fresh_name("pi"))
    kv, vv = getter(Sym(i, "int"))
    nz = length.z if isinstance(length, Sym) else zint(length)
    return _dict_from_pairs(eng, i, nz, kv, vv)


# ------------------------------------------------------------- np functions
def _np_arange(eng, args, kwargs):
    used(eng, "np.arange")
    dt = kwargs.get("dtype")
    step = kwargs.get("step", args[2] if len(args) > 2 else 1)
    if step != 1:
        raise Unsupported("arange step")
    if len(args) == 1:
        lo, hi = 0, args[0]
    else:
        lo, hi = args[0], args[1]
    if isinstance(lo, int) and isinstance(hi, int):
        from . import narr

        return narr.from_list(list(range(lo, hi)), "int", dt)
    lz, hz = to_z3(lo, "int"), to_z3(hi, "int")
    n = z3.simplify(z3.If(hz >= lz, hz - lz, z3.IntVal(0)))
    return SArr(lam(lambda i: i + lz, "int"), n, "int", name="arange", dtype=dt)


def _np_where(eng, args, kwargs):
    used(eng, "np.where-pointwise")
    if len(args) != 3:
        raise Unsupported("np.where with one argument")
    m, a, b = args
    if isinstance(m, NArr):
        from . import narr

        return narr.where(eng, m, a, b)
    if not isinstance(m, SArr):
        raise Unsupported("np.where condition")
    ka = a.kind if isinstance(a, SArr) else kind_of(a)
    kb = b.kind if isinstance(b, SArr) else kind_of(b)
    k = _join_kind(ka, kb)
    for x in (a, b):
        if isinstance(x, SArr):
            _len_eq(eng, m, x, "np.where")
    ga = (lambda i: to_z3(a.get(i), k)) if isinstance(a, SArr) else (lambda i, _z=to_z3(a, k): _z)
    gb = (lambda i: to_z3(b.get(i), k)) if isinstance(b, SArr) else (lambda i, _z=to_z3(b, k): _z)
    return SArr(lam(lambda i: z3.If(m.get(i).z, ga(i), gb(i)), k), m.n, k, name="where")


def _np_count_nonzero(eng, args, kwargs):
    used(eng, "np.count_nonzero")
    (a,) = args
    if isinstance(a, NArr):
        acc = 0
        for x in a.items:
            t = eng.truth(x)
            acc = eng.binop(ast.Add(), acc, Sym(to_z3(t, "int"), "int") if isinstance(t, Sym) else int(t))
        return acc
    return count_true(eng, a)


def count_true(eng, mask, upto=None):
    """cnt(mask, n): number of True entries below n, axiomatised by its unfolding
    (ghost function cnt_m with cnt_m(0)=0, cnt_m(i+1)=cnt_m(i)+[mask[i]])."""
    key = ("cnt", mask.arr.get_id())
    f = eng.ghost.get(key)
    if f is None:
        tag = fresh_name("cnt")
        f = z3.Function(tag, z3.IntSort(), z3.IntSort())
        i = z3.Int("i_" + tag)
        b = lambda t: z3.If(to_z3(mask.get(t), "bool"), 1, 0)
        eng.assume(f(0) == 0)
        eng.assume(z3.ForAll([i], z3.Implies(i >= 0, f(i + 1) == f(i) + b(i)), patterns=[f(i + 1)]))
        eng.assume(z3.ForAll([i], z3.Implies(i >= 0, z3.And(f(i) >= 0, f(i) <= i)), patterns=[f(i)]))
        eng.ghost[key] = f
        eng.ghost.setdefault("cnt-functions", []).append((f, mask))
    n = mask.nz() if upto is None else to_z3(upto, "int")
    return Sym(f(n), "int")


def _np_full_like(eng, args, kwargs):
    used(eng, "np.full_like")
    a = args[0]
    fv = kwargs.get("fill_value", args[1] if len(args) > 1 else None)
    dt = kwargs.get("dtype")
    if dt is not None and kind_of_dtype(dt) != a.kind:
        raise Unsupported("np.full_like with a dtype of another kind")  # (was: dtype silently ignored) -> pyvc/stock_np.py casts the fill value
    if isinstance(a, NArr):
        return NArr(a.shape, [fv] * len(a.items), a.kind, a.dtype)
    k = a.kind
    return SArr(z3.K(z3.IntSort(), to_z3(fv, k)), a.n, k, name="full", dtype=a.dtype)


def _np_ones_like(eng, args, kwargs):
    return _np_full_like(eng, [args[0], 1], {k: v for k, v in kwargs.items() if k == "dtype"})


def _np_zeros_like(eng, args, kwargs):
    return _np_full_like(eng, [args[0], 0], {k: v for k, v in kwargs.items() if k == "dtype"})


def _np_array(eng, args, kwargs):
    used(eng, "np.array-copies")
    src = args[0]
    dt = kwargs.get("dtype", args[1] if len(args) > 1 else None)
    k = kind_of_dtype(dt) if dt is not None else None
    if isinstance(src, SArr):
        kk = k or src.kind
        fc = faithful_cast(eng, src, dt)
        if fc is not None:
            return fc
        if kk == src.kind:
            return SArr(src.arr, src.n, kk, name=src.name + "_arr", dtype=dt)
        return _a_astype(eng, src, [dt], {})
    if isinstance(src, PList) and src.items is None:
        if src.tup:
            raise Unsupported("np.array of a symbolic list of tuples")
        kk = k or src.kinds[0]
        if kk != src.kinds[0]:
            if kk == "real":
                c = src.cols[0]
                return SArr(lam(lambda i: to_z3(Sym(z3.Select(c, i), src.kinds[0]), "real"), "real"), src.n, "real", dtype=dt)
            raise Unsupported("np.array narrowing")
        return SArr(src.cols[0], src.n, kk, name="arr", dtype=dt)
    if isinstance(src, Iter):
        raise Unsupported("np.array of an iterator")
    from . import narr

    return narr.array(eng, src, k, dt)


def _np_issubdtype(eng, args, kwargs):
    return bool(np.issubdtype(args[0], args[1]))


def _np_unique(eng, args, kwargs):
    raise Unsupported("np.unique on symbolic data")


def _np_cumsum(eng, args, kwargs):
    """np.cumsum(a): out[0]=a[0], out[k+1]=out[k]+a[k+1]; plus the lemma
    (all a[j] >= 0 from position 1 on) => out is non-decreasing (assumed lemma)."""
    used(eng, "np.cumsum-recurrence")
    eng.assumptions.add("assumed-lemma:cumsum-of-nonnegatives-is-monotone")
    a = args[0]
    if isinstance(a, PList):
        if a.items is not None:
            acc, outl = 0, []
            for x in a.items:
                acc = eng.binop(ast.Add(), acc, x)
                outl.append(acc)
            from . import narr

            return narr.from_list(outl, "int", None)
        src = SArr(a.cols[0], a.n, a.kinds[0])
    elif isinstance(a, SArr):
        src = a
    else:
        raise Unsupported("np.cumsum argument")
    out = SArr.fresh(src.kind, src.n, name="cumsum", dtype=np.dtype("int64") if src.kind == "int" else None)
    k, k2 = z3.Ints(fresh_name("ck") + " " + fresh_name("ck2"))
    n = src.nz()
    eng.assume(z3.Implies(n > 0, out.get(0).z == src.get(0).z))
    eng.assume(z3.ForAll([k], z3.Implies(z3.And(k >= 0, k + 1 < n), out.get(k + 1).z == out.get(k).z + src.get(k + 1).z)))
    nonneg = z3.ForAll([k], z3.Implies(z3.And(k >= 1, k < n), src.get(k).z >= 0))
    eng.assume(z3.Implies(nonneg, z3.ForAll([k, k2], z3.Implies(z3.And(0 <= k, k <= k2, k2 < n), out.get(k).z <= out.get(k2).z))))
    return out


def _np_diff(eng, args, kwargs):
    """np.diff(a) of a 1-D array (n = 1, last axis): out[i] = a[i+1] - a[i], max(len(a) - 1, 0) entries, a fresh array."""
    a = args[0]
    if kwargs.get("n", args[1] if len(args) > 1 else 1) != 1 or set(kwargs) - {"n", "axis"}:
        raise Unsupported("np.diff with n != 1 / prepend / append")
    if isinstance(a, S2Arr):
        return s2_diff(eng, a, kwargs.get("axis", args[2] if len(args) > 2 else -1))
    if isinstance(a, PList) and a.items is None and not a.tup:
        a = SArr(a.cols[0], a.n, a.kinds[0])
    if isinstance(a, SArr) and not hasattr(a, "__pyvc_getitem__"):
        if kwargs.get("axis", args[2] if len(args) > 2 else -1) not in (-1, 0):
            raise ProgExc(ValueError, "axis out of bounds for a 1-D array")
        if a.kind not in ("int", "real"):
            raise Unsupported("np.diff of a boolean array")
        used(eng, "np.diff-1d: out[i] = a[i+1] - a[i], max(len - 1, 0) entries, fresh")
        n = a.nz()
        out = SArr(lam(lambda i: a.get(i + 1).z - a.get(i).z, a.kind), z3.simplify(z3.If(n >= 1, n - 1, z3.IntVal(0))), a.kind, name="diff", dtype=a.dtype)
        out.diff_of = a
        return out
    if isinstance(a, NArr) and a.ndim == 1 and a.kind in ("int", "real"):
        used(eng, "np.diff-1d: out[i] = a[i+1] - a[i], max(len - 1, 0) entries, fresh")
        it = a.items
        return NArr((max(len(it) - 1, 0),), [eng.binop(ast.Sub(), it[j + 1], it[j]) for j in range(len(it) - 1)], a.kind, a.dtype)
    raise Unsupported("np.diff of this operand")


def _np_all_any(is_all):
    def model(eng, args, kwargs):
        """np.all(a) / np.any(a) without axis: the conjunction / disjunction of the truth values of all entries (True / False when empty)."""
        a = args[0]
        if len(args) != 1 or kwargs:
            raise Unsupported("np.all / np.any with an axis")
        if isinstance(a, SArr):
            used(eng, "np.all/np.any: every / some entry is true")
            j = z3.Int(fresh_name("j"))
            t = (lambda x: x.z) if a.kind == "bool" else (lambda x: x.z != 0)
            if is_all:
                r = eng.sbool(z3.ForAll([j], z3.Implies(z3.And(j >= 0, j < a.nz()), t(a.get(j)))))
                if getattr(a, "steps_of", None) is not None and isinstance(r, Sym):
                    # np.all(np.diff(src) == c) for a concrete c: src is the arithmetic progression src[0] + j*c.  The implication needs
                    # induction over the positions (z3 does none): stated as a named lemma
                    src, c = a.steps_of
                    eng.assumptions.add("assumed-lemma:arithmetic-progression: all(np.diff(a) == c) for a constant c implies a[j] = a[0] + j*c for every position j")
                    jz = to_z3(Sym(j, "int"), src.kind)
                    eng.assume(z3.Implies(r.z, z3.ForAll([j], z3.Implies(z3.And(j >= 0, j < src.nz()), src.get(j).z == src.get(0).z + jz * to_z3(c, src.kind)))))
                return r
            return eng.sbool(z3.Exists([j], z3.And(j >= 0, j < a.nz(), t(a.get(j)))))
        if isinstance(a, PList) and a.items is not None:
            items = a.items
        elif isinstance(a, NArr):
            items = a.items
        elif kind_of(a) is not None:
            items = [a]
        else:
            raise Unsupported("np.all / np.any of this operand")
        used(eng, "np.all/np.any: every / some entry is true")
        acc = is_all
        for x in items:
            acc = eng.and_(acc, eng.truth(x)) if is_all else eng.or_(acc, eng.truth(x))
        return acc

    return model


NP_MODELS = {
    np.diff: _np_diff, np.all: _np_all_any(True), np.any: _np_all_any(False),
    np.cumsum: _np_cumsum,
    np.arange: _np_arange, np.where: _np_where, np.count_nonzero: _np_count_nonzero, np.full_like: _np_full_like,
    np.ones_like: _np_ones_like, np.zeros_like: _np_zeros_like, np.array: _np_array, np.issubdtype: _np_issubdtype,
    np.unique: _np_unique,
}


def lookup_model(fn):
    from . import layout

    m = layout.lookup_model(fn)  # functions whose result (the argument itself / a view / a copy) depends on the storage layout
    if m is not None:
        return m
    try:
        m = NP_MODELS.get(fn)
    except TypeError:
        return None
    if m is not None:
        return m
    try:
        from . import narr

        return narr.NP_MODELS.get(fn)
    except TypeError:
        return None


# ------------------------------------------------------------------ pandas
class DFrame:
    """pandas.DataFrame with a default RangeIndex: ordered dict of equally long
    columns.  `df[col]` yields the column values (a Series is modelled by its
    values array: every use in the carriers is positional)."""

    def __init__(self, cols, n):
        self.cols = dict(cols)  # name -> SArr
        self.n = n
        from .values import next_uid

        self.uid = next_uid()
        self.frozen = False

    def __pyvc_snapshot__(self, memo):
        from .values import snapshot

        c = DFrame({k: snapshot(v, memo) for k, v in self.cols.items()}, self.n)
        c.uid = self.uid
        return c

    def __pyvc_getitem__(self, eng, key):
        eng.assumptions.add("pandas-model:DataFrame with default RangeIndex; df[col] is the column's values")
        if isinstance(key, str):
            if key not in self.cols:
                raise ProgExc(KeyError, key)
            c = self.cols[key]
            return SArr(c.arr, c.n, c.kind, name=key, dtype=c.dtype)
        if isinstance(key, PList) and key.items is not None:
            return DFrame({k: self.cols[k] for k in key.items}, self.n)
        if isinstance(key, SArr) and key.kind == "bool":
            raise Unsupported("boolean row selection on a DataFrame")
        raise Unsupported("DataFrame subscript")

    def __pyvc_setitem__(self, eng, key, val):
        from .models import check_frame

        check_frame(eng, self)
        if not isinstance(key, str):
            raise Unsupported("DataFrame column assignment with a non-string key")
        if isinstance(val, SArr):
            _len_eq(eng, SArr(val.arr, self.n, val.kind), val, "column assignment")
            self.cols[key] = SArr(val.arr, self.n, val.kind, name=key, dtype=val.dtype)
        elif isinstance(val, PList) and val.items is None:
            self.cols[key] = SArr(val.cols[0], self.n, val.kinds[0], name=key)
        elif kind_of(val) is not None:
            k = kind_of(val)
            self.cols[key] = SArr(z3.K(z3.IntSort(), to_z3(val, k)), self.n, k, name=key)
        else:
            raise Unsupported("DataFrame column assignment value")

    def __pyvc_getattr__(self, eng, name):
        if name == "loc" or name == "iloc" or name == "at":
            return DLoc(self)
        if name == "columns":
            return PList(list(self.cols.keys()))
        if name == "shape":
            return (eng.snum(zint(self.n), "int"), len(self.cols))
        if name == "copy":
            return NativeMethod(lambda e, r, a, k: DFrame({c: SArr(v.arr, v.n, v.kind, name=c, dtype=v.dtype) for c, v in r.cols.items()}, r.n), self, name)
        if name == "to_numpy":
            raise Unsupported("DataFrame.to_numpy")
        if name == "astype":
            from . import ext_C05_frame

            return NativeMethod(ext_C05_frame.frame_astype, self, name)
        if name == "dtypes":
            raise Unsupported("DataFrame.dtypes")
        raise Unsupported(f"DataFrame.{name}")


class DLoc:
    def __init__(self, df):
        self.df = df

    def __pyvc_getitem__(self, eng, key):
        from .models import norm_index

        if isinstance(key, tuple) and len(key) == 2 and isinstance(key[1], str):
            c = self.df.cols[key[1]]
            iz = norm_index(eng, key[0], c.n, "df.loc row")
            return Sym(z3.Select(c.arr, iz), c.kind)
        raise Unsupported("df.loc form")

    def __pyvc_setitem__(self, eng, key, val):
        from .models import check_frame, norm_index

        check_frame(eng, self.df)
        if isinstance(key, tuple) and len(key) == 2 and isinstance(key[1], str) and isinstance(key[0], SArr) and key[0].kind == "bool":
            eng.assumptions.add("pandas-model:df.loc[mask, col] = scalar writes exactly the masked rows")
            c, m = self.df.cols[key[1]], key[0]
            _len_eq(eng, c, m, "df.loc mask")
            vz = to_z3(val, c.kind)
            self.df.cols[key[1]] = SArr(lam(lambda i: z3.If(m.get(i).z, vz, c.get(i).z), c.kind), c.n, c.kind, name=key[1], dtype=c.dtype)
            return
        if isinstance(key, tuple) and len(key) == 2 and isinstance(key[1], str):
            c = self.df.cols[key[1]]
            iz = norm_index(eng, key[0], c.n, "df.loc row")
            self.df.cols[key[1]] = SArr(z3.Store(c.arr, iz, to_z3(val, c.kind)), c.n, c.kind, name=key[1], dtype=c.dtype)
            return
        raise Unsupported("df.loc store form")


# ------------------------------------------------ (n x k) arrays, n symbolic
def _conc(n):
    """the length as a Python int when it is concrete (an int or a z3 numeral), else None"""
    if isinstance(n, bool):
        return None
    if isinstance(n, int):
        return n
    if isinstance(n, Sym):
        n = n.z
    if isinstance(n, z3.ExprRef) and z3.is_int(n):
        s = z3.simplify(n)
        if z3.is_int_value(s):
            return s.as_long()
    return None


def sarr_of_items(items, kind, name="items", dtype=None):
    """a 1-D array of CONCRETE length holding the given scalars (cell j = items[j]) as an SArr"""
    arr = z3.K(z3.IntSort(), to_z3(False if kind == "bool" else 0, kind))
    for j, x in enumerate(items):
        arr = z3.Store(arr, j, to_z3(x, kind))
    return SArr(arr, len(items), kind, name=name, dtype=dtype)


def _cells(a, m):
    """the m cells of a 1-D symbolic array of concrete length m, as scalars"""
    return [Sym(z3.simplify(z3.Select(a.arr, j)), a.kind) for j in range(m)]


class S2Arr:
    """2-D array with a symbolic number of rows and k concrete columns
    (np.stack([...], axis=1) of 1-D symbolic arrays), possibly transposed.

    Model (cross-checked against numpy by tools/xcheck_s2arr.py): cell (i, c) of the untransposed array is cols[c][i];
    elementwise arithmetic / comparison with numpy broadcasting against scalars, concrete row vectors (k,) / (1,k), concrete
    columns for the transposed form, (n,k) / (n,1) arrays of the same orientation and 1-D arrays along the symbolic axis;
    `.dot` / `@` with concrete matrices and vectors on either side; `.T`, `.astype`, `.copy`, `.sum/.mean(axis)`;
    indexing a[i], a[i, j], a[:, j], a[:, a:b], a[:, [j..]], a[lo:hi], a[idx] (gather rows by an int array), a[mask]."""

    def __init__(self, cols, n, kind="real", transposed=False):
        self.cols = list(cols)  # z3 arrays Int -> elem
        self.n = n
        self.kind = kind
        self.transposed = transposed
        from .values import next_uid

        self.uid = next_uid()
        self.frozen = False

    @property
    def k(self):
        return len(self.cols)

    def nz(self):
        return zint(self.n)

    def __pyvc_snapshot__(self, memo):
        c = S2Arr(self.cols, self.n, self.kind, self.transposed)
        c.uid = self.uid
        return c

    def __pyvc_isinstance__(self, cls):
        return cls is np.ndarray

    def __pyvc_getattr__(self, eng, name):
        if name == "T":
            return S2Arr(self.cols, self.n, self.kind, not self.transposed)
        if name == "dot":
            return NativeMethod(lambda e, r, a, k: s2_matmul(e, r, a[0]), self, name)
        if name == "shape":
            sh = (eng.snum(self.nz(), "int"), self.k)
            return sh[::-1] if self.transposed else sh
        if name == "ndim":
            return 2
        if name == "size":
            return eng.snum(self.nz() * self.k, "int")
        if name == "dtype":
            return dtype_of_kind(self.kind)
        if name == "copy":
            return NativeMethod(lambda e, r, a, k: S2Arr(r.cols, r.n, r.kind, r.transposed), self, name)
        if name == "astype":
            return NativeMethod(lambda e, r, a, k: s2_astype(e, r, a[0] if a else k.get("dtype")), self, name)
        if name == "transpose":
            return NativeMethod(lambda e, r, a, k: s2_transpose(e, r, a), self, name)
        if name in ("sum", "mean"):
            return NativeMethod(lambda e, r, a, k, _nm=name: s2_reduce(e, _nm, [r] + list(a), k), self, name)
        raise Unsupported(f"2-D symbolic array attribute {name}")

    def dot(self, eng, b):
        return s2_matmul(eng, self, b)

    def __pyvc_binop__(self, eng, op, a, b):
        other = b if a is self else a
        if not isinstance(other, S2Arr) and hasattr(other, "__pyvc_binop__"):
            return other.__pyvc_binop__(eng, op, a, b)  # another extension value (e.g. ext_C20.ColVec) brings its own rule
        if isinstance(op, ast.MatMult):
            return s2_matmul(eng, a, b)
        return s2_elementwise(eng, op, a, b)

    def __pyvc_compare__(self, eng, op, a, b):
        if type(op) not in _CMP:
            return NotImplemented
        return s2_elementwise(eng, op, a, b)

    def __pyvc_unop__(self, eng, op):
        if isinstance(op, ast.USub) and self.kind in ("int", "real"):
            return self._map(lambda z: -z, self.kind)
        if isinstance(op, ast.UAdd):
            return self._map(lambda z: z, self.kind)
        if isinstance(op, ast.Invert) and self.kind == "bool":
            return self._map(lambda z: z3.Not(z), "bool")
        raise Unsupported("unary operator on a symbolic 2-D array")

    def _map(self, f, kind):
        return S2Arr([lam(lambda i, _c=c: f(z3.Select(_c, i)), kind) for c in self.cols], self.n, kind, self.transposed)

    def _col_index(self, j):
        if not -self.k <= j < self.k:
            raise ProgExc(IndexError, f"index {j} is out of bounds for axis with size {self.k}")
        return j % self.k

    def _select_cols(self, cs):
        """columns named by an int / a concrete slice / a concrete int list -> (list of z3 arrays, is_single)"""
        if isinstance(cs, bool):
            raise Unsupported("boolean column index of a symbolic 2-D array")
        if isinstance(cs, int):
            return [self.cols[self._col_index(cs)]], True
        if isinstance(cs, slice) and all(isinstance(b, int) or b is None for b in (cs.start, cs.stop, cs.step)):
            return self.cols[cs], False
        items = cs.items if isinstance(cs, (PList, NArr)) else (list(cs) if isinstance(cs, (list, tuple)) else None)
        if items is not None and all(isinstance(x, int) and not isinstance(x, bool) for x in items) and (not isinstance(cs, NArr) or cs.ndim == 1):
            return [self.cols[self._col_index(x)] for x in items], False
        raise Unsupported("column index form of a symbolic 2-D array")

    def _select_rows(self, eng, cols, rs):
        """rows of the (n, len(cols)) block named by rs -> ('scalar', [z3 terms]) | ('rows', [z3 arrays], n')"""
        from .models import norm_index

        if isinstance(rs, slice):
            if rs == slice(None):
                return ("rows", list(cols), self.n)
            vs = [slice_view(eng, SArr(c, self.n, self.kind), rs) for c in cols]
            if not vs:
                probe = slice_view(eng, SArr(z3.K(z3.IntSort(), to_z3(0, "int")), self.n, "int"), rs)
                return ("rows", [], probe.n)
            return ("rows", [v.arr for v in vs], vs[0].n)
        if isinstance(rs, SArr) and rs.kind == "bool":
            vs = [mask_filter(eng, SArr(c, self.n, self.kind), rs) for c in cols]
            if not vs:
                raise Unsupported("boolean row selection of a block without columns")
            return ("rows", [v.arr for v in vs], vs[0].n)
        if isinstance(rs, PList) and rs.items is None and not rs.tup:
            rs = SArr(rs.cols[0], rs.n, rs.kinds[0])
        if isinstance(rs, SArr) and rs.kind == "int":
            # a[idx]: gather rows (fresh); numpy wraps negative positions once
            used(eng, "fancy-index-gather-is-fresh")
            j, n = z3.Int(fresh_name("gi")), self.nz()
            if not eng.spec_mode:
                g = z3.simplify(z3.ForAll([j], z3.Implies(z3.And(j >= 0, j < rs.nz()), z3.And(rs.get(j).z >= -n, rs.get(j).z < n))))
                if not z3.is_true(g):
                    eng.prove(eng.site("gather-in-bounds"), g, "safety")
            m = _conc(rs.n)
            if m is not None and m <= 64:
                # an index array of concrete length: position by position, and the wrap-around is resolved where the path condition
                # decides the sign (the cells then are the very terms a[idx[j]] a specification writes)
                pz = []
                for x in _cells(rs, m):
                    if z3.is_int_value(x.z):
                        pz.append(x.z if x.z.as_long() >= 0 else z3.simplify(x.z + n))
                    elif not eng.feasible(x.z < 0):
                        pz.append(x.z)
                    elif not eng.feasible(x.z >= 0):
                        pz.append(z3.simplify(x.z + n))
                    else:
                        pz.append(z3.If(x.z < 0, x.z + n, x.z))
                return ("rows", [sarr_of_items([Sym(z3.Select(c, p), self.kind) for p in pz], self.kind).arr for c in cols], m)
            pos = lambda i: z3.If(rs.get(i).z < 0, rs.get(i).z + n, rs.get(i).z)
            return ("rows", [lam(lambda i, _c=c: z3.Select(_c, pos(i)), self.kind) for c in cols], rs.n)
        if isinstance(rs, (NArr, PList, list, tuple)):
            items = rs.items if isinstance(rs, (NArr, PList)) else list(rs)
            if items is None or (isinstance(rs, NArr) and rs.ndim != 1) or not all(kind_of(x) == "int" for x in items):
                raise Unsupported("row index form of a symbolic 2-D array")
            used(eng, "fancy-index-gather-is-fresh")
            pz = [norm_index(eng, x, self.n, "gather index") for x in items]
            out = []
            for c in cols:
                out.append(sarr_of_items([Sym(z3.Select(c, p), self.kind) for p in pz], self.kind).arr)
            return ("rows", out, len(items))
        if isinstance(rs, bool) or rs is None:
            raise Unsupported("row index form of a symbolic 2-D array")
        if isinstance(rs, (int, Sym)):
            iz = norm_index(eng, rs, self.n, "row index")
            return ("scalar", [z3.Select(c, iz) for c in cols])
        raise Unsupported("row index form of a symbolic 2-D array")

    def __pyvc_getitem__(self, eng, idx):
        if isinstance(idx, tuple) and len(idx) == 1:
            idx = idx[0]
        if isinstance(idx, tuple) and any(x is Ellipsis for x in idx):
            if len(idx) == 2 and idx[0] is Ellipsis:
                idx = (slice(None), idx[1])
            elif len(idx) == 2 and idx[1] is Ellipsis:
                idx = idx[0]
            else:
                raise Unsupported("index form on a symbolic 2-D array")
        if idx is Ellipsis:
            idx = slice(None)
        if isinstance(idx, tuple) and len(idx) != 2:
            raise ProgExc(IndexError, "too many indices for array: array is 2-dimensional") if len(idx) > 2 and not any(x is None for x in idx) else Unsupported("index form on a symbolic 2-D array")
        a0, a1 = idx if isinstance(idx, tuple) else (idx, slice(None))
        if a0 is None or a1 is None:
            raise Unsupported("np.newaxis in the index of a symbolic 2-D array")
        # in terms of the untransposed array: rs selects along the symbolic axis, cs along the concrete one
        rs, cs = (a1, a0) if self.transposed else (a0, a1)
        advanced = lambda x: isinstance(x, (SArr, NArr, PList, list))
        if advanced(rs) and advanced(cs):
            raise Unsupported("two index arrays on a symbolic 2-D array")
        cols, single = self._select_cols(cs)
        sel = self._select_rows(eng, cols, rs)
        if sel[0] == "scalar":
            if single:
                return Sym(sel[1][0], self.kind)
            return NArr((len(cols),), [Sym(z, self.kind) for z in sel[1]], self.kind)
        _, arrs, n2 = sel
        if single:
            return SArr(arrs[0], n2, self.kind, name="col" if not self.transposed else "row")
        out = S2Arr(arrs, n2, self.kind, self.transposed)
        if idx == slice(None) or idx == (slice(None), slice(None)):
            out.uid, out.frozen = self.uid, self.frozen  # a[:] is a view of the same storage
        return out

    def inplace(self, eng, op, val):
        from .models import check_frame

        check_frame(eng, self)
        r = s2_elementwise(eng, op, self, val)
        if not isinstance(r, S2Arr) or r.transposed != self.transposed or r.k != self.k:
            raise ProgExc(ValueError, "non-broadcastable output operand")
        if _conc(r.n) is not None and _conc(self.n) is not None and _conc(r.n) != _conc(self.n):
            raise ProgExc(ValueError, "non-broadcastable output operand")
        if r.kind != self.kind and not (self.kind == "real" and r.kind in ("int", "bool")):
            raise ProgExc(TypeError, "numpy casting error in in-place operation")
        self.cols = r.cols if r.kind == self.kind else [lam(lambda i, _c=c: to_z3(Sym(z3.Select(_c, i), r.kind), self.kind), self.kind) for c in r.cols]

    def __pyvc_inplace__(self, eng, op, val):
        self.inplace(eng, op, val)


def s2_astype(eng, a, dt):
    k = kind_of_dtype(dt)
    if k == a.kind:
        used(eng, "astype-same-kind-copies")
        return S2Arr(a.cols, a.n, k, a.transposed)
    if k == "real" and a.kind in ("int", "bool"):
        return a._map(lambda z: to_z3(Sym(z, a.kind), "real"), "real")
    if k == "int" and a.kind == "bool":
        return a._map(lambda z: to_z3(Sym(z, "bool"), "int"), "int")
    if k == "bool":
        return a._map(lambda z: z != 0, "bool")
    raise Unsupported("astype narrowing on symbolic array")


def s2_transpose(eng, a, args):
    ax = tuple(args[0]) if len(args) == 1 and isinstance(args[0], (tuple, list)) else tuple(args)
    if ax in ((), (1, 0)):
        return S2Arr(a.cols, a.n, a.kind, not a.transposed)
    if ax == (0, 1):
        return S2Arr(a.cols, a.n, a.kind, a.transposed)
    raise ProgExc(ValueError, "axes don't match array")


class _Operand:
    """one operand of an elementwise operation, seen in the frame of the UNTRANSPOSED array: `rows` = None (broadcast along the
    symbolic axis) or the row count, `ncols` columns, get(c, i) the z3 term of cell (i, c)"""

    def __init__(self, rows, ncols, get, kind):
        self.rows, self.ncols, self.get, self.kind = rows, ncols, get, kind


def _operand(eng, v, transposed, n_hint):
    from . import narr

    if isinstance(v, S2Arr):
        if v.transposed != transposed:
            raise Unsupported("elementwise operation of an (n,k) and a (k,n) symbolic array")
        return _Operand(v.n, v.k, (lambda c, i, _v=v: z3.Select(_v.cols[c], i)), v.kind)
    if isinstance(v, (PList, list, tuple)) and not (isinstance(v, PList) and v.items is None):
        v = narr._as_narr(eng, v)
    if isinstance(v, PList):
        v = SArr(v.cols[0], v.n, v.kinds[0])
    if isinstance(v, SArr):
        if transposed:  # (k, n) op (m,): along the symbolic axis
            return _Operand(v.n, 1, (lambda c, i, _v=v: _v.get(i).z), v.kind)
        m = _conc(v.n)
        if m is None:
            raise Unsupported("(n,k) array combined with a 1-D array of symbolic length along the concrete axis")
        cells = _cells(v, m)
        return _Operand(None, m, (lambda c, i, _cs=cells: _cs[c].z), v.kind)
    if isinstance(v, NArr):
        if v.ndim == 0:
            x = v.items[0]
            return _Operand(None, 1, (lambda c, i, _x=x, _k=v.kind: to_z3(_x, _k)), v.kind)
        if v.ndim > 2:
            raise Unsupported("symbolic 2-D array combined with an array of more than 2 dimensions")
        sh = v.shape if v.ndim == 2 else (1, v.shape[0])
        it = list(v.items)
        if v.ndim == 2:
            cell = lambda r, c, _w=sh[1]: it[r * _w + c]
        else:
            cell = lambda r, c: it[c]
        if transposed:
            sh = (sh[1], sh[0])
            cell0 = cell
            cell = lambda r, c: cell0(c, r)
        R, C = sh
        if R == 1:
            return _Operand(None, C, (lambda c, i, _k=v.kind: to_z3(cell(0, c), _k)), v.kind)
        # R concrete rows against the symbolic axis: numpy needs n == R (or n == 1, not modelled)
        nn = _conc(n_hint)
        if nn is None:
            raise Unsupported("symbolic 2-D array combined with a concrete array of several rows along the symbolic axis")
        if nn != R:
            raise ProgExc(ValueError, "operands could not be broadcast together")
        return _Operand(R, C, (lambda c, i, _k=v.kind: _ite_items([cell(r, c) for r in range(R)], i, _k)), v.kind)
    k = kind_of(v)
    if k is None:
        raise Unsupported(f"array operand {type(v).__name__}")
    return _Operand(None, 1, (lambda c, i, _v=v, _k=k: to_z3(_v, _k)), k)


def s2_elementwise(eng, op, a, b):
    """a op b with numpy broadcasting, at least one operand an S2Arr; op an arithmetic, bitwise or comparison operator node"""
    used(eng, "elementwise-arith")
    main = a if isinstance(a, S2Arr) else b
    T = main.transposed
    A, B = _operand(eng, a, T, main.n), _operand(eng, b, T, main.n)
    if A.ncols != B.ncols and 1 not in (A.ncols, B.ncols):
        raise ProgExc(ValueError, f"operands could not be broadcast together (axis of sizes {A.ncols} and {B.ncols})")
    ncols = max(A.ncols, B.ncols) if 0 not in (A.ncols, B.ncols) else 0
    # the symbolic axis
    n, bc = None, [False, False]
    for j, (X, Y) in enumerate(((A, B), (B, A))):
        if X.rows is not None and Y.rows is not None and _conc(X.rows) == 1 and _conc(Y.rows) != 1:
            bc[j] = True  # a single row broadcasts
    live = [X for j, X in enumerate((A, B)) if X.rows is not None and not bc[j]]
    if len(live) == 2:
        _len_eq(eng, SArr(None, live[0].rows, "int"), SArr(None, live[1].rows, "int"), "broadcast along the rows")
    n = live[0].rows if live else (A.rows if A.rows is not None else B.rows)
    cmp = type(op) in _CMP
    if isinstance(op, ast.Pow):
        e = b if not isinstance(b, NArr) else (b.items[0] if b.ndim == 0 else None)
        if isinstance(e, Fraction) and e.denominator == 1:
            e = int(e)
        if not isinstance(e, int) or isinstance(e, bool) or e < 0 or e > 8 or not isinstance(a, S2Arr):
            raise Unsupported("power of a symbolic 2-D array with an exponent other than a small non-negative integer")
        k = a.kind if a.kind != "bool" else "int"
        one = to_z3(1, k)

        def pw(z, _e=e):
            out = one
            for _ in range(_e):
                out = out * z
            return out

        return S2Arr([lam(lambda i, _c=c: pw(to_z3(Sym(z3.Select(_c, i), a.kind), k)), k) for c in a.cols], a.n, k, T)
    if cmp:
        ck, k = _join_kind(A.kind, B.kind), "bool"
        f = _CMP[type(op)]
    elif isinstance(op, (ast.BitAnd, ast.BitOr)):
        if A.kind != "bool" or B.kind != "bool":
            raise Unsupported("bitwise operator on non-boolean symbolic arrays")
        ck = k = "bool"
        f = lambda x, y: _z3op(op, x, y)
    elif isinstance(op, (ast.Add, ast.Sub, ast.Mult, ast.Div)):
        k = _join_kind(A.kind, B.kind, op)
        ck = k
        f = lambda x, y: _z3op(op, x, y)
    else:
        raise Unsupported(f"array operator {type(op).__name__} on a symbolic 2-D array")
    ga = lambda X, j, c, i: to_z3(Sym(X.get(c if X.ncols > 1 else 0, z3.IntVal(0) if bc[j] else i), X.kind), ck)
    if isinstance(op, ast.Div) and not eng.spec_mode:
        q = z3.Int(fresh_name("dj"))
        g = z3.simplify(z3.ForAll([q], z3.Implies(z3.And(q >= 0, q < zint(n) if n is not None else True), z3.And(*[ga(B, 1, c, q) != 0 for c in range(B.ncols)]))))
        if not z3.is_true(g):
            eng.prove(eng.site("div-nonzero"), g, "safety")
    cols = [lam(lambda i, _c=c: f(ga(A, 0, _c, i), ga(B, 1, _c, i)), k) for c in range(ncols)]
    if n is None:
        raise Unsupported("elementwise operation without a symbolic operand")
    return S2Arr(cols, n, k, T)


def s2_matmul(eng, a, b):
    """a @ b / a.dot(b) / np.dot(a, b) with an S2Arr on one side and a CONCRETE matrix or vector on the other:
    (n,k) @ (k,m) -> (n,m);  (n,k) @ (k,) -> (n,);  (m,k) @ (k,n) -> (m,n);  (k,) @ (k,n) -> (n,)"""
    from . import narr

    used(eng, "dot-product")
    if isinstance(a, S2Arr) and isinstance(b, S2Arr):
        raise Unsupported("product of two symbolic 2-D arrays (a sum over the symbolic axis, or an n x n result)")
    if isinstance(a, S2Arr):
        if a.transposed:
            raise Unsupported("dot form on a symbolic 2-D array: (k,n) @ x sums over the symbolic axis")
        if isinstance(b, SArr):
            m = _conc(b.n)
            if m is None:
                raise Unsupported("dot of a symbolic 2-D array and a 1-D array of symbolic length")
            b = NArr((m,), _cells(b, m), b.kind)
        elif kind_of(b) is not None:
            return s2_elementwise(eng, ast.Mult(), a, b)
        else:
            b = narr._as_narr(eng, b)
        if b.ndim == 0:
            return s2_elementwise(eng, ast.Mult(), a, b)
        if b.ndim > 2:
            raise Unsupported("dot of arrays with ndim > 2")
        if b.shape[0] != a.k:
            raise ProgExc(ValueError, f"shapes (n,{a.k}) and {b.shape} not aligned")
        k = _join_kind(a.kind, b.kind, ast.Mult())
        m = b.shape[1] if b.ndim == 2 else 1
        bit = b.items
        zero = to_z3(0, k)
        out = [lam(lambda i, _j=j: sum((to_z3(Sym(z3.Select(a.cols[c], i), a.kind), k) * to_z3(bit[c * m + _j], k) for c in range(a.k)), zero), k) for j in range(m)]
        if b.ndim == 1:
            return SArr(out[0], a.n, k, name="dot")
        return S2Arr(out, a.n, k)
    # concrete on the left
    if not b.transposed:
        raise Unsupported("dot form on a symbolic 2-D array: x @ (n,k) sums over the symbolic axis")
    if kind_of(a) is not None:
        return s2_elementwise(eng, ast.Mult(), a, b)
    if isinstance(a, SArr):
        m = _conc(a.n)
        if m is None:
            raise Unsupported("dot of a 1-D array of symbolic length and a symbolic 2-D array")
        a = NArr((m,), _cells(a, m), a.kind)
    else:
        a = narr._as_narr(eng, a)
    if a.ndim == 0:
        return s2_elementwise(eng, ast.Mult(), a, b)
    if a.ndim > 2:
        raise Unsupported("dot of arrays with ndim > 2")
    if a.shape[-1] != b.k:
        raise ProgExc(ValueError, f"shapes {a.shape} and ({b.k},n) not aligned")
    k = _join_kind(a.kind, b.kind, ast.Mult())
    m = a.shape[0] if a.ndim == 2 else 1
    ait = a.items
    zero = to_z3(0, k)
    out = [lam(lambda i, _r=r: sum((to_z3(ait[_r * b.k + c], k) * to_z3(Sym(z3.Select(b.cols[c], i), b.kind), k) for c in range(b.k)), zero), k) for r in range(m)]
    if a.ndim == 1:
        return SArr(out[0], b.n, k, name="dot")
    return S2Arr(out, b.n, k, transposed=True)


def sum_sarr(eng, a):
    """sum of the entries of a 1-D symbolic array: spelled out for a concrete length; for a symbolic length the value of the
    ghost prefix-sum function S (S(0) = 0, S(j+1) = S(j) + a[j]) at len(a)"""
    k = "int" if a.kind in ("int", "bool") else "real"
    m = _conc(a.n)
    if m is not None:
        acc = 0
        for x in _cells(a, m):
            acc = eng.binop(ast.Add(), acc, Sym(to_z3(x, k), k) if x.kind != k else x)
        return acc
    used(eng, "np.sum of a 1-D array of symbolic length: ghost prefix sums S(0) = 0, S(j+1) = S(j) + a[j]; the result is S(len(a))")
    tag = fresh_name("psum")
    f = z3.Function(tag, z3.IntSort(), sort_of(k))
    j = z3.Int("j_" + tag)
    eng.assume(f(0) == to_z3(0, k))
    eng.assume(z3.ForAll([j], z3.Implies(z3.And(j >= 0, j < a.nz()), f(j + 1) == f(j) + to_z3(a.get(j), k)), patterns=[f(j + 1)]))
    eng.ghost.setdefault("prefix-sums", []).append((f, a))
    return Sym(f(a.nz()), k)


def sqrt_sarr(eng, a, nonneg_known=False, name="sqrt"):
    """elementwise square root of a 1-D symbolic array: per cell the engine's ghost root for a concrete length; for a symbolic
    length a fresh array y defined by y[i] >= 0 and y[i]*y[i] = a[i] at every position (a[i] >= 0 is a safety obligation)"""
    m = _conc(a.n)
    if m is not None:
        return sarr_of_items([eng.sqrt(Sym(to_z3(x, "real"), "real"), nonneg_known=nonneg_known) for x in _cells(a, m)], "real", name=name)
    used(eng, "np.sqrt of an array of symbolic length: a fresh array y with y[i] >= 0 and y[i]*y[i] = a[i] at every position")
    i = z3.Int(fresh_name("sq"))
    az = lambda q: to_z3(a.get(q), "real")
    if not eng.spec_mode and not nonneg_known:
        g = z3.simplify(z3.ForAll([i], z3.Implies(z3.And(i >= 0, i < a.nz()), az(i) >= 0)))
        if not z3.is_true(g):
            eng.prove(eng.site("sqrt-nonneg"), g, "safety")
    out = SArr.fresh("real", a.n, name=name)
    eng.assume(z3.ForAll([i], z3.Implies(z3.And(i >= 0, i < a.nz()), z3.And(z3.Select(out.arr, i) >= 0, z3.Select(out.arr, i) * z3.Select(out.arr, i) == az(i))), patterns=[z3.Select(out.arr, i)]))
    return out


def _axis_of(a, axis):
    """'rows' when the reduction runs along the symbolic axis, 'cols' along the concrete one"""
    if isinstance(axis, bool) or not isinstance(axis, int) or not -2 <= axis < 2:
        raise ProgExc(ValueError, f"axis {axis!r} is out of bounds for array of dimension 2")
    ax = axis % 2
    return "rows" if (ax == 0) != a.transposed else "cols"


def s2_reduce(eng, name, args, kwargs):
    """np.sum / np.mean of an S2Arr (axis None / 0 / 1 / -1, keepdims) or of a 1-D symbolic array"""
    a = args[0]
    axis = kwargs.get("axis", args[1] if len(args) > 1 else None)
    keep = bool(kwargs.get("keepdims", False))
    if set(kwargs) - {"axis", "keepdims", "dtype"}:
        raise Unsupported(f"np.{name} option on a symbolic array")
    mean = name == "mean"
    if isinstance(a, SArr):
        if axis not in (None, 0, -1):
            raise ProgExc(ValueError, "axis out of bounds for a 1-D array")
        used(eng, f"np.{name} of a 1-D symbolic array")
        s = sum_sarr(eng, a)
        if mean:
            s = eng.binop(ast.Div(), s, eng.snum(a.nz(), "int"))
        return s
    used(eng, f"np.{name} of a symbolic 2-D array along an axis")
    k = "int" if a.kind in ("int", "bool") else "real"
    colsum = lambda: [sum_sarr(eng, SArr(c, a.n, a.kind)) for c in a.cols]
    if axis is None:
        tot = 0
        for x in colsum():
            tot = eng.binop(ast.Add(), tot, x)
        if mean:
            tot = eng.binop(ast.Div(), tot, eng.snum(a.nz() * a.k, "int"))
        if keep:
            return NArr((1, 1), [tot], "real" if mean else k)
        return tot
    if _axis_of(a, axis) == "cols":
        if mean and a.k == 0:
            raise Unsupported("mean over an empty axis")
        if mean:
            arr = lam(lambda i: sum((to_z3(Sym(z3.Select(c, i), a.kind), "real") for c in a.cols), z3.RealVal(0)) / a.k, "real")
        else:
            arr = lam(lambda i: sum((to_z3(Sym(z3.Select(c, i), a.kind), k) for c in a.cols), to_z3(0, k)), k)
        kk = "real" if mean else k
        if keep:
            return S2Arr([arr], a.n, kk, a.transposed)
        return SArr(arr, a.n, kk, name=name)
    out = colsum()
    if mean:
        out = [eng.binop(ast.Div(), x, eng.snum(a.nz(), "int")) for x in out]
    kk = "real" if mean else k
    if keep:
        return NArr((a.k, 1) if a.transposed else (1, a.k), out, kk)
    return NArr((a.k,), out, kk)


def s2_norm(eng, args, kwargs):
    """np.linalg.norm (Euclidean) of a 1-D symbolic array, or of an S2Arr along one axis / as a whole (Frobenius)"""
    used(eng, "np.linalg.norm=sqrt(sum of squares) over the reals")
    a = args[0]
    axis = kwargs.get("axis", args[2] if len(args) > 2 else None)
    order = kwargs.get("ord", args[1] if len(args) > 1 else None)
    keep = bool(kwargs.get("keepdims", False))
    sq = lambda z, kd: to_z3(Sym(z, kd), "real") * to_z3(Sym(z, kd), "real")
    if isinstance(a, SArr):
        if order not in (None, 2) or axis not in (None, 0, -1) or keep:
            raise Unsupported("np.linalg.norm form on a 1-D symbolic array")
        s = sum_sarr(eng, SArr(lam(lambda i: sq(a.get(i).z, a.kind), "real"), a.n, "real"))
        return eng.sqrt(s, nonneg_known=_conc(a.n) is not None)
    if axis is None:
        if order not in (None, "fro") or keep:
            raise Unsupported("np.linalg.norm: matrix norms other than Frobenius are not modelled")
        tot = 0
        for c in a.cols:
            tot = eng.binop(ast.Add(), tot, sum_sarr(eng, SArr(lam(lambda i, _c=c: sq(z3.Select(_c, i), a.kind), "real"), a.n, "real")))
        return eng.sqrt(tot, nonneg_known=_conc(a.n) is not None)
    if order not in (None, 2):
        raise Unsupported("np.linalg.norm: only the Euclidean vector norm is modelled")
    if _axis_of(a, axis) == "cols":
        s = SArr(lam(lambda i: sum((sq(z3.Select(c, i), a.kind) for c in a.cols), z3.RealVal(0)), "real"), a.n, "real")
        r = sqrt_sarr(eng, s, nonneg_known=True, name="norm")
        if keep:
            return S2Arr([r.arr], r.n, "real", a.transposed)
        return r
    out = [eng.sqrt(sum_sarr(eng, SArr(lam(lambda i, _c=c: sq(z3.Select(_c, i), a.kind), "real"), a.n, "real")), nonneg_known=_conc(a.n) is not None) for c in a.cols]
    if keep:
        return NArr((a.k, 1) if a.transposed else (1, a.k), out, "real")
    return NArr((a.k,), out, "real")


def s2_sqrt(eng, a):
    if isinstance(a, SArr):
        return sqrt_sarr(eng, a)
    used(eng, "np.sqrt elementwise")
    cols = [sqrt_sarr(eng, SArr(c, a.n, a.kind)).arr for c in a.cols]
    return S2Arr(cols, a.n, "real", a.transposed)


def s2_diff(eng, a, axis):
    """np.diff (n = 1) of an S2Arr along one axis"""
    used(eng, "np.diff of a 2-D array along an axis: out[i] = a[i+1] - a[i] along that axis")
    if a.kind not in ("int", "real"):
        raise Unsupported("np.diff of a boolean array")
    if _axis_of(a, axis) == "rows":
        n = a.nz()
        n2 = z3.simplify(z3.If(n >= 1, n - 1, z3.IntVal(0)))
        n2 = _conc(n2) if _conc(n2) is not None else n2
        return S2Arr([lam(lambda i, _c=c: z3.Select(_c, i + 1) - z3.Select(_c, i), a.kind) for c in a.cols], n2, a.kind, a.transposed)
    return S2Arr([lam(lambda i, _c=c, _d=d: z3.Select(_d, i) - z3.Select(_c, i), a.kind) for c, d in zip(a.cols, a.cols[1:])], a.n, a.kind, a.transposed)


def s2_hstack(eng, seq, axis_name):
    """np.hstack / np.column_stack / np.concatenate(axis=1) [np.vstack / concatenate(axis=0) of transposed blocks]: blocks side by side
    along the CONCRETE axis; 1-D symbolic arrays count as one column for column_stack"""
    used(eng, "np.hstack / np.column_stack / np.concatenate along the concrete axis of symbolic 2-D arrays: the blocks side by side")
    T = None
    for x in seq:
        if isinstance(x, S2Arr):
            if T is not None and x.transposed != T:
                raise Unsupported("stacking (n,k) and (k,n) symbolic arrays")
            T = x.transposed
    T = bool(T)
    cols, kinds, first = [], [], None
    for x in seq:
        if isinstance(x, S2Arr):
            part, pk, pn = list(x.cols), x.kind, x.n
        elif isinstance(x, SArr) and axis_name == "column_stack":
            part, pk, pn = [x.arr], x.kind, x.n
        else:
            raise Unsupported(f"stacking a {type(x).__name__} with symbolic 2-D arrays")
        if first is None:
            first = pn
        else:
            _len_eq(eng, SArr(None, first, "int"), SArr(None, pn, "int"), "stacked blocks")
        cols.extend((c, pk) for c in part)
        kinds.append(pk)
    k = "real" if "real" in kinds else ("int" if "int" in kinds else "bool")
    out = [c if pk == k else lam(lambda i, _c=c, _pk=pk: to_z3(Sym(z3.Select(_c, i), _pk), k), k) for c, pk in cols]
    return S2Arr(out, first, k, T)


def s2_concatenate(eng, args, kwargs):
    seq = args[0].items if isinstance(args[0], PList) else list(args[0])
    axis = kwargs.get("axis", args[1] if len(args) > 1 else 0)
    main = next(x for x in seq if isinstance(x, S2Arr))
    if axis is None:
        raise Unsupported("np.concatenate(axis=None) of symbolic 2-D arrays")
    if _axis_of(main, axis) == "cols":
        return s2_hstack(eng, seq, "concatenate")
    # along the symbolic axis: rows of the blocks one after the other
    if not all(isinstance(x, S2Arr) and x.transposed == main.transposed and x.k == main.k for x in seq):
        raise Unsupported("np.concatenate along the symbolic axis of blocks of different shapes")
    outs = [concat_sarr(eng, [SArr(x.cols[c], x.n, x.kind) for x in seq]) for c in range(main.k)]
    k = outs[0].kind if outs else main.kind
    return S2Arr([o.arr for o in outs], outs[0].n if outs else main.n, k, main.transposed)


def s2_einsum(eng, args, kwargs):
    """np.einsum for the row-wise forms 'ij,ij->i' (row dot products), 'ij,ij->ij', 'ij->i', 'ij,j->i', 'ij,kj->ik' (with a concrete second operand)"""
    spec = args[0]
    if not isinstance(spec, str) or kwargs:
        raise Unsupported("np.einsum form")
    spec = spec.replace(" ", "")
    ops = args[1:]
    used(eng, "np.einsum: row-wise forms on symbolic 2-D arrays (ij,ij->i; ij,ij->ij; ij->i; ij,j->i; ij,kj->ik)")
    if spec == "ij,ij->i" and len(ops) == 2:
        return s2_reduce(eng, "sum", [s2_elementwise(eng, ast.Mult(), ops[0], ops[1])], {"axis": 1})
    if spec == "ij,ij->ij" and len(ops) == 2:
        return s2_elementwise(eng, ast.Mult(), ops[0], ops[1])
    if spec == "ij->i" and len(ops) == 1:
        return s2_reduce(eng, "sum", [ops[0]], {"axis": 1})
    if spec == "ij,j->i" and len(ops) == 2:
        return s2_matmul(eng, ops[0], ops[1])
    if spec == "ij,kj->ik" and len(ops) == 2 and isinstance(ops[1], NArr) and ops[1].ndim == 2:
        from . import narr

        return s2_matmul(eng, ops[0], narr.method_of(eng, ops[1], "T"))
    raise Unsupported(f"np.einsum('{spec}') on symbolic arrays")


def has_s2(*vals):
    for v in vals:
        if isinstance(v, S2Arr):
            return True
        if isinstance(v, PList) and v.items is not None and any(isinstance(x, S2Arr) for x in v.items):
            return True
        if isinstance(v, (list, tuple)) and any(isinstance(x, S2Arr) for x in v):
            return True
    return False


def stack_sarr(eng, arrs, axis):
    used(eng, "np.stack")
    for a in arrs[1:]:
        _len_eq(eng, arrs[0], a, "np.stack")
    ks = {a.kind for a in arrs}
    k = "real" if "real" in ks else arrs[0].kind
    cols = [a.arr if a.kind == k else lam(lambda i, _a=a: to_z3(_a.get(i), k), k) for a in arrs]
    if axis == 1:
        return S2Arr(cols, arrs[0].n, k)
    if axis == 0:
        return S2Arr(cols, arrs[0].n, k, transposed=True)
    raise Unsupported("np.stack axis")


class FirstTrue:
    """np.nonzero(mask)[0] of a symbolic mask: only element 0 is modelled."""

    def __init__(self, mask):
        self.mask = mask

    def materialize(self, eng):
        """the whole position array (pyvc/stock_np.py: np.flatnonzero), for every use but `[0]`"""
        if getattr(self, "_all", None) is None:
            from . import stock_np

            self._all = stock_np._np_flatnonzero(eng, [self.mask], {})
        return self._all

    def __pyvc_getattr__(self, eng, name):
        return eng.models.method_of(eng, self.materialize(eng), name)

    def __pyvc_sequence__(self, eng):
        from .models import as_sequence

        return as_sequence(eng, self.materialize(eng))

    def __pyvc_getitem__(self, eng, idx):
        if not (isinstance(idx, int) and not isinstance(idx, bool) and idx == 0):
            return getitem(eng, self.materialize(eng), idx)
        m = self.mask
        j = z3.Int(fresh_name("j"))
        if not eng.spec_mode:
            if not eng.branch(eng.sbool(z3.Exists([j], z3.And(j >= 0, j < m.nz(), m.get(j).z)))):
                raise ProgExc(IndexError, "index 0 is out of bounds for axis 0 with size 0")
        return first_true(eng, m)


def _np_nonzero(eng, args, kwargs):
    used(eng, "np.nonzero-positions-in-order")
    (m,) = args
    if isinstance(m, SArr):
        mm = m if m.kind == "bool" else SArr(lam(lambda i: m.get(i).z != 0, "bool"), m.n, "bool")
        return (FirstTrue(mm),)
    raise Unsupported("np.nonzero argument")


NP_MODELS[np.nonzero] = _np_nonzero
