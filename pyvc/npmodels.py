"""Assumed contracts of numpy / pandas primitives.

SArr  = 1-D array of symbolic length (z3 Array); elementwise results are z3 lambda
        arrays, so `select` beta-reduces and no quantified axiom is needed;
NArr  = array of concrete shape holding symbolic scalars (geometry code).
Each model adds its name to engine.assumptions (reported as trusted_base).
"""
from __future__ import annotations

import ast
from fractions import Fraction

import numpy as np
import z3

from .engine import Frame, ProgExc, Unsupported
from .values import (
    DictListRef, Func, Iter, NArr, NativeMethod, Obj, PDict, PList, SArr, Sym, fresh, fresh_name,
    kind_of, sort_of, to_z3, zint, frac,
)


def used(eng, name):
    eng.assumptions.add("numpy-model:" + name)


def dtype_of_kind(kind):
    return {"int": np.dtype("int64"), "real": np.dtype("float64"), "bool": np.dtype("bool")}[kind]


def kind_of_dtype(dt):
    if dt is None:
        return None
    dt = np.dtype(dt)
    if dt.kind in "iu":
        return "int"
    if dt.kind == "f":
        return "real"
    if dt.kind == "b":
        return "bool"
    raise Unsupported(f"dtype {dt}")


def lam(body_fn, kind):
    i = z3.Int(fresh_name("li"))
    return z3.Lambda([i], body_fn(i))


def _join_kind(ka, kb, op=None):
    if isinstance(op, ast.Div):
        return "real"
    if "real" in (ka, kb):
        return "real"
    if ka == "bool" and kb == "bool":
        return "int" if op is not None and isinstance(op, (ast.Add, ast.Sub, ast.Mult)) else "bool"
    return "int"


def _z3op(op, a, b):
    if isinstance(op, ast.Add):
        return a + b
    if isinstance(op, ast.Sub):
        return a - b
    if isinstance(op, ast.Mult):
        return a * b
    if isinstance(op, ast.Div):
        return a / b
    if isinstance(op, ast.BitAnd):
        return z3.And(a, b)
    if isinstance(op, ast.BitOr):
        return z3.Or(a, b)
    raise Unsupported(f"array operator {type(op).__name__}")


def _len_eq(eng, a, b, what):
    """numpy broadcasting of two 1-D arrays requires equal length: a shape obligation."""
    if isinstance(a.n, int) and isinstance(b.n, int):
        if a.n != b.n:
            raise ProgExc(ValueError, "operands could not be broadcast together")
        return
    g = z3.simplify(a.nz() == b.nz())
    if z3.is_true(g):
        return
    if not eng.spec_mode:
        eng.prove(eng.site("shape-match"), g, "shape", what)


# ------------------------------------------------------------------ SArr ops
def array_binop(eng, op, a, b):
    if isinstance(a, NArr) or isinstance(b, NArr):
        from . import narr

        return narr.binop(eng, op, a, b)
    used(eng, "elementwise-arith")
    if isinstance(a, SArr) and isinstance(b, SArr):
        _len_eq(eng, a, b, "binary op")
        k = _join_kind(a.kind, b.kind, op)
        ck = "bool" if isinstance(op, (ast.BitAnd, ast.BitOr)) else k
        arr = lam(lambda i: _z3op(op, to_z3(a.get(i), ck), to_z3(b.get(i), ck)), k)
        return SArr(arr, a.n, k)
    arrv, sc, left = (a, b, True) if isinstance(a, SArr) else (b, a, False)
    ks = kind_of(sc)
    if ks is None:
        raise Unsupported(f"array op with {type(sc).__name__}")
    k = _join_kind(arrv.kind, ks, op)
    ck = "bool" if isinstance(op, (ast.BitAnd, ast.BitOr)) else k
    sz = to_z3(sc, ck)
    if left:
        arr = lam(lambda i: _z3op(op, to_z3(arrv.get(i), ck), sz), k)
    else:
        arr = lam(lambda i: _z3op(op, sz, to_z3(arrv.get(i), ck)), k)
    return SArr(arr, arrv.n, k)


def array_unop(eng, op, a):
    if isinstance(a, NArr):
        from . import narr

        return narr.unop(eng, op, a)
    if isinstance(op, ast.USub):
        return SArr(lam(lambda i: -a.get(i).z, a.kind), a.n, a.kind)
    if isinstance(op, ast.Invert) and a.kind == "bool":
        return SArr(lam(lambda i: z3.Not(a.get(i).z), "bool"), a.n, "bool")
    raise Unsupported("array unary op")


_CMP = {
    ast.Eq: lambda a, b: a == b, ast.NotEq: lambda a, b: a != b, ast.Lt: lambda a, b: a < b,
    ast.LtE: lambda a, b: a <= b, ast.Gt: lambda a, b: a > b, ast.GtE: lambda a, b: a >= b,
}


def array_compare(eng, op, a, b):
    if isinstance(a, NArr) or isinstance(b, NArr):
        from . import narr

        return narr.compare(eng, op, a, b)
    used(eng, "elementwise-compare")
    f = _CMP[type(op)]
    if isinstance(a, SArr) and isinstance(b, SArr):
        _len_eq(eng, a, b, "comparison")
        k = _join_kind(a.kind, b.kind)
        return SArr(lam(lambda i: f(to_z3(a.get(i), k), to_z3(b.get(i), k)), "bool"), a.n, "bool")
    arrv, sc, left = (a, b, True) if isinstance(a, SArr) else (b, a, False)
    ks = kind_of(sc)
    if ks is None:
        raise Unsupported("array comparison with non-scalar")
    k = _join_kind(arrv.kind, ks)
    sz = to_z3(sc, k)
    if left:
        out = SArr(lam(lambda i: f(to_z3(arrv.get(i), k), sz), "bool"), arrv.n, "bool")
    else:
        out = SArr(lam(lambda i: f(sz, to_z3(arrv.get(i), k)), "bool"), arrv.n, "bool")
    if isinstance(op, ast.Eq) and getattr(arrv, "diff_of", None) is not None and not isinstance(sc, Sym) and k in ("int", "real"):
        out.steps_of = (arrv.diff_of, sc)  # `np.diff(a) == c`: remembered for np.all (see _np_all_any)
    return out


def inplace_binop(eng, op, cur, val):
    from .models import check_frame

    if isinstance(cur, S2Arr):
        return cur.inplace(eng, op, val)

    if isinstance(cur, NArr):
        from . import narr

        return narr.inplace(eng, op, cur, val)
    check_frame(eng, cur)
    r = array_binop(eng, op, cur, val)
    if r.kind != cur.kind and not (cur.kind == "real" and r.kind == "int"):
        raise ProgExc(TypeError, "numpy casting error in in-place operation")
    cur.arr = r.arr


def getitem(eng, base, idx):
    from .models import norm_index

    if isinstance(base, NArr):
        from . import narr

        if isinstance(idx, SArr) and base.ndim == 1 and not hasattr(idx, "__pyvc_getitem__"):  # (was: unsupported "index SArr")
            from . import stock_np

            b = stock_np._as_sarr(base)
            if b is not None:
                return getitem(eng, b, idx)
        return narr.getitem(eng, base, idx)
    if hasattr(base, "__pyvc_getitem__"):
        return base.__pyvc_getitem__(eng, idx)
    if hasattr(idx, "materialize") and type(idx).__name__ == "FirstTrue":  # a[np.nonzero(mask)[0]]
        idx = idx.materialize(eng)
    if isinstance(idx, SArr):
        if idx.kind == "bool":
            return mask_filter(eng, base, idx)
        used(eng, "fancy-index-gather-is-fresh")
        j = z3.Int(fresh_name("gi"))
        if not eng.spec_mode:
            eng.prove(eng.site("gather-in-bounds"), z3.ForAll([j], z3.Implies(z3.And(j >= 0, j < idx.nz()), z3.And(idx.get(j).z >= 0, idx.get(j).z < base.nz()))), "safety")
        return SArr(lam(lambda i: base.get(idx.get(i)).z, base.kind), idx.n, base.kind, name="gather")
    if isinstance(idx, PList) and idx.items is None:
        tmp = SArr(idx.cols[0], idx.n, idx.kinds[0])
        return getitem(eng, base, tmp)
    if isinstance(idx, NArr) and idx.kind == "int":
        used(eng, "fancy-index-gather-is-fresh")
        return NArr(idx.shape, [Sym(z3.Select(base.arr, norm_index(eng, x, base.n, "gather index")), base.kind) for x in idx.items], base.kind, base.dtype)
    if isinstance(idx, PList) and idx.items is not None:
        used(eng, "fancy-index-gather-is-fresh")
        return NArr((len(idx.items),), [Sym(z3.Select(base.arr, norm_index(eng, x, base.n, "gather index")), base.kind) for x in idx.items], base.kind, base.dtype)
    if isinstance(idx, slice):
        return slice_view(eng, base, idx)
    iz = norm_index(eng, idx, base.n, "array index")
    return Sym(z3.Select(base.arr, iz), base.kind)


class SView(SArr):
    """Basic-slice view a[lo:]: reads and writes go to the parent allocation."""


def slice_view(eng, base, sl):
    used(eng, "basic-slice-is-view")
    if sl.step not in (None, 1):
        raise Unsupported("strided slice of symbolic array")
    n = base.nz()

    def clamp(v, default):
        if v is None:
            return default
        vz = to_z3(v, "int")
        vz = z3.If(vz < 0, vz + n, vz)
        return z3.If(vz < 0, z3.IntVal(0), z3.If(vz > n, n, vz))

    lo = z3.simplify(clamp(sl.start, z3.IntVal(0)))
    hi = z3.simplify(clamp(sl.stop, n))
    ln = z3.simplify(z3.If(hi >= lo, hi - lo, z3.IntVal(0)))
    v = SArr(lam(lambda i: base.get(i + lo).z, base.kind), ln, base.kind, name=base.name + "_sl", dtype=base.dtype)  # a view has its base's dtype
    v.view_of = (base, lo)
    v.uid = base.uid
    v.frozen = base.frozen
    return v


def plist_slice(eng, base, sl):
    if sl.step == -1 and sl.start is None and sl.stop is None and len(base.cols) == 1:
        # lst[::-1]: a NEW list with the same elements in reverse order
        used(eng, "list[::-1]: new list, element i is element n-1-i of the operand")
        i, n = z3.Int(fresh_name("rv")), zint(base.n)
        p = PList()
        p.items, p.cols, p.kinds, p.n, p.tup = None, [z3.Lambda([i], z3.Select(base.cols[0], n - 1 - i))], [base.kinds[0]], base.n, False
        p.proto = base.proto
        return p
    if sl.step not in (None, 1):
        # L[a:b:step] with a CONCRETE step: a new list of len(range(*slice.indices(len(L)))) elements, element t = L[lo + t*step]
        # (the models of slice.indices / range, cross-checked against CPython; list slices: tools/xcheck_C19_models.py)
        if isinstance(sl.step, Sym) or isinstance(sl.step, bool) or not isinstance(sl.step, int) or len(base.cols) > 1:
            raise Unsupported("strided slice of symbolic list")
        from . import models as _M

        used(eng, "list-slice-with-a-concrete-step: L[a:b:s] is a new list, element t = L[lo + t*s] for t < len(range(*slice(a, b, s).indices(len(L))))")
        lo, hi, st = _M.slice_indices(eng, sl, [eng.snum(base.nz(), "int")], {})
        n, get = _M.as_sequence(eng, _M._SymRange(lo, hi, st))
        p = PList()
        p.items, p.kinds, p.tup = None, [base.kinds[0]], False
        p.cols = [lam(lambda t: z3.Select(base.cols[0], to_z3(get(Sym(t, "int")), "int")), base.kinds[0])]
        p.n = n if isinstance(n, (int, z3.ExprRef)) else to_z3(n, "int")
        p.proto = base.proto
        return p
    tmp = SArr(base.cols[0], base.n, base.kinds[0])
    v = slice_view(eng, tmp, sl)
    p = PList()
    p.items, p.cols, p.kinds, p.n, p.tup = None, [v.arr], [base.kinds[0]], v.n, False
    p.proto = base.proto  # the elements of a slice are the same objects (same protocol)
    if len(base.cols) > 1:
        raise Unsupported("slice of a list of tuples")
    return p


def concat_sarr(eng, seq):
    """np.concatenate of 1-D arrays of which at least one has a symbolic length: a fresh array, the operands one after the other."""
    used(eng, "np.concatenate-1d: fresh array holding the operands one after the other")
    parts = []
    for x in seq:
        if isinstance(x, NArr) and x.ndim == 1:
            items, k = list(x.items), x.kind
            parts.append((z3.IntVal(len(items)), k, (lambda i, kk, _it=items: _ite_items(_it, i, kk))))
        elif isinstance(x, SArr) and not hasattr(x, "__pyvc_getitem__"):
            parts.append((x.nz(), x.kind, (lambda i, kk, _a=x.arr, _k=x.kind: to_z3(Sym(z3.Select(_a, i), _k), kk))))
        else:
            raise Unsupported("np.concatenate of this operand with an array of symbolic length")
    kinds = {k for _, k, _ in parts}
    kind = "real" if "real" in kinds else ("int" if "int" in kinds else "bool")
    i = z3.Int(fresh_name("ci"))
    total, offs = z3.IntVal(0), []
    for n, _, _ in parts:
        offs.append(total)
        total = z3.simplify(total + n)
    body = parts[-1][2](i - offs[-1], kind)
    for (n, _, get), off in reversed(list(zip(parts[:-1], offs[:-1]))):
        body = z3.If(i < z3.simplify(off + n), get(i - off, kind), body)
    out = SArr.fresh(kind, total, name="concat")  # a fresh array constant defined cell by cell (stable triggers), same meaning as the lambda term
    eng.assume(z3.ForAll([i], z3.Implies(z3.And(i >= 0, i < total), z3.Select(out.arr, i) == body), patterns=[z3.Select(out.arr, i)]))
    return out


def _ite_items(items, i, kind):
    if not items:
        return to_z3(False if kind == "bool" else 0, kind)
    z = to_z3(items[-1], kind)
    for j in range(len(items) - 2, -1, -1):
        z = z3.If(i == j, to_z3(items[j], kind), z)
    return z


def mask_filter(eng, base, mask):
    """a[mask]: fresh array of the selected elements in position order (assumed
    contract of numpy boolean indexing), with ghost maps kappa (out pos -> in pos)
    and rho (in pos -> out pos)."""
    used(eng, "boolean-mask-filter-keeps-order")
    _len_eq(eng, base, mask, "boolean index")
    I = z3.IntSort()
    ck = ("filter", mask.arr.get_id(), z3.simplify(mask.nz()).get_id())
    cached = eng.ghost.get(ck)
    tag = fresh_name("m")
    k, k2, i = z3.Ints(f"k_{tag} k2_{tag} i_{tag}")
    if cached is not None:
        # the same mask selects the same positions: share kappa / rho / length
        kappa, rho, mlen = cached
        out = SArr.fresh(base.kind, mlen, name="flt")
        eng.assume(z3.ForAll([k], z3.Implies(z3.And(k >= 0, k < out.nz()), out.get(k).z == base.get(kappa(k)).z)))
        out.kappa, out.rho, out.src, out.mask = kappa, rho, base, mask
        return out
    out = SArr.fresh(base.kind, name="flt")
    kappa = z3.Function("kappa_" + tag, I, I)
    rho = z3.Function("rho_" + tag, I, I)
    eng.ghost[ck] = (kappa, rho, out.n)
    n, m = base.nz(), out.nz()
    eng.assume(z3.And(m >= 0, m <= n))
    eng.assume(z3.ForAll([k], z3.Implies(z3.And(k >= 0, k < m), z3.And(kappa(k) >= 0, kappa(k) < n, mask.get(kappa(k)).z, out.get(k).z == base.get(kappa(k)).z, rho(kappa(k)) == k))))
    eng.assume(z3.ForAll([k, k2], z3.Implies(z3.And(k >= 0, k < k2, k2 < m), kappa(k) < kappa(k2))))
    eng.assume(z3.ForAll([i], z3.Implies(z3.And(i >= 0, i < n, mask.get(i).z), z3.And(rho(i) >= 0, rho(i) < m, kappa(rho(i)) == i))))
    out.kappa, out.rho, out.src, out.mask = kappa, rho, base, mask
    eng.last_filter = out
    return out


def setitem(eng, base, idx, val):
    from .models import check_frame, norm_index

    if isinstance(base, NArr):
        from . import narr

        return narr.setitem(eng, base, idx, val)
    if hasattr(base, "__pyvc_setitem__"):
        return base.__pyvc_setitem__(eng, idx, val)
    check_frame(eng, base)
    if hasattr(idx, "materialize") and type(idx).__name__ == "FirstTrue":  # a[np.nonzero(mask)[0]] = ...
        idx = idx.materialize(eng)
    if isinstance(idx, (SArr, NArr, PList)) and getattr(base, "view_of", None) is None and kind_of(val) is not None:
        return _vector_store(eng, base, idx, val)
    if isinstance(idx, (SArr, slice, PList)):
        from . import stock_np

        if not isinstance(idx, slice) and stock_np.scatter(eng, base, idx, val):  # a[index array] = value array (last resort)
            return
        raise Unsupported("vector store into a symbolic array")
    iz = norm_index(eng, idx, base.n, "array store")
    vz = to_z3(val, base.kind) if not (base.kind == "int" and kind_of(val) == "real") else None
    if vz is None:
        raise Unsupported("store of a real into an int array")
    tgt = getattr(base, "view_of", None)
    if tgt is not None:
        parent, lo = tgt
        check_frame(eng, parent)
        parent.arr = z3.Store(parent.arr, iz + lo, vz)
        base.arr = lam(lambda i: parent.get(i + lo).z, base.kind)
        return
    base.arr = z3.Store(base.arr, iz, vz)


def _vector_store(eng, base, idx, val):
    """`a[idx] = scalar` on a 1-D array of symbolic length, idx a boolean mask of the same length or an integer index array / list:
    exactly the selected cells get the value, every other cell keeps its content (numpy: repeated positions are harmless for a
    scalar).  Positions must lie in [0, len(a)) (safety obligation; negative positions are not modelled)."""
    from .models import norm_index

    if base.kind == "int" and kind_of(val) == "real":
        raise Unsupported("store of a real into an int array")
    vz, old, n = to_z3(val, base.kind), base.arr, base.nz()
    i, j = z3.Int(fresh_name("vs_i")), z3.Int(fresh_name("vs_j"))
    if isinstance(idx, SArr) and idx.kind == "bool":
        used(eng, "boolean-mask store a[mask] = scalar writes exactly the cells where the mask is set (mask as long as the array)")
        if not eng.spec_mode:
            eng.prove(eng.site("mask-as-long-as-the-array"), idx.nz() == n, "safety", "boolean index did not match the indexed array")
        m = idx.arr
        base.arr = z3.Lambda([i], z3.If(z3.Select(m, i), vz, z3.Select(old, i)))
        return
    if isinstance(idx, SArr) and idx.kind == "int":
        used(eng, "index-array store a[idx] = scalar writes exactly the cells idx names (hit array defined with a witness position per written cell)")
        m, A = idx.nz(), idx.arr
        if not eng.spec_mode:
            eng.prove(eng.site("index-in-bounds"), z3.ForAll([j], z3.Implies(z3.And(j >= 0, j < m), z3.And(z3.Select(A, j) >= 0, z3.Select(A, j) < n))), "safety", "index array store")
        tag = fresh_name("vst")
        hit = z3.Const(tag + "_hit", z3.ArraySort(z3.IntSort(), z3.BoolSort()))
        wit = z3.Function(tag + "_wit", z3.IntSort(), z3.IntSort())
        eng.assume(z3.ForAll([j], z3.Implies(z3.And(j >= 0, j < m), z3.Select(hit, z3.Select(A, j)))))
        eng.assume(z3.ForAll([i], z3.Implies(z3.Select(hit, i), z3.And(wit(i) >= 0, wit(i) < m, z3.Select(A, wit(i)) == i))))
        base.arr = z3.Lambda([i], z3.If(z3.Select(hit, i), vz, z3.Select(old, i)))
        return
    items = idx.items if isinstance(idx, (NArr, PList)) else None
    if items is None or (isinstance(idx, NArr) and idx.ndim != 1) or not all(kind_of(x) in ("int", "bool") for x in items):
        raise Unsupported("vector store into a symbolic array")
    if items and all(kind_of(x) == "bool" for x in items):  # a concrete-length boolean mask
        used(eng, "boolean-mask store a[mask] = scalar writes exactly the cells where the mask is set (mask as long as the array)")
        if not eng.spec_mode:
            eng.prove(eng.site("mask-as-long-as-the-array"), n == len(items), "safety", "boolean index did not match the indexed array")
        arr = old
        for q, b in enumerate(items):
            arr = z3.Store(arr, q, z3.If(to_z3(b, "bool"), vz, z3.Select(old, q)))
        base.arr = arr
        return
    used(eng, "index-list store a[[i, j, ...]] = scalar writes the named cells")
    arr = old
    for x in items:
        arr = z3.Store(arr, norm_index(eng, x, base.n, "array store"), vz)
    base.arr = arr


# ------------------------------------------------------------------ methods
def _a_copy(eng, recv, args, kwargs):
    used(eng, "ndarray.copy-is-fresh")
    if isinstance(recv, NArr):
        return NArr(recv.shape, list(recv.items), recv.kind, recv.dtype)
    return SArr(recv.arr, recv.n, recv.kind, name=recv.name + "_cp", dtype=recv.dtype)


def _a_item(eng, recv, args, kwargs):
    if isinstance(recv, NArr):
        if len(recv.items) != 1:
            raise ProgExc(ValueError, "item() of non-scalar array")
        return recv.items[0]
    raise Unsupported("item() on a symbolic-length array")


def first_true(eng, mask):
    """argmax of a boolean array: first True position, else 0 (numpy semantics)."""
    used(eng, "argmax-of-bool-is-first-true-else-0")
    r = fresh("int", "argmax")
    j = z3.Int(fresh_name("j"))
    n = mask.nz()
    anyt = z3.Exists([j], z3.And(j >= 0, j < n, mask.get(j).z))
    eng.assume(z3.And(r.z >= 0, z3.Or(r.z < n, z3.And(n == 0, r.z == 0))))
    eng.assume(z3.ForAll([j], z3.Implies(z3.And(j >= 0, j < r.z), z3.Not(mask.get(j).z))))
    eng.assume(z3.Or(mask.get(r.z).z, z3.And(r.z == 0, z3.ForAll([j], z3.Implies(z3.And(j >= 0, j < n), z3.Not(mask.get(j).z))))))
    return r


def _a_argmax(eng, recv, args, kwargs):
    if isinstance(recv, SArr) and recv.kind == "bool":
        if not eng.spec_mode:
            if not eng.branch(eng.sbool(recv.nz() > 0)):
                raise ProgExc(ValueError, "argmax of an empty sequence")
        return first_true(eng, recv)
    raise Unsupported("argmax on non-boolean symbolic array")


def _a_any(eng, recv, args, kwargs):
    if isinstance(recv, SArr) and recv.kind == "bool":
        j = z3.Int(fresh_name("j"))
        return eng.sbool(z3.Exists([j], z3.And(j >= 0, j < recv.nz(), recv.get(j).z)))
    raise Unsupported("any()")


def _a_all(eng, recv, args, kwargs):
    if isinstance(recv, SArr) and recv.kind == "bool":
        j = z3.Int(fresh_name("j"))
        return eng.sbool(z3.ForAll([j], z3.Implies(z3.And(j >= 0, j < recv.nz()), recv.get(j).z)))
    raise Unsupported("all()")


def _a_to_numpy(eng, recv, args, kwargs):
    return recv


def _a_astype(eng, recv, args, kwargs):
    k = kind_of_dtype(args[0])
    if isinstance(recv, NArr):
        from . import narr

        return narr.astype(eng, recv, k, args[0])
    if k == recv.kind:
        used(eng, "astype-same-kind-copies")
        return SArr(recv.arr, recv.n, k, name=recv.name + "_as", dtype=args[0])
    if k == "real" and recv.kind in ("int", "bool"):
        return SArr(lam(lambda i: to_z3(recv.get(i), "real"), "real"), recv.n, "real", dtype=args[0])
    raise Unsupported("astype narrowing on symbolic array")


ARR_METHODS = {
    "copy": _a_copy, "item": _a_item, "argmax": _a_argmax, "any": _a_any, "all": _a_all,
    "to_numpy": _a_to_numpy, "astype": _a_astype,
}


def method_of(eng, v, name):
    if name == "shape":
        return v.shape if isinstance(v, NArr) else (eng.snum(v.nz(), "int"),)
    if name == "ndim":
        return v.ndim if isinstance(v, NArr) else 1
    if name == "dtype":
        return v.dtype if v.dtype is not None else dtype_of_kind(v.kind)
    if name == "size":
        return len(v.items) if isinstance(v, NArr) else eng.snum(v.nz(), "int")
    if isinstance(v, NArr):
        from . import narr

        m = narr.method_of(eng, v, name)
        if m is not None:
            return m
    if name == "T" and isinstance(v, SArr):
        return v
    if name in ARR_METHODS:
        return NativeMethod(ARR_METHODS[name], v, name)
    raise Unsupported(f"ndarray.{name}")


def narr_rows(eng, v):
    from . import narr

    return narr.rows(eng, v)


# ------------------------------------------------ comprehensions over symbolic
def skolemizer(bound, u0):
    """Fresh constants created while the element of a comprehension was evaluated for the ARBITRARY position `bound` (results of
    modular calls, havocked values: names `base!N` with N > u0) are values AT that position.  Before a fact / an element term
    is generalised over the position (ForAll / Lambda over `bound`) every such constant c is replaced by c@(bound): a fresh
    function of the position (Skolem form of "for every position there is such a value").  Leaving c a constant would assume
    that ONE value serves every position (e.g. that all members of a list have the same length)."""
    import re as _re

    cache = {}
    bound = list(bound)

    def sk(e):
        if not isinstance(e, z3.ExprRef):
            return e
        found, seen, stack = {}, set(), [e]
        while stack:
            x = stack.pop()
            if x.get_id() in seen:
                continue
            seen.add(x.get_id())
            if z3.is_quantifier(x):
                stack.append(x.body())
            elif z3.is_app(x):
                if x.num_args() == 0 and x.decl().kind() == z3.Z3_OP_UNINTERPRETED:
                    m = _re.search(r"!(\d+)$", x.decl().name())
                    if m and int(m.group(1)) > u0 and not any(x.eq(b) for b in bound):
                        found[x.get_id()] = x
                else:
                    stack.extend(x.children())
        if not found:
            return e
        subs = []
        for c in found.values():
            nm = c.decl().name()
            if nm not in cache:
                cache[nm] = z3.Function(nm + "@", *[b.sort() for b in bound], c.sort())
            subs.append((c, cache[nm](*bound)))
        return z3.substitute(e, *subs)

    return sk



def _sk_value(sk, v):
    """a scalar element value with the position-dependent constants in Skolem form (other values are handed on as they are)"""
    if isinstance(v, Sym):
        z = sk(v.z)
        return v if z is v.z else Sym(z, v.kind)
    if isinstance(v, tuple):
        return tuple(_sk_value(sk, x) for x in v)
    return v


def symbolic_comprehension(eng, n, fr, kind, first):
    """[elt for x in S]  (no filter, one generator) over a symbolic-length S: the
    result is the pointwise image (z3 lambda array)."""
    from .models import as_sequence

    gens = n.generators
    if len(gens) != 1 or gens[0].ifs:
        hook = getattr(eng, "comprehension_hook", None)
        if hook is not None:
            return hook(eng, n, fr, kind, first)
        if len(gens) == 1 and kind in ("list", "gen"):
            return filtered_comprehension(eng, n, fr, kind, first)
        raise Unsupported("filtered / nested comprehension over a symbolic sequence")
    length, getter = as_sequence(eng, first)
    upstream = (first, first.seq, True) if isinstance(first, Iter) and not first.consumed and kind == "gen" else None
    bulk = _bulk_dict_pop(eng, n, fr, kind, length, getter)
    if bulk is not None:
        if isinstance(first, Iter):
            first.consumed = True
        return bulk
    i = z3.Int(fresh_name("ci"))
    from .values import next_uid as _next_uid

    u0 = _next_uid()
    sk = skolemizer([i], u0)
    eng.comp_skolem_u0 = u0  # for EXTRA_ELEMENT_HOOKS that generalise a non-scalar element themselves
    sub = Frame(parent=fr, globs=fr.globs, func=fr.func)
    eng.assign(gens[0].target, getter(Sym(i, "int")), sub)
    # the element expression is evaluated once, symbolically in the position i
    # (it must be free of side effects; obligations it raises are universally
    # quantified by construction because i is unconstrained apart from the range)
    nz = length.z if isinstance(length, Sym) else zint(length)
    saved = list(eng.pc)
    eng.pc.append(z3.And(i >= 0, i < nz))
    eng.pure_mode = getattr(eng, "pure_mode", 0) + 1
    try:
        if kind == "dict":
            kv = eng.ev(n.key, sub)
            vv = eng.ev(n.value, sub)
        else:
            vv = eng.ev(n.elt, sub)
    finally:
        eng.pure_mode -= 1
        new = eng.pc[len(saved) + 1 :]
        eng.pc = saved
        # facts assumed while evaluating the element (e.g. proved bounds) are
        # re-added under the quantifier
        for h in new:
            eng.pc.append(z3.ForAll([i], z3.Implies(z3.And(i >= 0, i < nz), sk(h))))
    if isinstance(first, Iter):
        first.consumed = True
    if kind == "dict":
        return _dict_from_pairs(eng, i, nz, _sk_value(sk, kv), _sk_value(sk, vv))
    if isinstance(vv, tuple):
        kinds = [kind_of(x) for x in vv]
        if any(k is None for k in kinds):
            raise Unsupported("comprehension element type")
        p = PList()
        p.items, p.kinds, p.tup, p.n = None, kinds, True, z3.simplify(nz)
        p.cols = [z3.Lambda([i], sk(to_z3(x, k))) for x, k in zip(vv, kinds)]
    else:
        k = kind_of(vv)
        proto = None
        if vv is None:
            k = "oref"
        from .values import Opaque as _Op
        if isinstance(vv, _Op):
            k, proto, vv = "ref", vv.proto, Sym(vv.z, "ref")
        if k is None:
            from . import models as _models

            for hook in getattr(_models, "EXTRA_ELEMENT_HOOKS", ()):  # extension values for non-scalar elements (pyvc/ext_*.py)
                r = hook(eng, vv, i, nz, kind)
                if r is not None:
                    if isinstance(first, Iter):
                        first.consumed = True
                    return r
            raise Unsupported(f"comprehension element of type {type(vv).__name__} over a symbolic sequence")
        p = PList()
        p.items, p.kinds, p.tup, p.n = None, [k], False, z3.simplify(nz)
        p.cols = [z3.Lambda([i], sk(to_z3(vv, k)))]
        if proto is not None:
            p.proto = proto
    if kind == "gen":
        out = Iter(p)
        out.source = upstream  # a generator over a one-shot iterator: a consumer that stops early leaves the rest in THAT iterator
        return out
    if kind == "list":
        return p
    raise Unsupported("set comprehension over a symbolic sequence")


FILTER_MODEL = ("comprehension-model: [e(x) for x in S if c(x)] over a sequence of unknown length keeps exactly the elements whose condition holds, in "
                "order (ghost symbols: the number N of kept elements, the position K(m) of the m-th kept one, the rank R(i) of a kept position; if "
                "every condition holds nothing is dropped); condition and element are evaluated once for an arbitrary position and must be pure")


def filtered_comprehension(eng, n, fr, kind, first):
    """[elt for x in S if c1 if c2 ...] (one generator) over a symbolic-length S.  Condition and element are evaluated once, for an
    arbitrary position i (pure: no fork, no side effect); the result is a fresh list described by an order-preserving selection."""
    from .models import as_sequence
    from .values import Opaque as _Op

    g = n.generators[0]
    length, getter = as_sequence(eng, first)
    upstream = (first, first.seq, False) if isinstance(first, Iter) and not first.consumed and kind == "gen" else None
    nz = length.z if isinstance(length, Sym) else zint(length)
    i = z3.Int(fresh_name("fi"))
    from .values import next_uid as _next_uid

    sk = skolemizer([i], _next_uid())
    in_range = z3.And(i >= 0, i < nz)
    sub = Frame(parent=fr, globs=fr.globs, func=fr.func)
    saved = list(eng.pc)
    eng.pc.append(in_range)
    guards = 1  # number of guard hypotheses pushed on the path condition (range, then every condition that is not decided)
    cond, vv = True, None
    eng.pure_mode = getattr(eng, "pure_mode", 0) + 1
    try:
        eng.assign(g.target, getter(Sym(i, "int")), sub)
        facts = []  # (hypotheses added while evaluating, number of guards in force)
        for c in g.ifs:  # `if a if b`: b is evaluated only where a holds
            k0 = len(eng.pc)
            t = eng.truth(eng.ev(c, sub))
            facts.append((eng.pc[k0:], cond))
            del eng.pc[k0:]
            cond = eng.and_(cond, t)
            if cond is False:
                break
            if isinstance(t, Sym):
                eng.pc.append(t.z)
        if cond is not False:
            k0 = len(eng.pc)
            vv = eng.ev(n.elt, sub)
            facts.append((eng.pc[k0:], cond))
    finally:
        eng.pure_mode -= 1
        eng.pc = saved
    for hs, gd in facts:  # facts established while evaluating (proved bounds ...) hold at every position where that part is evaluated
        gz = in_range if gd is True else z3.And(in_range, to_z3(gd, "bool"))
        for h in hs:
            eng.pc.append(z3.ForAll([i], z3.Implies(sk(gz), sk(h))))
    if isinstance(first, Iter):
        first.consumed = True
    if cond is False:
        return Iter(PList([])) if kind == "gen" else PList([])
    if isinstance(cond, Sym):
        cond = _sk_value(sk, cond)
    vals = vv if isinstance(vv, tuple) else (vv,)
    kinds, terms, proto = [], [], None
    for x in vals:
        if x is None:
            kinds.append("oref"), terms.append(z3.IntVal(0))
        elif isinstance(x, _Op):
            kinds.append("ref"), terms.append(sk(x.z))
            proto = x.proto if not isinstance(vv, tuple) else None
        elif kind_of(x) is not None:
            kinds.append(kind_of(x)), terms.append(sk(to_z3(x, kind_of(x))))
        else:
            raise Unsupported(f"filtered comprehension element of type {type(x).__name__} over a symbolic sequence")
    p = PList()
    p.items, p.kinds, p.tup, p.proto = None, kinds, isinstance(vv, tuple), proto
    def _gen(p):
        out = Iter(p)
        out.source = upstream
        return out

    if cond is True:  # nothing is filtered: the pointwise image
        p.n = z3.simplify(nz)
        p.cols = [z3.Lambda([i], t) for t in terms]
        if upstream is not None:
            upstream = upstream[:2] + (True,)
        return _gen(p) if kind == "gen" else p
    eng.assumptions.add(FILTER_MODEL)
    tag = fresh_name("flt")
    N = z3.Int(tag + "_N")
    K = z3.Function(tag + "_K", z3.IntSort(), z3.IntSort())
    R = z3.Function(tag + "_R", z3.IntSort(), z3.IntSort())
    m, m2 = z3.Int(tag + "_m"), z3.Int(tag + "_m2")
    holds = lambda t: z3.substitute(cond.z, (i, t))
    for ax in filter_axioms(nz, holds, N, K, R, i, m, m2):
        eng.assume(ax)
    p.n = N
    p.cols = [z3.Lambda([m], z3.substitute(t, (i, K(m)))) for t in terms]
    eng.ghost.setdefault("filters", []).append(dict(N=N, K=K, R=R, n=nz, cond=holds, out=p))
    return _gen(p) if kind == "gen" else p


def filter_axioms(nz, holds, N, K, R, i, m, m2):
    """the order-preserving selection of the positions 0 <= i < nz at which holds(i): N of them, K(m) the m-th, R(i) the rank of a kept one
    (every formula is a property of CPython's filtering: tools/xcheck_strmodel.py evaluates them on concrete lists)"""
    in_range = z3.And(i >= 0, i < nz)
    return [
        z3.And(N >= 0, N <= nz),
        z3.ForAll([m], z3.Implies(z3.And(m >= 0, m < N), z3.And(K(m) >= m, K(m) < nz, holds(K(m)), R(K(m)) == m)), patterns=[K(m)]),
        z3.ForAll([m, m2], z3.Implies(z3.And(m >= 0, m < m2, m2 < N), K(m) < K(m2)), patterns=[z3.MultiPattern(K(m), K(m2))]),
        z3.ForAll([i], z3.Implies(z3.And(in_range, holds(i)), z3.And(R(i) >= 0, R(i) < N, R(i) <= i, K(R(i)) == i)), patterns=[R(i)]),
        z3.Implies(z3.ForAll([i], z3.Implies(in_range, holds(i))),
                   z3.And(N == nz, z3.ForAll([m], z3.Implies(z3.And(m >= 0, m < N), K(m) == m), patterns=[K(m)]))),
    ]


def _bulk_dict_pop(eng, n, fr, kind, length, getter):
    """The idiom  [d.pop(x) for x in S]  over a symbolic-length S and a symbolic scalar dict d.
    CPython pops the keys one after the other: the j-th pop raises KeyError unless its key is present and was not
    popped before.  Both conditions become obligations; then the result is the list of the old values in order
    and d loses exactly those keys (ghost pp(q) = the position that popped q)."""
    if kind != "list" or eng.spec_mode or getattr(eng, "pure_mode", 0):
        return None
    g, e = n.generators[0], n.elt
    if not (isinstance(g.target, ast.Name) and isinstance(e, ast.Call) and isinstance(e.func, ast.Attribute) and e.func.attr == "pop"
            and len(e.args) == 1 and not e.keywords and isinstance(e.args[0], ast.Name) and e.args[0].id == g.target.id):
        return None
    d = eng.ev(e.func.value, fr)
    if not isinstance(d, PDict) or d.items is not None or d.vkind == "intlist":
        return None
    used(eng, "list-comprehension-of-dict.pop: pops in sequence order (KeyError unless every key is present and the keys are pairwise distinct)")
    nz = length.z if isinstance(length, Sym) else zint(length)
    k, k2, q = z3.Int(fresh_name("bp")), z3.Int(fresh_name("bq")), z3.Int(fresh_name("bk"))
    key_at = lambda t: to_z3(getter(Sym(t, "int")), "int")
    rng = lambda t: z3.And(t >= 0, t < nz)
    check_frame(eng, d)
    eng.prove(eng.site("popped-keys-present"), z3.ForAll([k], z3.Implies(rng(k), z3.Select(d.dom, key_at(k)))), "safety", "dict.pop inside a comprehension")
    eng.prove(eng.site("popped-keys-distinct"), z3.ForAll([k, k2], z3.Implies(z3.And(rng(k), rng(k2), k < k2), key_at(k) != key_at(k2))), "safety", "dict.pop inside a comprehension")
    tag = fresh_name("pp")
    pp = z3.Function(tag, z3.IntSort(), z3.IntSort())
    eng.assume(z3.ForAll([k], z3.Implies(rng(k), pp(key_at(k)) == k)))  # definitional: keys are pairwise distinct (proved above)
    out = PList()
    out.items, out.kinds, out.tup, out.n = None, [d.vkind], False, z3.simplify(nz)
    out.cols = [z3.Lambda([k], z3.Select(d.val, key_at(k)))]
    d.dom = z3.Lambda([q], z3.And(z3.Select(d.dom, q), z3.Not(z3.And(rng(pp(q)), key_at(pp(q)) == q))))
    eng.ghost[("bulkpop", d.uid)] = (pp, key_at, nz)
    return out


def check_frame(eng, v):
    from .models import check_frame as _cf

    return _cf(eng, v)


def _dict_from_pairs(eng, i, nz, kv, vv):
    """{k(i): v(i) for i < n}: later entries win.  Encoded with a ghost
    `last(key)` = the last position whose key equals `key`."""
    used(eng, "dict-from-pairs-last-wins")
    vk = kind_of(vv)
    if vk is None or kind_of(kv) is None:
        raise Unsupported("dict comprehension element types")
    d = PDict.fresh(vk, name="dc")
    tag = fresh_name("dl")
    last = z3.Function("last_" + tag, z3.IntSort(), z3.IntSort())
    key_at = z3.Lambda([i], to_z3(kv, "int"))
    val_at = z3.Lambda([i], to_z3(vv, vk))
    x, j = z3.Ints(f"x_{tag} j_{tag}")
    inr = lambda t: z3.And(t >= 0, t < nz)
    eng.assume(z3.ForAll([x], z3.Select(d.dom, x) == z3.And(inr(last(x)), z3.Select(key_at, last(x)) == x)))
    eng.assume(z3.ForAll([j], z3.Implies(inr(j), z3.And(inr(last(z3.Select(key_at, j))), last(z3.Select(key_at, j)) >= j,
                                                         z3.Select(key_at, last(z3.Select(key_at, j))) == z3.Select(key_at, j)))))
    eng.assume(z3.ForAll([x], z3.Implies(z3.Select(d.dom, x), z3.Select(d.val, x) == z3.Select(val_at, last(x)))))
    d.last, d.key_at = last, key_at
    return d


def dict_from_symbolic_pairs(eng, a):
    """dict(zip(keys, range(n))) and friends."""
    from .models import as_sequence

    length, getter = as_sequence(eng, a)
    i = z3.Int(fresh_name("pi"))
    kv, vv = getter(Sym(i, "int"))
    nz = length.z if isinstance(length, Sym) else zint(length)
    return _dict_from_pairs(eng, i, nz, kv, vv)


# ------------------------------------------------------------- np functions
def _np_arange(eng, args, kwargs):
    used(eng, "np.arange")
    dt = kwargs.get("dtype")
    step = kwargs.get("step", args[2] if len(args) > 2 else 1)
    if step != 1:
        raise Unsupported("arange step")
    if len(args) == 1:
        lo, hi = 0, args[0]
    else:
        lo, hi = args[0], args[1]
    if isinstance(lo, int) and isinstance(hi, int):
        from . import narr

        return narr.from_list(list(range(lo, hi)), "int", dt)
    lz, hz = to_z3(lo, "int"), to_z3(hi, "int")
    n = z3.simplify(z3.If(hz >= lz, hz - lz, z3.IntVal(0)))
    return SArr(lam(lambda i: i + lz, "int"), n, "int", name="arange", dtype=dt)


def _np_where(eng, args, kwargs):
    used(eng, "np.where-pointwise")
    if len(args) != 3:
        raise Unsupported("np.where with one argument")
    m, a, b = args
    if isinstance(m, NArr):
        from . import narr

        return narr.where(eng, m, a, b)
    if not isinstance(m, SArr):
        raise Unsupported("np.where condition")
    ka = a.kind if isinstance(a, SArr) else kind_of(a)
    kb = b.kind if isinstance(b, SArr) else kind_of(b)
    k = _join_kind(ka, kb)
    for x in (a, b):
        if isinstance(x, SArr):
            _len_eq(eng, m, x, "np.where")
    ga = (lambda i: to_z3(a.get(i), k)) if isinstance(a, SArr) else (lambda i, _z=to_z3(a, k): _z)
    gb = (lambda i: to_z3(b.get(i), k)) if isinstance(b, SArr) else (lambda i, _z=to_z3(b, k): _z)
    return SArr(lam(lambda i: z3.If(m.get(i).z, ga(i), gb(i)), k), m.n, k, name="where")


def _np_count_nonzero(eng, args, kwargs):
    used(eng, "np.count_nonzero")
    (a,) = args
    if isinstance(a, NArr):
        acc = 0
        for x in a.items:
            t = eng.truth(x)
            acc = eng.binop(ast.Add(), acc, Sym(to_z3(t, "int"), "int") if isinstance(t, Sym) else int(t))
        return acc
    return count_true(eng, a)


def count_true(eng, mask, upto=None):
    """cnt(mask, n): number of True entries below n, axiomatised by its unfolding
    (ghost function cnt_m with cnt_m(0)=0, cnt_m(i+1)=cnt_m(i)+[mask[i]])."""
    key = ("cnt", mask.arr.get_id())
    f = eng.ghost.get(key)
    if f is None:
        tag = fresh_name("cnt")
        f = z3.Function(tag, z3.IntSort(), z3.IntSort())
        i = z3.Int("i_" + tag)
        b = lambda t: z3.If(to_z3(mask.get(t), "bool"), 1, 0)
        eng.assume(f(0) == 0)
        eng.assume(z3.ForAll([i], z3.Implies(i >= 0, f(i + 1) == f(i) + b(i)), patterns=[f(i + 1)]))
        eng.assume(z3.ForAll([i], z3.Implies(i >= 0, z3.And(f(i) >= 0, f(i) <= i)), patterns=[f(i)]))
        eng.ghost[key] = f
        eng.ghost.setdefault("cnt-functions", []).append((f, mask))
    n = mask.nz() if upto is None else to_z3(upto, "int")
    return Sym(f(n), "int")


def _np_full_like(eng, args, kwargs):
    used(eng, "np.full_like")
    a = args[0]
    fv = kwargs.get("fill_value", args[1] if len(args) > 1 else None)
    dt = kwargs.get("dtype")
    if dt is not None and kind_of_dtype(dt) != a.kind:
        raise Unsupported("np.full_like with a dtype of another kind")  # (was: dtype silently ignored) -> pyvc/stock_np.py casts the fill value
    if isinstance(a, NArr):
        return NArr(a.shape, [fv] * len(a.items), a.kind, a.dtype)
    k = a.kind
    return SArr(z3.K(z3.IntSort(), to_z3(fv, k)), a.n, k, name="full", dtype=a.dtype)


def _np_ones_like(eng, args, kwargs):
    return _np_full_like(eng, [args[0], 1], {k: v for k, v in kwargs.items() if k == "dtype"})


def _np_zeros_like(eng, args, kwargs):
    return _np_full_like(eng, [args[0], 0], {k: v for k, v in kwargs.items() if k == "dtype"})


def _np_array(eng, args, kwargs):
    used(eng, "np.array-copies")
    src = args[0]
    dt = kwargs.get("dtype", args[1] if len(args) > 1 else None)
    k = kind_of_dtype(dt) if dt is not None else None
    if isinstance(src, SArr):
        kk = k or src.kind
        if kk == src.kind:
            return SArr(src.arr, src.n, kk, name=src.name + "_arr", dtype=dt)
        return _a_astype(eng, src, [dt], {})
    if isinstance(src, PList) and src.items is None:
        if src.tup:
            raise Unsupported("np.array of a symbolic list of tuples")
        kk = k or src.kinds[0]
        if kk != src.kinds[0]:
            if kk == "real":
                c = src.cols[0]
                return SArr(lam(lambda i: to_z3(Sym(z3.Select(c, i), src.kinds[0]), "real"), "real"), src.n, "real", dtype=dt)
            raise Unsupported("np.array narrowing")
        return SArr(src.cols[0], src.n, kk, name="arr", dtype=dt)
    if isinstance(src, Iter):
        raise Unsupported("np.array of an iterator")
    from . import narr

    return narr.array(eng, src, k, dt)


def _np_issubdtype(eng, args, kwargs):
    return bool(np.issubdtype(args[0], args[1]))


def _np_unique(eng, args, kwargs):
    raise Unsupported("np.unique on symbolic data")


def _np_cumsum(eng, args, kwargs):
    """np.cumsum(a): out[0]=a[0], out[k+1]=out[k]+a[k+1]; plus the lemma
    (all a[j] >= 0 from position 1 on) => out is non-decreasing (assumed lemma)."""
    used(eng, "np.cumsum-recurrence")
    eng.assumptions.add("assumed-lemma:cumsum-of-nonnegatives-is-monotone")
    a = args[0]
    if isinstance(a, PList):
        if a.items is not None:
            acc, outl = 0, []
            for x in a.items:
                acc = eng.binop(ast.Add(), acc, x)
                outl.append(acc)
            from . import narr

            return narr.from_list(outl, "int", None)
        src = SArr(a.cols[0], a.n, a.kinds[0])
    elif isinstance(a, SArr):
        src = a
    else:
        raise Unsupported("np.cumsum argument")
    out = SArr.fresh(src.kind, src.n, name="cumsum", dtype=np.dtype("int64") if src.kind == "int" else None)
    k, k2 = z3.Ints(fresh_name("ck") + " " + fresh_name("ck2"))
    n = src.nz()
    eng.assume(z3.Implies(n > 0, out.get(0).z == src.get(0).z))
    eng.assume(z3.ForAll([k], z3.Implies(z3.And(k >= 0, k + 1 < n), out.get(k + 1).z == out.get(k).z + src.get(k + 1).z)))
    nonneg = z3.ForAll([k], z3.Implies(z3.And(k >= 1, k < n), src.get(k).z >= 0))
    eng.assume(z3.Implies(nonneg, z3.ForAll([k, k2], z3.Implies(z3.And(0 <= k, k <= k2, k2 < n), out.get(k).z <= out.get(k2).z))))
    return out


def _np_diff(eng, args, kwargs):
    """np.diff(a) of a 1-D array (n = 1, last axis): out[i] = a[i+1] - a[i], max(len(a) - 1, 0) entries, a fresh array."""
    a = args[0]
    if kwargs.get("n", args[1] if len(args) > 1 else 1) != 1 or set(kwargs) - {"n", "axis"}:
        raise Unsupported("np.diff with n != 1 / prepend / append")
    if isinstance(a, PList) and a.items is None and not a.tup:
        a = SArr(a.cols[0], a.n, a.kinds[0])
    if isinstance(a, SArr) and not hasattr(a, "__pyvc_getitem__"):
        if kwargs.get("axis", args[2] if len(args) > 2 else -1) not in (-1, 0):
            raise ProgExc(ValueError, "axis out of bounds for a 1-D array")
        if a.kind not in ("int", "real"):
            raise Unsupported("np.diff of a boolean array")
        used(eng, "np.diff-1d: out[i] = a[i+1] - a[i], max(len - 1, 0) entries, fresh")
        n = a.nz()
        out = SArr(lam(lambda i: a.get(i + 1).z - a.get(i).z, a.kind), z3.simplify(z3.If(n >= 1, n - 1, z3.IntVal(0))), a.kind, name="diff", dtype=a.dtype)
        out.diff_of = a
        return out
    if isinstance(a, NArr) and a.ndim == 1 and a.kind in ("int", "real"):
        used(eng, "np.diff-1d: out[i] = a[i+1] - a[i], max(len - 1, 0) entries, fresh")
        it = a.items
        return NArr((max(len(it) - 1, 0),), [eng.binop(ast.Sub(), it[j + 1], it[j]) for j in range(len(it) - 1)], a.kind, a.dtype)
    raise Unsupported("np.diff of this operand")


def _np_all_any(is_all):
    def model(eng, args, kwargs):
        """np.all(a) / np.any(a) without axis: the conjunction / disjunction of the truth values of all entries (True / False when empty)."""
        a = args[0]
        if len(args) != 1 or kwargs:
            raise Unsupported("np.all / np.any with an axis")
        if isinstance(a, SArr):
            used(eng, "np.all/np.any: every / some entry is true")
            j = z3.Int(fresh_name("j"))
            t = (lambda x: x.z) if a.kind == "bool" else (lambda x: x.z != 0)
            if is_all:
                r = eng.sbool(z3.ForAll([j], z3.Implies(z3.And(j >= 0, j < a.nz()), t(a.get(j)))))
                if getattr(a, "steps_of", None) is not None and isinstance(r, Sym):
                    # np.all(np.diff(src) == c) for a concrete c: src is the arithmetic progression src[0] + j*c.  The implication needs
                    # induction over the positions (z3 does none): stated as a named lemma
                    src, c = a.steps_of
                    eng.assumptions.add("assumed-lemma:arithmetic-progression: all(np.diff(a) == c) for a constant c implies a[j] = a[0] + j*c for every position j")
                    jz = to_z3(Sym(j, "int"), src.kind)
                    eng.assume(z3.Implies(r.z, z3.ForAll([j], z3.Implies(z3.And(j >= 0, j < src.nz()), src.get(j).z == src.get(0).z + jz * to_z3(c, src.kind)))))
                return r
            return eng.sbool(z3.Exists([j], z3.And(j >= 0, j < a.nz(), t(a.get(j)))))
        if isinstance(a, PList) and a.items is not None:
            items = a.items
        elif isinstance(a, NArr):
            items = a.items
        elif kind_of(a) is not None:
            items = [a]
        else:
            raise Unsupported("np.all / np.any of this operand")
        used(eng, "np.all/np.any: every / some entry is true")
        acc = is_all
        for x in items:
            acc = eng.and_(acc, eng.truth(x)) if is_all else eng.or_(acc, eng.truth(x))
        return acc

    return model


NP_MODELS = {
    np.diff: _np_diff, np.all: _np_all_any(True), np.any: _np_all_any(False),
    np.cumsum: _np_cumsum,
    np.arange: _np_arange, np.where: _np_where, np.count_nonzero: _np_count_nonzero, np.full_like: _np_full_like,
    np.ones_like: _np_ones_like, np.zeros_like: _np_zeros_like, np.array: _np_array, np.issubdtype: _np_issubdtype,
    np.unique: _np_unique,
}


def lookup_model(fn):
    try:
        m = NP_MODELS.get(fn)
    except TypeError:
        return None
    if m is not None:
        return m
    try:
        from . import narr

        return narr.NP_MODELS.get(fn)
    except TypeError:
        return None


# ------------------------------------------------------------------ pandas
class DFrame:
    """pandas.DataFrame with a default RangeIndex: ordered dict of equally long
    columns.  `df[col]` yields the column values (a Series is modelled by its
    values array: every use in the carriers is positional)."""

    def __init__(self, cols, n):
        self.cols = dict(cols)  # name -> SArr
        self.n = n
        from .values import next_uid

        self.uid = next_uid()
        self.frozen = False

    def __pyvc_snapshot__(self, memo):
        from .values import snapshot

        c = DFrame({k: snapshot(v, memo) for k, v in self.cols.items()}, self.n)
        c.uid = self.uid
        return c

    def __pyvc_getitem__(self, eng, key):
        eng.assumptions.add("pandas-model:DataFrame with default RangeIndex; df[col] is the column's values")
        if isinstance(key, str):
            if key not in self.cols:
                raise ProgExc(KeyError, key)
            c = self.cols[key]
            return SArr(c.arr, c.n, c.kind, name=key, dtype=c.dtype)
        if isinstance(key, PList) and key.items is not None:
            return DFrame({k: self.cols[k] for k in key.items}, self.n)
        if isinstance(key, SArr) and key.kind == "bool":
            raise Unsupported("boolean row selection on a DataFrame")
        raise Unsupported("DataFrame subscript")

    def __pyvc_setitem__(self, eng, key, val):
        from .models import check_frame

        check_frame(eng, self)
        if not isinstance(key, str):
            raise Unsupported("DataFrame column assignment with a non-string key")
        if isinstance(val, SArr):
            _len_eq(eng, SArr(val.arr, self.n, val.kind), val, "column assignment")
            self.cols[key] = SArr(val.arr, self.n, val.kind, name=key, dtype=val.dtype)
        elif isinstance(val, PList) and val.items is None:
            self.cols[key] = SArr(val.cols[0], self.n, val.kinds[0], name=key)
        elif kind_of(val) is not None:
            k = kind_of(val)
            self.cols[key] = SArr(z3.K(z3.IntSort(), to_z3(val, k)), self.n, k, name=key)
        else:
            raise Unsupported("DataFrame column assignment value")

    def __pyvc_getattr__(self, eng, name):
        if name == "loc" or name == "iloc" or name == "at":
            return DLoc(self)
        if name == "columns":
            return PList(list(self.cols.keys()))
        if name == "shape":
            return (eng.snum(zint(self.n), "int"), len(self.cols))
        if name == "copy":
            return NativeMethod(lambda e, r, a, k: DFrame({c: SArr(v.arr, v.n, v.kind, name=c, dtype=v.dtype) for c, v in r.cols.items()}, r.n), self, name)
        if name == "to_numpy":
            raise Unsupported("DataFrame.to_numpy")
        raise Unsupported(f"DataFrame.{name}")


class DLoc:
    def __init__(self, df):
        self.df = df

    def __pyvc_getitem__(self, eng, key):
        from .models import norm_index

        if isinstance(key, tuple) and len(key) == 2 and isinstance(key[1], str):
            c = self.df.cols[key[1]]
            iz = norm_index(eng, key[0], c.n, "df.loc row")
            return Sym(z3.Select(c.arr, iz), c.kind)
        raise Unsupported("df.loc form")

    def __pyvc_setitem__(self, eng, key, val):
        from .models import check_frame, norm_index

        check_frame(eng, self.df)
        if isinstance(key, tuple) and len(key) == 2 and isinstance(key[1], str) and isinstance(key[0], SArr) and key[0].kind == "bool":
            eng.assumptions.add("pandas-model:df.loc[mask, col] = scalar writes exactly the masked rows")
            c, m = self.df.cols[key[1]], key[0]
            _len_eq(eng, c, m, "df.loc mask")
            vz = to_z3(val, c.kind)
            self.df.cols[key[1]] = SArr(lam(lambda i: z3.If(m.get(i).z, vz, c.get(i).z), c.kind), c.n, c.kind, name=key[1], dtype=c.dtype)
            return
        if isinstance(key, tuple) and len(key) == 2 and isinstance(key[1], str):
            c = self.df.cols[key[1]]
            iz = norm_index(eng, key[0], c.n, "df.loc row")
            self.df.cols[key[1]] = SArr(z3.Store(c.arr, iz, to_z3(val, c.kind)), c.n, c.kind, name=key[1], dtype=c.dtype)
            return
        raise Unsupported("df.loc store form")


# ------------------------------------------------ (n x k) arrays, n symbolic
class S2Arr:
    """2-D array with a symbolic number of rows and k concrete columns
    (np.stack([...], axis=1) of 1-D symbolic arrays), possibly transposed."""

    def __init__(self, cols, n, kind="real", transposed=False):
        self.cols = list(cols)  # z3 arrays Int -> elem
        self.n = n
        self.kind = kind
        self.transposed = transposed
        from .values import next_uid

        self.uid = next_uid()
        self.frozen = False

    @property
    def k(self):
        return len(self.cols)

    def nz(self):
        return zint(self.n)

    def __pyvc_snapshot__(self, memo):
        c = S2Arr(self.cols, self.n, self.kind, self.transposed)
        c.uid = self.uid
        return c

    def __pyvc_getattr__(self, eng, name):
        if name == "T":
            return S2Arr(self.cols, self.n, self.kind, not self.transposed)
        if name == "dot":
            return NativeMethod(lambda e, r, a, k: r.dot(e, a[0]), self, name)
        if name == "shape":
            sh = (eng.snum(self.nz(), "int"), self.k)
            return sh[::-1] if self.transposed else sh
        if name == "copy":
            return NativeMethod(lambda e, r, a, k: S2Arr(r.cols, r.n, r.kind, r.transposed), self, name)
        raise Unsupported(f"2-D symbolic array attribute {name}")

    def dot(self, eng, b):
        used(eng, "dot-product")
        if self.transposed or not isinstance(b, NArr) or b.ndim != 2:
            raise Unsupported("dot form on a symbolic 2-D array")
        if b.shape[0] != self.k:
            raise ProgExc(ValueError, f"shapes (n,{self.k}) and {b.shape} not aligned")
        m = b.shape[1]
        bit = b.items
        out = []
        for j in range(m):
            out.append(lam(lambda i, _j=j: sum((z3.Select(self.cols[c], i) * to_z3(bit[c * m + _j], "real") for c in range(self.k)), z3.RealVal(0)), "real"))
        return S2Arr(out, self.n, "real")

    def __pyvc_getitem__(self, eng, idx):
        from .models import norm_index

        if self.transposed:
            if isinstance(idx, int):
                if not -self.k <= idx < self.k:
                    raise ProgExc(IndexError, "row index")
                return SArr(self.cols[idx], self.n, self.kind, name="row")
            if isinstance(idx, slice) and all(isinstance(b, int) or b is None for b in (idx.start, idx.stop, idx.step)):
                # A.T[a:b:c] with concrete bounds: the selected rows (= columns of A), still k' x n
                return S2Arr(self.cols[idx], self.n, self.kind, transposed=True)
            raise Unsupported("index form on a transposed symbolic 2-D array")
        if isinstance(idx, tuple) and len(idx) == 2 and isinstance(idx[1], int):
            iz = norm_index(eng, idx[0], self.n, "row index")
            return Sym(z3.Select(self.cols[idx[1]], iz), self.kind)
        if isinstance(idx, tuple) and len(idx) == 2 and isinstance(idx[0], slice) and idx[0] == slice(None) and isinstance(idx[1], int):
            return SArr(self.cols[idx[1]], self.n, self.kind, name="col")
        if isinstance(idx, (int, Sym)):
            iz = norm_index(eng, idx, self.n, "row index")
            return NArr((self.k,), [Sym(z3.Select(c, iz), self.kind) for c in self.cols], self.kind)
        if isinstance(idx, slice):
            raise Unsupported("row slice of a symbolic 2-D array")
        raise Unsupported("index form on a symbolic 2-D array")

    def inplace(self, eng, op, val):
        if self.transposed and isinstance(val, SArr):
            _len_eq(eng, SArr(self.cols[0], self.n, self.kind), val, "in-place op")
            if isinstance(op, ast.Div) and not eng.spec_mode:
                j = z3.Int(fresh_name("dj"))
                g = z3.simplify(z3.ForAll([j], z3.Implies(z3.And(j >= 0, j < self.nz()), to_z3(val.get(j), "real") != 0)))
                if not z3.is_true(g):
                    eng.prove(eng.site("div-nonzero"), g, "safety")
            self.cols = [lam(lambda i, _c=c: _z3op(op, z3.Select(_c, i), to_z3(val.get(i), "real")), "real") for c in self.cols]
            return
        raise Unsupported("in-place op form on a symbolic 2-D array")


def stack_sarr(eng, arrs, axis):
    used(eng, "np.stack")
    for a in arrs[1:]:
        _len_eq(eng, arrs[0], a, "np.stack")
    ks = {a.kind for a in arrs}
    k = "real" if "real" in ks else arrs[0].kind
    cols = [a.arr if a.kind == k else lam(lambda i, _a=a: to_z3(_a.get(i), k), k) for a in arrs]
    if axis == 1:
        return S2Arr(cols, arrs[0].n, k)
    if axis == 0:
        return S2Arr(cols, arrs[0].n, k, transposed=True)
    raise Unsupported("np.stack axis")


class FirstTrue:
    """np.nonzero(mask)[0] of a symbolic mask: only element 0 is modelled."""

    def __init__(self, mask):
        self.mask = mask

    def materialize(self, eng):
        """the whole position array (pyvc/stock_np.py: np.flatnonzero), for every use but `[0]`"""
        if getattr(self, "_all", None) is None:
            from . import stock_np

            self._all = stock_np._np_flatnonzero(eng, [self.mask], {})
        return self._all

    def __pyvc_getattr__(self, eng, name):
        return eng.models.method_of(eng, self.materialize(eng), name)

    def __pyvc_sequence__(self, eng):
        from .models import as_sequence

        return as_sequence(eng, self.materialize(eng))

    def __pyvc_getitem__(self, eng, idx):
        if not (isinstance(idx, int) and not isinstance(idx, bool) and idx == 0):
            return getitem(eng, self.materialize(eng), idx)
        m = self.mask
        j = z3.Int(fresh_name("j"))
        if not eng.spec_mode:
            if not eng.branch(eng.sbool(z3.Exists([j], z3.And(j >= 0, j < m.nz(), m.get(j).z)))):
                raise ProgExc(IndexError, "index 0 is out of bounds for axis 0 with size 0")
        return first_true(eng, m)


def _np_nonzero(eng, args, kwargs):
    used(eng, "np.nonzero-positions-in-order")
    (m,) = args
    if isinstance(m, SArr):
        mm = m if m.kind == "bool" else SArr(lam(lambda i: m.get(i).z != 0, "bool"), m.n, "bool")
        return (FirstTrue(mm),)
    raise Unsupported("np.nonzero argument")


NP_MODELS[np.nonzero] = _np_nonzero
