"""C05 extensions of pyvc: order primitives of numpy on 1-D arrays of SYMBOLIC length.

A changed body of sort_nodes_impl / sort_nodes_ typically replaces the id -> row dictionary by a "vectorised" lookup
(np.argsort / np.searchsorted / ndarray.min / max / np.all ...).  Without a model such a carrier is a machinery error
(exit 3), neither a pass nor a violation; with the models below it is DECIDED against the unchanged contract.

Models (each listed under trusted_base by `used`, cross-checked against numpy by tools/xcheck_ext_C05.py):

  a.min() / a.max() / np.min / np.max / np.amin / np.amax (1-D, no axis)
        ValueError on an empty array; else a value that is ATTAINED (ghost position) and bounds every element.
  np.all / np.any / a.all() / a.any() (bool: as the stock methods; int: "nonzero")
  np.argsort(a) / a.argsort()   a permutation `order` of [0, n) (ghost inverse) with a[order] non-decreasing; for kind='stable' /
        'mergesort' / stable=True equal keys keep their position order.  (Which permutation an unstable sort picks among equal keys is
        left open.)
  np.sort(a)                    a[order] for such a permutation.
  np.searchsorted(a, v, side, sorter) / a.searchsorted(v, ...)
        result r (scalar for a scalar v) with 0 <= r <= n always; IF the searched keys key(i) = a[i] (a[sorter[i]] with a sorter) are
        non-decreasing, r is the insertion point:  side='left':  i < r  <=>  key(i) < v;   side='right':  i < r  <=>  key(i) <= v.
        For keys that are NOT sorted numpy documents nothing (the answer depends on the bisection order and on the previous needle):
        the model leaves r unconstrained in [0, n], so a proof can never rest on it.  sorter: same length (shape obligation) and every
        entry a position of `a` (obligation: numpy raises ValueError otherwise).

Nothing here is specific to one carrier.  The models are reached ONLY through the contract option `models=ext_C05.MODELS` (an
`eng.models` replacement, the mechanism of pyvc/ext_C03.py / ext_C09.py); for values they do not handle (concrete-shape NArr ...)
they chain to the stock model.
"""
from __future__ import annotations

import numpy as np
import z3

from .engine import ProgExc, Unsupported
from .values import NArr, PList, SArr, Sym, fresh, fresh_name, kind_of, to_z3, zint

I = z3.IntSort()


def used(eng, name):
    eng.assumptions.add("numpy-model:" + name)


def _is_sarr(v):
    return isinstance(v, SArr) and (not hasattr(v, "__pyvc_getitem__") or type(v).__name__ == "Series5")


def _as_sarr(v):
    """a symbolic-length list of scalars (the value of a comprehension) is accepted where numpy converts with np.asarray"""
    if _is_sarr(v):
        return v
    if isinstance(v, PList) and v.items is None and len(v.cols) == 1 and not v.tup:
        return SArr(v.cols[0], v.n, v.kinds[0], name="aslist")
    return None


def _rng(t, n):
    return z3.And(t >= 0, t < n)


def _mat(eng, a):
    """an array whose contents are a lambda term (a gather `ids[order]`, an arithmetic result) gets a NAME: a fresh array constant defined
    cell by cell (definitional extension), so that the facts stated about it can carry triggers (a select on a lambda term is no pattern)"""
    if a is None or not (z3.is_quantifier(a.arr) and a.arr.is_lambda()) or eng.spec_mode:
        return a
    key = ("named-array", a.arr.get_id())
    c = eng.ghost.get(key)
    if c is None:
        c = eng.ghost[key] = z3.Const(fresh_name(a.name + "_v"), a.arr.sort())
        i = z3.Int(fresh_name("mi"))
        body = z3.simplify(z3.Select(a.arr, i))
        pats, todo = [z3.Select(c, i)], [body]
        while todo:  # a cell that reads other arrays AT i (a gather x[order[i]]) is also found from those reads (order[i])
            t = todo.pop()
            if z3.is_select(t) and t.arg(1).eq(i) and z3.is_const(t.arg(0)):
                pats.append(t)
            elif z3.is_app(t):
                todo.extend(t.children())
        try:
            eng.assume(z3.ForAll([i], z3.Select(c, i) == body, patterns=pats))
        except z3.Z3Exception:
            eng.assume(z3.ForAll([i], z3.Select(c, i) == body, patterns=pats[:1]))
    return SArr(c, a.n, a.kind, name=a.name, dtype=a.dtype)


# ------------------------------------------------------------------ min / max
def _minmax(eng, a, is_min):
    if a.kind not in ("int", "real"):
        raise Unsupported("min/max of a boolean array of symbolic length")
    what = "minimum" if is_min else "maximum"
    n = a.nz()
    if not eng.spec_mode:
        if not eng.branch(eng.sbool(n > 0)):
            raise ProgExc(ValueError, f"zero-size array to reduction operation {what} which has no identity")
    used(eng, "min/max-of-1d-array: attained at some position and bounds every element (ValueError when empty)")
    m = fresh(a.kind, "amin" if is_min else "amax")
    w = z3.Int(fresh_name("at_" + ("min" if is_min else "max")))
    k = z3.Int(fresh_name("mk"))
    eng.assume(z3.Implies(n > 0, z3.And(_rng(w, n), z3.Select(a.arr, w) == m.z)))
    bound = (z3.Select(a.arr, k) >= m.z) if is_min else (z3.Select(a.arr, k) <= m.z)
    eng.assume(z3.ForAll([k], z3.Implies(_rng(k, n), bound), patterns=[z3.Select(a.arr, k)]))
    return m


def _reduction_args(args, kwargs, name):
    extra = {k: v for k, v in kwargs.items() if not (k == "axis" and v in (None, 0, -1)) and not (k == "keepdims" and v is False)}
    if extra or len(args) > 1 and args[1] not in (None, 0, -1) or len(args) > 2:
        raise Unsupported(f"{name} with these options on an array of symbolic length")


def _m_min(eng, recv, args, kwargs):
    _reduction_args([recv] + list(args), kwargs, "ndarray.min")
    return _minmax(eng, recv, True)


def _m_max(eng, recv, args, kwargs):
    _reduction_args([recv] + list(args), kwargs, "ndarray.max")
    return _minmax(eng, recv, False)


# ------------------------------------------------------------------ all / any
def _all_any(eng, a, is_all):
    j = z3.Int(fresh_name("j"))
    if a.kind == "bool":
        cell = a.get(j).z
    elif a.kind in ("int", "real"):
        cell = a.get(j).z != 0
    else:
        raise Unsupported("all/any element kind")
    used(eng, "all/any-of-1d-array: every / some element is true (nonzero)")
    if is_all:
        return eng.sbool(z3.ForAll([j], z3.Implies(_rng(j, a.nz()), cell)))
    return eng.sbool(z3.Exists([j], z3.And(_rng(j, a.nz()), cell)))


# ------------------------------------------------------------------ argsort / sort
def _stable_requested(kwargs):
    kind = kwargs.get("kind")
    if kind not in (None, "quicksort", "heapsort", "stable", "mergesort"):
        raise Unsupported(f"sort kind {kind!r}")
    if kwargs.get("stable") not in (None, True, False):
        raise Unsupported("sort stable=")
    return kind in ("stable", "mergesort") or kwargs.get("stable") is True


def _permutation_facts(eng, a, arr, rank, stable):
    n = a.nz()
    k, k2, p = z3.Int(fresh_name("sk")), z3.Int(fresh_name("sk2")), z3.Int(fresh_name("sp"))
    o = lambda t: z3.Select(arr, t)
    key = lambda t: to_z3(a.get(o(t)), "int" if a.kind == "bool" else a.kind)
    eng.assume(z3.ForAll([k], z3.Implies(_rng(k, n), z3.And(_rng(o(k), n), rank(o(k)) == k)), patterns=[o(k)]))
    # second trigger: whenever a key a[p] is mentioned, its place rank(p) in the sorted order is available (a needle that is known to
    # be the key of some position is then found by searchsorted without a proof hint)
    eng.assume(z3.ForAll([p], z3.Implies(_rng(p, n), z3.And(_rng(rank(p), n), o(rank(p)) == p)), patterns=[rank(p), z3.Select(a.arr, p)]))
    if stable:
        ordered = z3.Or(key(k) < key(k2), z3.And(key(k) == key(k2), o(k) < o(k2)))
    else:
        ordered = key(k) <= key(k2)
    eng.assume(z3.ForAll([k, k2], z3.Implies(z3.And(0 <= k, k < k2, k2 < n), ordered), patterns=[z3.MultiPattern(o(k), o(k2))]))


def stable_order(eng, a):
    """THE stable sorting permutation of the array value `a` (z3 array term of positions, ghost inverse): a function of the contents, so
    it is introduced once per (contents, length) on a path and shared by every later sort of the same value"""
    ck = ("stable-order", a.arr.get_id(), z3.simplify(a.nz()).get_id(), a.kind)
    hit = eng.ghost.get(ck)
    if hit is None:
        arr = z3.Const(fresh_name("order"), z3.ArraySort(I, I))
        rank = z3.Function(fresh_name("rank"), I, I)
        _permutation_facts(eng, a, arr, rank, True)
        hit = eng.ghost[ck] = (arr, rank, a.arr)
    return hit[0], hit[1]


def sorting_permutation(eng, a, stable):
    """`order` (SArr int, length n) with a ghost inverse: a permutation of the positions that lists the keys in non-decreasing order.
    stable: the canonical stable permutation of this array value.  Not stable: some sorting permutation; the key SEQUENCE it produces is
    the sorted one whatever the algorithm (the sorted sequence of a multiset is unique), which is stated against the stable permutation --
    so for pairwise distinct keys every sort of the same value provably yields the same permutation."""
    if a.kind not in ("int", "real", "bool"):
        raise Unsupported("argsort element kind")
    used(eng, "argsort-of-1d-array: a permutation of the positions (ghost inverse) listing the keys in non-decreasing order; the sorted key "
         "sequence is unique; stable: equal keys keep their position order, otherwise the order among equal keys is left open")
    st, st_rank = stable_order(eng, a)
    if stable:
        out = SArr(st, a.n, "int", name="order", dtype=np.dtype("int64"))
        out.rank = st_rank
        return out
    out = SArr.fresh("int", a.n, name="order", dtype=np.dtype("int64"))
    rank = z3.Function(fresh_name("rank"), I, I)
    _permutation_facts(eng, a, out.arr, rank, False)
    k = z3.Int(fresh_name("sk"))
    eng.assume(z3.ForAll([k], z3.Implies(_rng(k, a.nz()), z3.Select(a.arr, z3.Select(out.arr, k)) == z3.Select(a.arr, z3.Select(st, k))),
                         patterns=[z3.Select(out.arr, k), z3.Select(st, k)]))
    out.rank = rank
    return out


def _fixed_cells(v):
    """the cells of a 1-D array of CONCRETE length whose contents are (partly) symbolic, else None"""
    if isinstance(v, NArr) and v.ndim == 1 and v.kind in ("int", "real", "bool") and any(isinstance(x, Sym) for x in v.items):
        return list(v.items), v.kind
    if _is_sarr(v) and isinstance(v.n, int) and not isinstance(v.n, bool) and v.kind in ("int", "real", "bool"):
        return [v.get(j) for j in range(v.n)], v.kind
    return None


def fixed_sorting_permutation(eng, cells, kind, stable):
    """argsort of n symbolic cells (n concrete): n fresh positions, pairwise different and in [0, n), along which the keys do not decrease;
    stable: equal keys in position order (that permutation is unique).  Quantifier-free: the same facts as the model for symbolic length."""
    n = len(cells)
    kk = "int" if kind == "bool" else kind
    keys = [to_z3(x, kk) for x in cells]
    ck = ("fixed-order", tuple(k.get_id() for k in keys), bool(stable))
    hit = eng.ghost.get(ck) if stable else None
    if hit is None:
        used(eng, "argsort-of-1d-array: a permutation of the positions (ghost inverse) listing the keys in non-decreasing order; the sorted key "
             "sequence is unique; stable: equal keys keep their position order, otherwise the order among equal keys is left open")
        o = [z3.Int(fresh_name(f"order{k}_")) for k in range(n)]

        def key_at(p):
            z = keys[-1]
            for j in range(n - 2, -1, -1):
                z = z3.If(p == j, keys[j], z)
            return z

        ko = [key_at(p) for p in o]
        facts = [z3.And(p >= 0, p < n) for p in o]
        if n > 1:
            facts.append(z3.Distinct(*o))
        for k in range(n - 1):  # adjacent pairs suffice (both orders are transitive)
            facts.append(z3.Or(ko[k] < ko[k + 1], z3.And(ko[k] == ko[k + 1], o[k] < o[k + 1])) if stable else ko[k] <= ko[k + 1])
        if facts:
            eng.assume(z3.And(*facts))
        hit = o
        if stable:
            eng.ghost[ck] = o
    return NArr((n,), [Sym(p, "int") for p in hit], "int", np.dtype("int64"))


def _np_argsort(eng, args, kwargs):
    fc = _fixed_cells(args[0]) if args else None
    if fc is not None and not eng.spec_mode:
        if len(args) > 1 and args[1] not in (-1, 0) or kwargs.get("axis", -1) not in (-1, 0) or kwargs.get("order") is not None or len(args) > 2:
            raise Unsupported("np.argsort options")
        return fixed_sorting_permutation(eng, fc[0], fc[1], _stable_requested(kwargs))
    a = _mat(eng, _as_sarr(args[0]) if args else None)
    if a is None:
        return _chain(np.argsort, "numpy.argsort")(eng, args, kwargs)
    if len(args) > 1 and args[1] not in (-1, 0) or kwargs.get("axis", -1) not in (-1, 0) or kwargs.get("order") is not None or len(args) > 2:
        raise Unsupported("np.argsort options")
    return sorting_permutation(eng, a, _stable_requested(kwargs))


def _m_argsort(eng, recv, args, kwargs):
    return _np_argsort(eng, [recv] + list(args), kwargs)


def _np_sort(eng, args, kwargs):
    a = _mat(eng, _as_sarr(args[0]) if args else None)
    if a is None:
        return _chain(np.sort, "numpy.sort")(eng, args, kwargs)
    if len(args) > 1 or kwargs.get("axis", -1) not in (-1, 0) or kwargs.get("order") is not None:
        raise Unsupported("np.sort options")
    _stable_requested(kwargs)
    used(eng, "np.sort-of-1d-array: fresh array, the keys read through the stable sorting permutation (the sorted sequence does not depend on the algorithm)")
    st, _ = stable_order(eng, a)
    out = SArr.fresh(a.kind, a.n, name="sorted", dtype=a.dtype)
    k = z3.Int(fresh_name("sk"))
    eng.assume(z3.ForAll([k], z3.Implies(_rng(k, a.nz()), z3.Select(out.arr, k) == z3.Select(a.arr, z3.Select(st, k))), patterns=[z3.Select(out.arr, k), z3.Select(st, k)]))
    return out


# ------------------------------------------------------------------ searchsorted
def _np_searchsorted(eng, args, kwargs):
    names = ["a", "v", "side", "sorter"]
    b = dict(zip(names, args))
    for kw, val in kwargs.items():
        if kw not in names or kw in b:
            raise Unsupported(f"np.searchsorted argument {kw}")
        b[kw] = val
    a = _mat(eng, _as_sarr(b.get("a")))
    if a is None or "v" not in b:
        return _chain(np.searchsorted, "numpy.searchsorted")(eng, args, kwargs)
    side, sorter, v = b.get("side", "left"), b.get("sorter"), b["v"]
    if side not in ("left", "right"):
        raise Unsupported("np.searchsorted side")
    if a.kind not in ("int", "real"):
        raise Unsupported("np.searchsorted on a boolean array")
    n = a.nz()
    i, i2, j = z3.Int(fresh_name("si")), z3.Int(fresh_name("si2")), z3.Int(fresh_name("sj"))
    if sorter is not None:
        so = _mat(eng, _as_sarr(sorter))
        if so is None or so.kind != "int":
            raise Unsupported("np.searchsorted sorter")
        from .npmodels import _len_eq

        _len_eq(eng, a, so, "searchsorted sorter")
        if not eng.spec_mode:
            eng.prove(eng.site("sorter-entries-are-positions"), z3.ForAll([i], z3.Implies(_rng(i, n), _rng(z3.Select(so.arr, i), n))), "safety",
                      "np.searchsorted raises ValueError for a sorter entry out of range")
        keyk = lambda t: z3.Select(a.arr, z3.Select(so.arr, t))
    else:
        keyk = lambda t: z3.Select(a.arr, t)
    vs = _as_sarr(v)
    vk = vs.kind if vs is not None else kind_of(v)
    if vk not in ("int", "real"):
        raise Unsupported("np.searchsorted needle")
    ck = "real" if "real" in (a.kind, vk) else "int"
    key = lambda t: to_z3(Sym(keyk(t), a.kind), ck)
    used(eng, f"searchsorted: 0 <= r <= n; for NON-DECREASING searched keys r is the {side} insertion point (i < r <=> key(i) "
         + ("<" if side == "left" else "<=") + " v); for unsorted keys r is left open (numpy documents nothing)")
    is_sorted = z3.ForAll([i, i2], z3.Implies(z3.And(0 <= i, i < i2, i2 < n), key(i) <= key(i2)))
    if _entailed(eng, is_sorted):
        # the path condition already says that the searched keys are sorted (e.g. the sorter is an argsort of `a`): the premise of
        # the insertion-point facts is discharged here and now, they enter the path condition unconditionally (sound: pc |= premise)
        is_sorted = z3.BoolVal(True)
    below = (lambda t, x: key(t) < x) if side == "left" else (lambda t, x: key(t) <= x)
    if vs is None:
        r = fresh("int", "ins")
        x = to_z3(v, ck)
        eng.assume(z3.And(r.z >= 0, r.z <= n))
        eng.assume(z3.Implies(is_sorted, z3.ForAll([i], z3.Implies(_rng(i, n), (i < r.z) == below(i, x)))))
        return r
    out = SArr.fresh("int", vs.n, name="ins", dtype=np.dtype("int64"))
    m = vs.nz()
    rj = z3.Select(out.arr, j)
    xj = to_z3(vs.get(j), ck)
    eng.assume(z3.ForAll([j], z3.Implies(_rng(j, m), z3.And(rj >= 0, rj <= n)), patterns=[rj]))
    eng.assume(z3.Implies(is_sorted, z3.ForAll([j, i], z3.Implies(z3.And(_rng(j, m), _rng(i, n)), (i < rj) == below(i, xj)))))
    # a CONSEQUENCE of the two facts above, stated for the solver's benefit (stable triggers): a needle that occurs among sorted keys
    # is found -- left: at its first occurrence; right: just behind its last one
    if side == "left":
        found = z3.And(rj <= i, rj < n, key(rj) == xj)
    else:
        found = z3.And(rj > i, key(rj - 1) == xj)
    eng.assume(z3.Implies(is_sorted, z3.ForAll([j, i], z3.Implies(z3.And(_rng(j, m), _rng(i, n), key(i) == xj), found), patterns=[z3.MultiPattern(rj, keyk(i))])))
    return out


def _entailed(eng, fact, timeout_ms=2000):
    """True only if the current path condition PROVABLY implies `fact` (quick solver call; `unknown` / timeout count as no)"""
    if eng.spec_mode:
        return False
    s = z3.Solver()
    s.set("timeout", timeout_ms)
    for h in eng.pc:
        s.add(h)
    s.add(z3.Not(fact))
    return s.check() == z3.unsat


def _m_searchsorted(eng, recv, args, kwargs):
    return _np_searchsorted(eng, [recv] + list(args), kwargs)


# ------------------------------------------------------------------ the models object of a carrier (contract option `models=ext_C05.MODELS`)
def _chain(fn, name):
    from . import models

    prev = models.lookup_model(fn)
    if prev is not None:
        return prev

    def unmodelled(eng, args, kwargs):
        raise Unsupported(f"call to unmodelled {name} on these operands")

    return unmodelled


def _np_reduce(fn, name, body):
    def model(eng, args, kwargs):
        a = _as_sarr(args[0]) if args else None
        if a is None:
            return _chain(fn, name)(eng, args, kwargs)
        _reduction_args(args, kwargs, name)
        return body(eng, a)

    return model


_MINE = {
    np.min: _np_reduce(np.min, "numpy.min", lambda e, a: _minmax(e, a, True)),
    np.max: _np_reduce(np.max, "numpy.max", lambda e, a: _minmax(e, a, False)),
    np.amin: _np_reduce(np.amin, "numpy.amin", lambda e, a: _minmax(e, a, True)),
    np.amax: _np_reduce(np.amax, "numpy.amax", lambda e, a: _minmax(e, a, False)),
    np.all: _np_reduce(np.all, "numpy.all", lambda e, a: _all_any(e, a, True)),
    np.any: _np_reduce(np.any, "numpy.any", lambda e, a: _all_any(e, a, False)),
    np.argsort: _np_argsort, np.sort: _np_sort, np.searchsorted: _np_searchsorted,
}


def _late(name):
    """models of pyvc/ext_C05_frame.py (whole-table frame operations, dtype-faithful casts), imported on first use"""
    def model(eng, args, kwargs):
        from . import ext_C05_frame

        return getattr(ext_C05_frame, name)(eng, args, kwargs)

    return model


_MINE[np.take] = _late("np_take")


# ------------------------------------------------------------------ lexsort / empty_like / scatter a[idx] = values / pd.Series(array)
def _np_lexsort(eng, args, kwargs):
    """np.lexsort(keys): the STABLE permutation that sorts by the last key, then the one before it, ...  One key: the canonical stable
    permutation of that array (shared with argsort(kind='stable')); several keys: a permutation (ghost inverse) along which the key tuples
    (last key first) are lexicographically non-decreasing, equal tuples in position order"""
    if len(args) != 1 or {k for k, v in kwargs.items() if not (k == "axis" and v in (-1, 0))}:
        raise Unsupported("np.lexsort options")
    ks = args[0]
    keys = list(ks) if isinstance(ks, (tuple, list)) else list(ks.items) if isinstance(ks, PList) and ks.items is not None else None
    if not keys:
        raise Unsupported("np.lexsort keys")
    keys = [_mat(eng, _as_sarr(k)) for k in keys]
    if any(k is None or k.kind not in ("int", "real", "bool") for k in keys):
        return _chain(np.lexsort, "numpy.lexsort")(eng, args, kwargs)
    from .npmodels import _len_eq

    for k in keys[1:]:
        _len_eq(eng, keys[0], k, "np.lexsort keys")
    if len(keys) == 1:
        return sorting_permutation(eng, keys[0], True)
    used(eng, "lexsort-of-1d-keys: a permutation of the positions (ghost inverse); key tuples (last key first) lexicographically non-decreasing, ties in position order")
    a = keys[0]
    n = a.nz()
    out = SArr.fresh("int", a.n, name="lexorder", dtype=np.dtype("int64"))
    rank = z3.Function(fresh_name("rank"), I, I)
    k, k2, p = z3.Int(fresh_name("sk")), z3.Int(fresh_name("sk2")), z3.Int(fresh_name("sp"))
    o = lambda t: z3.Select(out.arr, t)
    eng.assume(z3.ForAll([k], z3.Implies(_rng(k, n), z3.And(_rng(o(k), n), rank(o(k)) == k)), patterns=[o(k)]))
    eng.assume(z3.ForAll([p], z3.Implies(_rng(p, n), z3.And(_rng(rank(p), n), o(rank(p)) == p)), patterns=[rank(p)]))
    less = o(k) < o(k2)
    for key in keys:  # the last key is the most significant one
        kk = "int" if key.kind == "bool" else key.kind
        x, y = to_z3(key.get(o(k)), kk), to_z3(key.get(o(k2)), kk)
        less = z3.Or(x < y, z3.And(x == y, less))
    eng.assume(z3.ForAll([k, k2], z3.Implies(z3.And(0 <= k, k < k2, k2 < n), less), patterns=[z3.MultiPattern(o(k), o(k2))]))
    out.rank = rank
    return out


def _np_empty_like(eng, args, kwargs):
    if args and isinstance(args[0], NArr) and len(args) == 1 and not {k for k in kwargs if k != "dtype"}:
        from .npmodels import kind_of_dtype

        src, dt = args[0], kwargs.get("dtype")
        kind = kind_of_dtype(dt) if dt is not None else src.kind
        used(eng, "np.empty_like(array): a fresh array of the same shape with ARBITRARY contents")
        return NArr(src.shape, [fresh(kind, "empty") for _ in src.items], kind, dt if dt is not None else src.dtype)
    a = _as_sarr(args[0]) if args else None
    if a is None or len(args) > 1 or {k for k in kwargs if k != "dtype"}:
        return _chain(np.empty_like, "numpy.empty_like")(eng, args, kwargs)
    from .npmodels import kind_of_dtype

    dt = kwargs.get("dtype")
    kind = kind_of_dtype(dt) if dt is not None else a.kind
    used(eng, "np.empty_like(1-D array): a fresh array of the same length with ARBITRARY contents")
    return SArr.fresh(kind, a.n, name="empty", dtype=dt if dt is not None else a.dtype)


def _forall(vs, body, patterns):
    """ForAll with triggers where z3 accepts them (a select on a lambda term is no pattern)"""
    try:
        return z3.ForAll(vs, body, patterns=patterns)
    except z3.Z3Exception:
        return z3.ForAll(vs, body)


def scatter_store(eng, base, idx, val):
    """a[idx] = values (idx an int index array, values an array of the same length): cell idx[j] receives values[j].  Positions must lie
    in [0, len(a)) (safety obligation).  For pairwise distinct positions the result is determined on the written cells; cells no position
    names keep their content (stated through a ghost witness per written cell); with repeated positions numpy leaves the winner
    unspecified: nothing is known about the array then."""
    from .models import check_frame
    from .npmodels import _len_eq

    check_frame(eng, base)
    _len_eq(eng, idx, val, "a[index array] = values")
    used(eng, "index-array store a[idx] = values: cell idx[j] receives values[j] (pairwise distinct positions; other cells keep their content; repeated positions: unspecified; pigeonhole: n distinct positions in [0, n) name every cell)")
    m, n = idx.nz(), base.nz()
    j, j2, i = z3.Int(fresh_name("sc_j")), z3.Int(fresh_name("sc_j2")), z3.Int(fresh_name("sc_i"))
    A = lambda t: z3.Select(idx.arr, t)
    if not eng.spec_mode:
        eng.prove(eng.site("index-in-bounds"), z3.ForAll([j], z3.Implies(_rng(j, m), _rng(A(j), n))), "safety", "index array store")
    old = base.arr
    new = z3.Const(fresh_name(base.name + "_sc"), old.sort())
    tag = fresh_name("sct")
    hit = z3.Const(tag + "_hit", z3.ArraySort(I, z3.BoolSort()))
    wit = z3.Function(tag + "_wit", I, I)
    distinct = z3.ForAll([j, j2], z3.Implies(z3.And(_rng(j, m), _rng(j2, m), j != j2), A(j) != A(j2)))
    vk = base.kind
    eng.assume(z3.Implies(distinct, z3.And(
        _forall([j], z3.Implies(_rng(j, m), z3.And(z3.Select(hit, A(j)), z3.Select(new, A(j)) == to_z3(val.get(j), vk))), [A(j)]),
        z3.ForAll([i], z3.Implies(z3.Select(hit, i), z3.And(_rng(wit(i), m), A(wit(i)) == i))),
        _forall([i], z3.Implies(z3.Not(z3.Select(hit, i)), z3.Select(new, i) == z3.Select(old, i)), [z3.Select(new, i)]))))
    # pigeonhole (assumed induction fact, part of this model): pairwise distinct positions, as many as the array has cells, name every cell
    eng.assume(z3.Implies(z3.And(distinct, m == n, z3.ForAll([j], z3.Implies(_rng(j, m), _rng(A(j), n)))),
                          _forall([i], z3.Implies(_rng(i, n), z3.Select(hit, i)), [z3.Select(hit, i), z3.Select(new, i)])))
    base.arr = new


def _pd_series(eng, args, kwargs):
    a = _as_sarr(args[0]) if args else None
    if a is None or len(args) > 1 or {k for k in kwargs if k not in ("name", "dtype")} or kwargs.get("dtype") is not None:
        raise Unsupported("pandas.Series(...) of these operands")
    from . import ext_C05_frame

    eng.assumptions.add("pandas-model(C05): pd.Series(1-D array) has the default RangeIndex and the array's values")
    return ext_C05_frame.Series5.of(SArr(a.arr, a.n, a.kind, name=a.name, dtype=a.dtype), None)


# ------------------------------------------------------------------ log2 / ceil / floor of a CONCRETE number (round counts of a table of fixed size)
def _concrete_math(fn, name, exact):
    """`int(np.log2(n))`, `np.ceil(np.log2(n))` ... with n the row count of a table of fixed size: plain arithmetic on a number.  log2 is
    evaluated in float64 as numpy does (exact for powers of two, strictly between the neighbouring integers otherwise, for arguments below
    2**49); symbolic operands go to the stock model, if there is one."""
    import math
    from fractions import Fraction

    def model(eng, args, kwargs):
        if len(args) == 1 and not kwargs and isinstance(args[0], (int, float, Fraction)) and not isinstance(args[0], bool):
            x = args[0]
            if name == "log2":
                if x <= 0:
                    raise Unsupported("log2 of a number that is not positive (numpy: -inf / nan with a warning)")
                if x >= 2 ** 49:
                    raise Unsupported("log2 of a number beyond 2**49 (float rounding may reach an integer)")
            used(eng, f"{name} of a concrete number, evaluated exactly as float64 does")
            return exact(math, Fraction, x)
        return _chain(fn, "numpy." + name)(eng, args, kwargs)

    return model


_MINE[np.log2] = _concrete_math(np.log2, "log2", lambda math, F, x: F(math.log2(float(x))))
_MINE[np.ceil] = _concrete_math(np.ceil, "ceil", lambda math, F, x: F(math.ceil(F(x))))
_MINE[np.floor] = _concrete_math(np.floor, "floor", lambda math, F, x: F(math.floor(F(x))))
try:
    import math as _math

    _MINE[_math.log2] = _concrete_math(_math.log2, "log2", lambda math, F, x: F(math.log2(float(x))))
    _MINE[_math.ceil] = _concrete_math(_math.ceil, "ceil", lambda math, F, x: math.ceil(F(x)))
    _MINE[_math.floor] = _concrete_math(_math.floor, "floor", lambda math, F, x: math.floor(F(x)))
except ImportError:  # pragma: no cover
    pass
_MINE[np.lexsort] = _np_lexsort
_MINE[np.empty_like] = _np_empty_like
try:
    import pandas as _pd

    _MINE[_pd.Series] = _pd_series
except ImportError:  # pragma: no cover
    pass
# functions for which a stock model (pyvc/npmodels.py), where one exists, takes precedence: this file only fills the gap
_STOCK_FIRST = {np.all, np.any}
_METHODS = {"min": _m_min, "max": _m_max, "argsort": _m_argsort, "searchsorted": _m_searchsorted}


class ModelsProxy:
    """`eng.models` replacement: pyvc.models plus the models of this file.  Nothing is registered in the process-wide tables, so no
    carrier of another property sees these models unless its contract asks for them."""

    def __getattr__(self, name):
        from . import models

        return getattr(models, name)

    def lookup_model(self, fn):
        from . import models

        try:
            m = _MINE.get(fn)
        except TypeError:
            m = None
        if m is not None and fn in _STOCK_FIRST:
            stock = models.lookup_model(fn)
            if stock is not None:
                return stock
        return m if m is not None else models.lookup_model(fn)

    def setitem(self, eng, base, idx, val):
        from . import models

        if _is_sarr(base) and not hasattr(base, "view_of") and isinstance(idx, SArr) and idx.kind == "int" and isinstance(val, SArr):
            return scatter_store(eng, base, idx, val)
        return models.setitem(eng, base, idx, val)

    def method_of(self, eng, v, name):
        from . import models
        from .values import NativeMethod

        if name in _METHODS and _is_sarr(v):
            return NativeMethod(_METHODS[name], v, name)
        if name == "argsort" and _fixed_cells(v) is not None:
            return NativeMethod(_m_argsort, v, name)
        return models.method_of(eng, v, name)


MODELS = ModelsProxy()
