"""Library models (ASSUMED contracts) needed by the C16 contracts: resampling and smoothing.

Registered through pyvc.models.EXTRA_MODELS (no edit of the shared model tables).  Every model that
overrides an existing one handles only the NEW argument forms (symbolic length / concrete-shape cases
that raised Unsupported before) and delegates everything else to the previous model.

Arithmetic is over the reals (float32/float64 rounding is out of reach, as everywhere in pyvc).
"""
from __future__ import annotations

import ast
import math
from fractions import Fraction

import numpy as np
import z3

from . import models, narr, npmodels
from .engine import ProgExc, Unsupported
from .npmodels import S2Arr, lam
from .values import NArr, PList, SArr, Sym, fresh, fresh_name, kind_of, to_z3, zint, frac


def used(eng, text):
    eng.assumptions.add("numpy-model:" + text)


def _prev(fn):
    m = models.EXTRA_MODELS.get(fn)
    if m is None:
        m = models.BUILTIN_MODELS.get(fn)
    if m is None:
        m = npmodels.lookup_model(fn)
    return m


def _is_real(v):
    return (isinstance(v, Sym) and v.kind == "real") or isinstance(v, (Fraction, float))


def _seq_items(v):
    if isinstance(v, PList):
        if v.items is None:
            raise Unsupported("symbolic list of arrays")
        return list(v.items)
    return list(v)


# ------------------------------------------------------------------ np.diff
def np_diff(eng, args, kwargs):
    """np.diff(a, axis=k) of a concrete-shape array: out[..., i, ...] = a[..., i+1, ...] - a[..., i, ...]."""
    a = args[0]
    if not isinstance(a, NArr):
        raise Unsupported("np.diff of a symbolic-length array")
    if kwargs.get("n", args[1] if len(args) > 1 else 1) != 1:
        raise Unsupported("np.diff with n != 1")
    axis = kwargs.get("axis", args[2] if len(args) > 2 else -1)
    used(eng, "np.diff: out[i] = a[i+1] - a[i] along the axis")
    ix = narr.idx_of(a)
    n = ix.shape[axis]
    hi = np.take(ix, range(1, n), axis=axis)
    lo = np.take(ix, range(0, max(n - 1, 0)), axis=axis)
    it = a.items
    out = [eng.binop(ast.Sub(), it[int(h)], it[int(l)]) for h, l in zip(hi.reshape(-1), lo.reshape(-1))]
    return NArr(hi.shape, out, a.kind)


# ---------------------------------------------------------------- np.cumsum
_prev_cumsum = _prev(np.cumsum)


def np_cumsum(eng, args, kwargs):
    a = args[0]
    if isinstance(a, NArr) and "axis" not in kwargs and len(args) == 1:
        used(eng, "np.cumsum: running sums (concrete shape)")
        acc, out = 0, []
        for x in a.items:
            acc = eng.binop(ast.Add(), acc, x)
            out.append(acc)
        return NArr((len(out),), out, a.kind)
    return _prev_cumsum(eng, args, kwargs)


# ---------------------------------------------------------------- np.insert
def np_insert(eng, args, kwargs):
    a, obj, val = args[0], args[1], args[2]
    if not (isinstance(a, NArr) and a.ndim == 1 and isinstance(obj, int) and kind_of(val) is not None):
        raise Unsupported("np.insert form")
    used(eng, "np.insert(a, i, v): a[:i] + [v] + a[i:]")
    n = len(a.items)
    if obj < -n or obj > n:
        raise ProgExc(IndexError, f"index {obj} is out of bounds for axis 0 with size {n}")
    if obj < 0:
        obj += n
    items = list(a.items)
    items.insert(obj, narr.cast(eng, val, a.kind))
    return NArr((n + 1,), items, a.kind)


# ----------------------------------------------------------- np.concatenate
_prev_concat = _prev(np.concatenate)


def np_concatenate(eng, args, kwargs):
    seq = _seq_items(args[0])
    if not any(isinstance(x, SArr) for x in seq):
        return _prev_concat(eng, args, kwargs)
    used(eng, "np.concatenate of 1-D arrays: pieces in order")
    pieces = []
    for x in seq:
        if kind_of(x) is not None:
            raise ProgExc(ValueError, "zero-dimensional arrays cannot be concatenated")
        if isinstance(x, SArr):
            pieces.append((x.nz(), x.kind, (lambda i, _x=x: _x.get(i).z)))
        else:
            p = narr._as_narr(eng, x)
            if p.ndim != 1:
                raise ProgExc(ValueError, "all the input arrays must have same number of dimensions")
            its = list(p.items)
            pieces.append((z3.IntVal(len(its)), p.kind, (lambda i, _its=its, _k=p.kind: models._ite_chain(_its, i, _k))))
    k = "real" if any(pk == "real" for _, pk, _ in pieces) else pieces[0][1]
    i = z3.Int(fresh_name("cc"))
    total = z3.IntVal(0)
    offs = []
    for n, _, _ in pieces:
        offs.append(total)
        total = total + n
    body = None
    for (n, pk, g), off in reversed(list(zip(pieces, offs))):
        v = g(i - off)
        if pk != k:
            v = to_z3(Sym(v, pk), k)
        body = v if body is None else z3.If(i < off + n, v, body)
    return SArr(z3.Lambda([i], body), z3.simplify(total), k, name="concat")


# ------------------------------------------------------------- np.linspace
def np_linspace(eng, args, kwargs):
    """np.linspace(a, b, m) (endpoint=True): out[k] = a + k * step with step = (b - a)/(m - 1); numpy sets
    out[m-1] = b explicitly, which over the reals is the same number: that identity is recorded as a fact."""
    if kwargs.get("endpoint", True) is not True or kwargs.get("retstep") or len(args) < 2:
        raise Unsupported("np.linspace form")
    a, b = args[0], args[1]
    m = kwargs.get("num", args[2] if len(args) > 2 else 50)
    if kind_of(a) is None or kind_of(b) is None or kind_of(m) not in ("int",):
        raise Unsupported("np.linspace arguments")
    used(eng, "np.linspace(a,b,m): length m; out[k] = a + k*(b-a)/(m-1); out[0] = a; out[m-1] = b (m >= 2)")
    if isinstance(m, int) and not isinstance(m, bool):
        if m < 0:
            raise ProgExc(ValueError, "Number of samples must be non-negative")
        if m <= 1:
            return NArr((m,), [narr.cast(eng, a, "real")] * m, "real")
        az, bz = to_z3(a, "real"), to_z3(b, "real")
        return NArr((m,), [eng.snum(az + z3.RealVal(k) * (bz - az) / z3.RealVal(m - 1), "real") for k in range(m - 1)] + [narr.cast(eng, b, "real")], "real")
    mz = to_z3(m, "int")
    if not eng.branch(eng.sbool(mz >= 0)):
        raise ProgExc(ValueError, "Number of samples must be non-negative")
    az, bz = to_z3(a, "real"), to_z3(b, "real")
    step = z3.simplify((bz - az) / z3.ToReal(mz - 1))
    f = lambda k: z3.simplify(az + z3.ToReal(k) * step)
    out = SArr(lam(f, "real"), z3.simplify(mz), "real", name="linspace")
    eng.assume(z3.Implies(mz >= 2, f(mz - 1) == bz))
    out.step = step
    return out


# --------------------------------------------------------------- np.interp
def pl_value(xp, fp, t):
    """The piecewise-linear function through the knots (xp[j], fp[j]) (z3 reals, xp non-decreasing) at t, as numpy
    evaluates it: fp[0] left of the knots, fp[-1] at and right of the last knot, otherwise on the segment j with
    j = max{j : xp[j] <= t}  (right-continuous at duplicate knots): fp[j] + slope_j * (t - xp[j])."""
    N = len(xp)
    seg = lambda j: fp[j] + ((fp[j + 1] - fp[j]) / (xp[j + 1] - xp[j])) * (t - xp[j])
    body = seg(0) if N > 1 else fp[0]
    for j in range(1, N - 1):
        body = z3.If(t >= xp[j], seg(j), body)
    body = z3.If(t >= xp[N - 1], fp[N - 1], body)
    return z3.If(t < xp[0], fp[0], body)


def np_interp(eng, args, kwargs):
    if len(args) != 3 or kwargs:
        raise Unsupported("np.interp with left/right/period")
    x, xp, fp = args
    xp = narr._as_narr(eng, xp) if not isinstance(xp, SArr) else xp
    fp = narr._as_narr(eng, fp) if not isinstance(fp, SArr) else fp
    if not (isinstance(xp, NArr) and isinstance(fp, NArr) and xp.ndim == 1 and fp.ndim == 1):
        raise Unsupported("np.interp with knots of symbolic length")
    if len(xp.items) != len(fp.items):
        raise ProgExc(ValueError, "fp and xp are not of the same length.")
    if not xp.items:
        raise ProgExc(ValueError, "array of sample points is empty")
    used(eng, "np.interp(x, xp, fp), xp non-decreasing: piecewise-linear through the knots, clamped outside, "
              "right-continuous at duplicate knots (segment j = max{j: xp[j] <= x})")
    xz = [to_z3(v, "real") for v in xp.items]
    fz = [to_z3(v, "real") for v in fp.items]
    if len(xz) > 1 and not eng.spec_mode:
        # the model is numpy's behaviour only for sorted knots: a proof obligation of every call
        eng.prove(eng.site("interp-knots-nondecreasing"), z3.And(*[xz[j] <= xz[j + 1] for j in range(len(xz) - 1)]), "safety")
    if isinstance(x, SArr):
        return SArr(lam(lambda i: pl_value(xz, fz, to_z3(x.get(i), "real")), "real"), x.n, "real", name="interp")
    if isinstance(x, NArr):
        return narr.emap(eng, lambda v: eng.snum(pl_value(xz, fz, to_z3(v, "real")), "real"), x, kind="real")
    if kind_of(x) is not None:
        return eng.snum(pl_value(xz, fz, to_z3(x, "real")), "real")
    raise Unsupported("np.interp sample argument")


# ------------------------------------------------------ np.ceil / np.floor / int
def _round_model(name, is_ceil):
    def model(eng, args, kwargs):
        v = args[0]
        if isinstance(v, NArr):
            return narr.emap(eng, lambda x: model(eng, [x], {}), v, kind="real")
        if not isinstance(v, Sym):
            if kind_of(v) is None:
                raise Unsupported(f"np.{name} argument")
            fv = frac(v)
            return Fraction(math.ceil(fv) if is_ceil else math.floor(fv))
        used(eng, f"np.{name}(x): the integer c with " + ("c-1 < x <= c" if is_ceil else "c <= x < c+1") + " (returned as a float)")
        xz = to_z3(v, "real")
        key = (name, xz.sexpr())
        if key not in eng.ghost:
            c = fresh("int", name)
            cr = z3.ToReal(c.z)
            eng.assume(z3.And(cr - 1 < xz, xz <= cr) if is_ceil else z3.And(cr <= xz, xz < cr + 1))
            eng.ghost[key] = c
        return Sym(z3.ToReal(eng.ghost[key].z), "real")

    return model


_prev_int = _prev(int)


def b_int(eng, args, kwargs):
    if len(args) == 1 and isinstance(args[0], Sym) and args[0].kind == "real":
        z = args[0].z
        if z3.is_app_of(z, z3.Z3_OP_TO_REAL):
            return _split_small(eng, Sym(z.arg(0), "int"))
        eng.assumptions.add("int(x) of a real: truncation toward zero")
        key = ("trunc", z.sexpr())
        if key not in eng.ghost:
            t = fresh("int", "trunc")
            tr = z3.ToReal(t.z)
            eng.assume(z3.If(z >= 0, z3.And(tr <= z, z < tr + 1), z3.And(tr - 1 < z, z <= tr)))
            eng.ghost[key] = t
        return _split_small(eng, eng.ghost[key])
    return _prev_int(eng, args, kwargs)


SMALL_COUNT_CAP = 8


def _split_small(eng, v):
    """Contract option `split_small_counts`: an int(...) of a real whose value the quantifier-free path condition confines to
    0..SMALL_COUNT_CAP is case-split (the path forks on the value; sound: a case distinction on a value known to lie in that range),
    so that array sizes derived from it are concrete.  Without the option, or without such a bound, the symbolic int is returned."""
    from .engine import _has_quant

    c = getattr(eng, "cur_contract", None)
    if c is None or not c.options.get("split_small_counts") or eng.spec_mode or not isinstance(v, Sym):
        return v
    qf, stack = [], list(eng.pc)
    while stack:
        h = stack.pop()
        if z3.is_and(h):
            stack.extend(h.children())
        elif not _has_quant(h):
            qf.append(h)
    sol = z3.Solver()
    sol.set("timeout", 3000)
    sol.add(*qf)
    sol.add(z3.Or(v.z < 0, v.z > SMALL_COUNT_CAP))
    if sol.check() != z3.unsat:
        return v
    for k in range(SMALL_COUNT_CAP):
        if eng.branch(eng.sbool(v.z == k)):
            return k
    return SMALL_COUNT_CAP



# ---------------------------------------------------------------- np.unique
def np_unique(eng, args, kwargs):
    """np.unique(a, return_index, return_inverse, return_counts) of a concrete-shape array with symbolic contents (flattened):
    the sorted distinct values; index[k] = FIRST position of value k in a; a == unique[inverse]; counts.  The order of the
    entries is decided by forking on the comparisons (insertion from the right end: an ascending input costs one fork per
    entry, `equal to the previous one or larger`)."""
    a = args[0]
    if isinstance(a, (PList, list, tuple)):
        a = narr._as_narr(eng, a)
    if not isinstance(a, NArr) or kwargs.get("axis") is not None or len(args) > 4:
        raise Unsupported("np.unique on an array of symbolic length / along an axis")
    flags = [kwargs.get(k, args[i + 1] if len(args) > i + 1 else False) for i, k in enumerate(("return_index", "return_inverse", "return_counts"))]
    if any(not isinstance(f, bool) for f in flags) or (set(kwargs) - {"return_index", "return_inverse", "return_counts", "axis", "equal_nan"}):
        raise Unsupported("np.unique form")
    used(eng, "np.unique: sorted distinct values; return_index = first occurrence; a == unique[inverse]; counts")
    uniq = []  # [value, first position, [positions]]
    for j, v in enumerate(a.items):
        p = len(uniq)
        while True:
            if p == 0:
                uniq.insert(0, [v, j, [j]])
                break
            u = uniq[p - 1]
            if eng.branch(eng.compare(ast.Eq(), v, u[0])):
                u[2].append(j)
                break
            if eng.branch(eng.compare(ast.Gt(), v, u[0])):
                uniq.insert(p, [v, j, [j]])
                break
            p -= 1
    m = len(uniq)
    out = [NArr((m,), [u[0] for u in uniq], a.kind)]
    if flags[0]:
        out.append(NArr((m,), [u[1] for u in uniq], "int"))
    if flags[1]:
        inv = [0] * len(a.items)
        for k, u in enumerate(uniq):
            for j in u[2]:
                inv[j] = k
        out.append(NArr((len(inv),), inv, "int"))
    if flags[2]:
        out.append(NArr((m,), [len(u[2]) for u in uniq], "int"))
    return out[0] if len(out) == 1 else tuple(out)


# ------------------------------------------------- np.round / np.around / round
def _round_half_even(eng, v, d):
    """the multiple of 10**-d nearest to v, ties to the even multiple (over the reals: what np.round / round compute up to
    float rounding of the scaling)"""
    if not isinstance(d, int):
        raise Unsupported("round with a symbolic number of decimals")
    scale = Fraction(10) ** d
    if not isinstance(v, Sym):
        if kind_of(v) is None:
            raise Unsupported("round argument")
        return Fraction(round(frac(v) * scale)) / scale
    used(eng, "np.round/np.around/round(x, d): k / 10**d with k the integer nearest to x * 10**d, ties to the even k (reals; float rounding of the scaling ignored)")
    xz = to_z3(v, "real") * z3.RealVal(str(scale))
    key = ("round", xz.sexpr())
    if key not in eng.ghost:
        k = fresh("int", "round")
        kr = z3.ToReal(k.z)
        half = z3.RealVal("1/2")
        eng.assume(z3.And(kr - half <= xz, xz <= kr + half, z3.Implies(z3.Or(xz == kr - half, xz == kr + half), k.z % 2 == 0)))
        eng.ghost[key] = k
    return eng.ghost[key], scale


def np_round(eng, args, kwargs):
    v = args[0]
    d = kwargs.get("decimals", args[1] if len(args) > 1 else 0)
    if kwargs.get("out") is not None or len(args) > 2:
        raise Unsupported("np.round with out=")
    if isinstance(v, NArr):
        return narr.emap(eng, lambda x: np_round(eng, [x, d], {}), v, kind=v.kind)
    if isinstance(v, SArr):
        raise Unsupported("np.round of a symbolic-length array")
    if isinstance(v, int) or (isinstance(v, Sym) and v.kind == "int"):
        if isinstance(d, int) and d >= 0:
            return v
        raise Unsupported("np.round of an int to negative decimals")
    r = _round_half_even(eng, v, d)
    if isinstance(r, tuple):
        k, scale = r
        return eng.snum(z3.ToReal(k.z) / z3.RealVal(str(scale)), "real")
    return r


_prev_round = _prev(round)


def b_round(eng, args, kwargs):
    v = args[0]
    d = kwargs.get("ndigits", args[1] if len(args) > 1 else None)
    if not ((isinstance(v, Sym) and v.kind == "real") or isinstance(v, (Fraction, float))):
        if _prev_round is not None:
            return _prev_round(eng, args, kwargs)
        if isinstance(v, int) and (d is None or (isinstance(d, int) and d >= 0)):
            return v
        raise Unsupported("round argument")
    r = _round_half_even(eng, v, 0 if d is None else d)
    if isinstance(r, tuple):
        k, scale = r
        return k if d is None else eng.snum(z3.ToReal(k.z) / z3.RealVal(str(scale)), "real")
    return int(r) if d is None else r


# ---------------------------------------------------------------- np.arange
_prev_arange = _prev(np.arange)


def np_arange(eng, args, kwargs):
    if len(args) == 3 and not kwargs and any(_is_real(a) for a in args):
        lo, hi, st = (to_z3(a, "real") for a in args)
        used(eng, "np.arange(a, b, s) over the reals, s > 0: length max(0, ceil((b-a)/s)), out[k] = a + k*s")
        if not eng.spec_mode:
            eng.prove(eng.site("arange-step-positive"), st > 0, "safety")
        n = fresh("int", "arange_len")
        nr = z3.ToReal(n.z)
        eng.assume(z3.If(hi > lo, z3.And(n.z >= 1, (nr - 1) * st < hi - lo, hi - lo <= nr * st), n.z == 0))
        return SArr(lam(lambda i: lo + z3.ToReal(i) * st, "real"), n.z, "real", name="arange")
    return _prev_arange(eng, args, kwargs)


# ------------------------------------------------------- np.zeros / np.ones
class S2ArrW(S2Arr):
    """(n x k) array, n symbolic, that also supports the column-block stores  a[:, lo:hi] = M  and  a[:, j] = v."""

    def __pyvc_snapshot__(self, memo):
        c = S2ArrW(self.cols, self.n, self.kind, self.transposed)
        c.uid = self.uid
        return c

    def __pyvc_setitem__(self, eng, idx, val):
        models.check_frame(eng, self)
        if self.transposed or not (isinstance(idx, tuple) and len(idx) == 2 and idx[0] == slice(None)):
            raise Unsupported("store form on a symbolic 2-D array")
        cs = idx[1]
        if isinstance(cs, int):
            if not -self.k <= cs < self.k:
                raise ProgExc(IndexError, "column index out of bounds")
            if isinstance(val, SArr):
                self._rows_match(eng, val.nz())
                col = val.arr if val.kind == self.kind else lam(lambda i: to_z3(val.get(i), self.kind), self.kind)
            elif kind_of(val) is not None:
                col = z3.K(z3.IntSort(), to_z3(val, self.kind))
            else:
                raise Unsupported("column store value")
            self.cols[cs] = col
            return
        if isinstance(cs, slice) and all(x is None or isinstance(x, int) for x in (cs.start, cs.stop, cs.step)):
            js = list(range(*cs.indices(self.k)))
            if not isinstance(val, S2Arr):
                raise Unsupported("column-block store value")
            if val.transposed:
                # value of shape (k', n) stored into a block of shape (n, len(js)): numpy broadcasting would need
                # k' == n and n == len(js); refuse (shape error) unless the contract proves otherwise
                raise ProgExc(ValueError, "could not broadcast input array (transposed block)")
            if val.k != len(js):
                raise ProgExc(ValueError, f"could not broadcast input array from shape (n,{val.k}) into shape (n,{len(js)})")
            self._rows_match(eng, val.nz())
            for j, c in zip(js, val.cols):
                self.cols[j] = c
            return
        raise Unsupported("store form on a symbolic 2-D array")

    def _rows_match(self, eng, n2):
        g = z3.simplify(self.nz() == n2)
        if not z3.is_true(g) and not eng.spec_mode:
            # numpy raises ValueError unless the row counts agree (length-1 broadcasting is not modelled: conservative)
            eng.prove(eng.site("shape-match"), g, "shape", "store into a symbolic 2-D array")


def _sym_shape(sh):
    if isinstance(sh, Sym):
        return (sh,)
    if isinstance(sh, PList) and sh.items is not None:
        sh = tuple(sh.items)
    if isinstance(sh, tuple) and any(isinstance(x, Sym) for x in sh):
        return sh
    return None


def _filled(value, prev):
    def model(eng, args, kwargs):
        sh = _sym_shape(args[0]) if args else None
        if sh is None:
            return prev(eng, args, kwargs)
        dt = kwargs.get("dtype", args[1] if len(args) > 1 else None)
        k = npmodels.kind_of_dtype(dt) if dt is not None else "real"
        used(eng, "np.zeros/np.ones/np.full with a symbolic first dimension")
        n = sh[0]
        if not (isinstance(n, Sym) and n.kind == "int") or any(not isinstance(x, int) for x in sh[1:]) or len(sh) > 2:
            raise Unsupported("symbolic shape form")
        if not eng.branch(eng.sbool(n.z >= 0)):
            raise ProgExc(ValueError, "negative dimensions are not allowed")
        const = z3.K(z3.IntSort(), to_z3(value, k))
        if len(sh) == 1:
            return SArr(const, n.z, k, name="filled", dtype=dt)
        return S2ArrW([const] * sh[1], n.z, k)

    return model


_prev_full = _prev(np.full)


def np_full(eng, args, kwargs):
    sh = _sym_shape(args[0]) if args else None
    if sh is None or len(sh) != 1:
        return _prev_full(eng, args, kwargs)
    fv = kwargs.get("fill_value", args[1] if len(args) > 1 else None)
    dt = kwargs.get("dtype", args[2] if len(args) > 2 else None)
    k = npmodels.kind_of_dtype(dt) if dt is not None else kind_of(fv)
    used(eng, "np.zeros/np.ones/np.full with a symbolic first dimension")
    n = sh[0]
    if not eng.branch(eng.sbool(n.z >= 0)):
        raise ProgExc(ValueError, "negative dimensions are not allowed")
    return SArr(z3.K(z3.IntSort(), to_z3(narr.cast(eng, fv, k), k)), n.z, k, name="full", dtype=dt)


def _patch_s2arr():
    prev = S2Arr.__pyvc_getattr__
    if getattr(prev, "_c16", False):
        return

    def __pyvc_getattr__(self, eng, name):
        if name == "ndim":
            return 2
        return prev(self, eng, name)

    __pyvc_getattr__._c16 = True
    S2Arr.__pyvc_getattr__ = __pyvc_getattr__
    prev_get = S2Arr.__pyvc_getitem__

    def __pyvc_getitem__(self, eng, idx):
        # a[:, j]: the column (the shared implementation tests the (row, j) form first and trips over the slice)
        if not self.transposed and isinstance(idx, tuple) and len(idx) == 2 and isinstance(idx[0], slice) and idx[0] == slice(None) and isinstance(idx[1], int):
            if not -self.k <= idx[1] < self.k:
                raise ProgExc(IndexError, "column index out of bounds")
            return SArr(self.cols[idx[1]], self.n, self.kind, name="col")
        return prev_get(self, eng, idx)

    S2Arr.__pyvc_getitem__ = __pyvc_getitem__


# ----------------------------------------------------------------- np.array
_prev_array = _prev(np.array)


def np_array(eng, args, kwargs):
    src = args[0] if args else None
    if isinstance(src, PList) and src.items and all(isinstance(x, SArr) for x in src.items):
        used(eng, "np.array([1-D arrays of one length]) = np.stack(axis=0)")
        return npmodels.stack_sarr(eng, list(src.items), 0)
    return _prev_array(eng, args, kwargs)


# --------------------------------------------------- scipy.signal.convolve
def sig_convolve(eng, args, kwargs):
    """ASSUMED contract of scipy.signal.convolve(in1, in2, mode='same') on 1-D arrays: a NEW array with exactly
    len(in1) entries; the values are left unconstrained."""
    in1, in2 = args[0], args[1]
    mode = kwargs.get("mode", args[2] if len(args) > 2 else "full")
    if mode != "same":
        raise Unsupported("signal.convolve mode other than 'same'")
    for a in (in1, in2):
        if not (isinstance(a, SArr) or (isinstance(a, NArr) and a.ndim == 1)):
            raise Unsupported("signal.convolve operand")
    eng.assumptions.add("scipy-model:signal.convolve(in1, in2, mode='same') returns a new 1-D array of len(in1); values unconstrained")
    ones = _all_ones(in1) and _all_ones(in2)
    if ones:
        # the number of overlapping taps: at least one at every output position (cross-checked in tools/xcheck_ext_C16.py)
        eng.assumptions.add("scipy-model:signal.convolve(ones(n), ones(w), mode='same') has every entry >= 1")
    if isinstance(in1, NArr):
        out = NArr(in1.shape, [fresh("real", "conv") for _ in in1.items], "real")
        if ones:
            for x in out.items:
                eng.assume(x.z >= 1)
        return out
    out = SArr.fresh("real", in1.n, name="conv")
    if ones:
        j = z3.Int(fresh_name("j"))
        eng.assume(z3.ForAll([j], z3.Implies(z3.And(j >= 0, j < out.nz()), out.get(j).z >= 1)))
    return out


def _all_ones(a):
    if isinstance(a, NArr):
        return all((not isinstance(x, Sym)) and kind_of(x) is not None and frac(x) == 1 for x in a.items)
    if isinstance(a, SArr) and getattr(a, "view_of", None) is None:
        z = z3.simplify(a.arr)
        return z3.is_K(z) and z3.is_rational_value(z.arg(0)) and z.arg(0).as_fraction() == 1
    return False


# ------------------------------------ a[lo:hi] = v on a symbolic-length array
_prev_setitem = npmodels.setitem


def setitem(eng, base, idx, val):
    if isinstance(base, SArr) and not hasattr(base, "__pyvc_setitem__") and isinstance(idx, slice) and getattr(base, "view_of", None) is None:
        if idx.step not in (None, 1):
            raise Unsupported("strided slice store")
        models.check_frame(eng, base)
        used(eng, "slice store a[lo:hi] = v writes exactly positions lo..hi-1 (python slice clamping)")
        view = npmodels.slice_view(eng, base, idx)
        lo, ln = view.view_of[1], view.nz()
        if isinstance(val, SArr):
            g = z3.simplify(val.nz() == ln)
            if not z3.is_true(g) and not eng.spec_mode:
                eng.prove(eng.site("shape-match"), g, "shape", "slice store")
            if base.kind == "int" and val.kind == "real":
                raise Unsupported("store of reals into an int array")
            src = lambda i: to_z3(val.get(i - lo), base.kind)
        elif kind_of(val) is not None:
            vz = to_z3(val, base.kind)
            src = lambda i: vz
        else:
            raise Unsupported("slice store value")
        old = base.arr
        base.arr = lam(lambda i: z3.If(z3.And(i >= lo, i < lo + ln), src(i), z3.Select(old, i)), base.kind)
        return
    return _prev_setitem(eng, base, idx, val)


# ------------------------------------------- np.reshape / argmin / unravel_index
def np_reshape(eng, args, kwargs):
    a = narr._as_narr(eng, args[0]) if not isinstance(args[0], NArr) else args[0]
    shp = kwargs.get("newshape", kwargs.get("shape", args[1] if len(args) > 1 else None))
    if isinstance(shp, PList):
        shp = tuple(shp.items)
    used(eng, "np.reshape: row-major re-indexing")
    try:
        ix = narr.idx_of(a).reshape(shp)
    except (ValueError, TypeError) as e:
        raise ProgExc(ValueError, str(e))
    return narr.from_index(a.items, ix, a.kind, a.dtype)


def _is_inf(v):
    return isinstance(v, float) and math.isinf(v)


def np_argmin(eng, args, kwargs):
    """np.argmin of a concrete-shape array (flattened): the FIRST position of the minimum; decided by forking on
    the comparisons.  +inf entries (kept as the float itself) are never smaller than anything."""
    a = args[0]
    if not isinstance(a, NArr) or kwargs or len(args) != 1:
        raise Unsupported("np.argmin form")
    used(eng, "np.argmin: first position of the minimum of the flattened array")
    items = a.items
    if not items:
        raise ProgExc(ValueError, "attempt to get argmin of an empty sequence")
    cand = [j for j, v in enumerate(items) if not (_is_inf(v) and v > 0)]
    if not cand:
        return 0
    # one path per possible answer (not one per sequence of running minima): position j is the answer iff its value is smaller
    # than every earlier candidate and not larger than every later one
    for n_, j in enumerate(cand):
        if n_ == len(cand) - 1:
            return j
        conds = [eng.compare(ast.Lt(), items[j], items[i]) for i in cand[:n_]] + [eng.compare(ast.LtE(), items[j], items[i]) for i in cand[n_ + 1:]]
        if any(c is False for c in conds):
            continue
        zs = [to_z3(c, "bool") for c in conds if c is not True]
        if not zs or eng.branch(eng.sbool(z3.And(*zs))):
            return j
    return cand[-1]


def np_unravel_index(eng, args, kwargs):
    i, shp = args[0], args[1]
    if isinstance(i, Sym) or any(isinstance(x, Sym) for x in shp):
        raise Unsupported("np.unravel_index on symbolic data")
    try:
        return tuple(int(x) for x in np.unravel_index(int(i), tuple(int(x) for x in shp)))
    except ValueError as e:
        raise ProgExc(ValueError, str(e))


_prev_cast = narr.cast


def cast(eng, x, kind, *more, **kw):
    # +-inf has no real value: it is kept as the float itself (only np.argmin above understands it; any arithmetic on
    # it raises inside the engine, i.e. a machinery error, never a wrong proof)
    if _is_inf(x) and kind == "real":
        return x
    return _prev_cast(eng, x, kind, *more, **kw)  # narr.cast also takes the target / source dtypes (dtype-faithful casts)


# ----------------------------------------------- obj.__getattribute__(name)
def _patch_getattr():
    from .interp import Interp
    from .values import NativeMethod, Obj

    prev = Interp.getattr_
    if getattr(prev, "_c16", False):
        return

    def getattr_(self, v, name):
        if name == "__getattribute__" and isinstance(v, Obj) and name not in v.fields:
            return NativeMethod(lambda eng, recv, a, k: eng.getattr_(recv, a[0]), v, name)
        return prev(self, v, name)

    getattr_._c16 = True
    Interp.getattr_ = getattr_


# ------------------------------------- hand-written interpolation: searchsorted / clip / gather / elementwise division
_prev_searchsorted = _prev(np.searchsorted)


def _sorted_obligation(eng, az):
    if len(az) > 1 and not eng.spec_mode:
        g = z3.simplify(z3.And(*[az[j] <= az[j + 1] for j in range(len(az) - 1)]))
        if not z3.is_true(g):
            eng.prove(eng.site("searchsorted-on-an-ascending-array"), g, "safety")


def np_searchsorted(eng, args, kwargs):
    """np.searchsorted(a, v, side) for a 1-D `a` of CONCRETE length (symbolic contents) and needles v of any supported form (scalar,
    concrete-shape array, 1-D array of symbolic length): the insertion point of every needle.  numpy requires `a` ascending (an
    obligation of the call); for an ascending `a` the left insertion point is #{j: a[j] < v} and the right one #{j: a[j] <= v}.
    Every other operand form goes to the searchsorted models of pyvc/ext_tables.py / pyvc/ext_C05.py (symbolic-length `a`)."""
    b = dict(zip(["a", "v", "side", "sorter"], args))
    b.update(kwargs)
    a, v, side = b.get("a"), b.get("v"), b.get("side", "left")
    if isinstance(a, PList) and a.items is not None:
        a = narr._as_narr(eng, a)
    if not (isinstance(a, NArr) and a.ndim == 1 and a.kind in ("int", "real") and b.get("sorter") is None and side in ("left", "right")
            and set(b) <= {"a", "v", "side", "sorter"}):
        if _prev_searchsorted is not None:
            return _prev_searchsorted(eng, args, kwargs)
        from . import ext_tables

        return ext_tables._np_searchsorted(eng, args, kwargs)
    used(eng, "np.searchsorted(a, v, side) on an ascending 1-D array of concrete length: left = #{j: a[j] < v}, right = #{j: a[j] <= v}, "
              "one insertion point per needle (ascending order of `a` is an obligation of the call)")
    az = [to_z3(x, "real") for x in a.items]
    _sorted_obligation(eng, az)
    below = (lambda x, t: x < t) if side == "left" else (lambda x, t: x <= t)

    def count(t):
        # ascending a: the insertion point is the first j with not below(a[j], t), i.e. the number of entries below
        out = z3.IntVal(len(az))
        for j in range(len(az) - 1, -1, -1):
            out = z3.If(below(az[j], t), out, z3.IntVal(j))
        return out

    if isinstance(v, SArr) and v.kind in ("int", "real"):
        out = SArr(lam(lambda i: count(to_z3(v.get(i), "real")), "int"), v.n, "int", name="searchsorted")
        out.dtype = np.dtype("int64")
        return out
    if isinstance(v, (PList, list, tuple)):
        v = narr._as_narr(eng, v)
    if isinstance(v, NArr) and v.kind in ("int", "real"):
        return NArr(v.shape, [eng.snum(z3.simplify(count(to_z3(x, "real"))), "int") for x in v.items], "int", np.dtype("int64"))
    if kind_of(v) in ("int", "real"):
        return eng.snum(z3.simplify(count(to_z3(v, "real"))), "int")
    raise Unsupported("np.searchsorted needle")


_prev_clip = _prev(np.clip)


def np_clip(eng, args, kwargs):
    """np.clip(a, lo, hi) of a 1-D array of symbolic length with scalar bounds: min(max(a, lo), hi) entry by entry, kind kept
    (an integer array clipped to integer bounds stays an index array).  Other forms: the stock model."""
    b = dict(zip(["a", "a_min", "a_max"], args))
    b.update({("a_min" if k == "min" else "a_max" if k == "max" else k): x for k, x in kwargs.items()})
    v, lo, hi = b.get("a"), b.get("a_min"), b.get("a_max")
    if not (isinstance(v, SArr) and v.kind in ("int", "real") and set(b) <= {"a", "a_min", "a_max"}
            and all(x is None or kind_of(x) in ("int", "real") for x in (lo, hi)) and (lo is not None or hi is not None)):
        return _prev_clip(eng, args, kwargs)
    used(eng, "np.clip(a, lo, hi) = minimum(maximum(a, lo), hi) entry by entry")
    k = "real" if "real" in [v.kind] + [kind_of(x) for x in (lo, hi) if x is not None] else "int"

    def f(i):
        z = to_z3(v.get(i), k)
        if lo is not None:
            l = to_z3(lo, k)
            z = z3.If(z < l, l, z)
        if hi is not None:
            h = to_z3(hi, k)
            z = z3.If(z > h, h, z)  # numpy: minimum(maximum(a, lo), hi): hi wins when lo > hi
        return z

    out = SArr(lam(f, k), v.n, k, name="clip")
    if k == "int":
        out.dtype = getattr(v, "dtype", None) or np.dtype("int64")
    return out


_prev_narr_getitem = narr.getitem


def narr_getitem(eng, a, idx):
    """a[idx] of a concrete-shape 1-D / 2-D array (symbolic contents) through an INTEGER index array of SYMBOLIC length: a gather,
    result[i] = a[idx[i]] (row idx[i] for a 2-D array); every index in [-len, len) is an obligation (numpy: IndexError otherwise)."""
    if not (isinstance(a, NArr) and type(idx) is SArr and idx.kind == "int" and a.ndim in (1, 2) and a.shape[0] >= 1 and a.kind in ("int", "real", "bool")):
        return _prev_narr_getitem(eng, a, idx)
    used(eng, "fancy-index-gather-is-fresh")
    n0 = a.shape[0]
    if not eng.spec_mode:
        j = z3.Int(fresh_name("gi"))
        g = z3.ForAll([j], z3.Implies(z3.And(j >= 0, j < idx.nz()), z3.And(idx.get(j).z >= -n0, idx.get(j).z < n0)))
        eng.prove(eng.site("gather-in-bounds"), g, "safety")
    items = [to_z3(x, a.kind) for x in a.items]
    ncol = 1 if a.ndim == 1 else a.shape[1]

    def cell(c):
        def f(i):
            iz = idx.get(i).z
            iz = z3.If(iz < 0, iz + n0, iz)
            z = items[(n0 - 1) * ncol + c]
            for r in range(n0 - 2, -1, -1):
                z = z3.If(iz == r, items[r * ncol + c], z)
            return z

        return lam(f, a.kind)

    if a.ndim == 1:
        return SArr(cell(0), idx.n, a.kind, name="gather")
    return S2Arr([cell(c) for c in range(ncol)], idx.n, a.kind)


_prev_array_binop = npmodels.array_binop


def array_binop(eng, op, a, b):
    """elementwise `/` `//` `%` whose DIVISOR is a 1-D array of symbolic length: over the reals x/0 is not a number (numpy gives
    inf / nan and a RuntimeWarning), so every divisor entry != 0 is the same `div-nonzero` obligation scalar division carries."""
    if isinstance(op, (ast.Div, ast.FloorDiv, ast.Mod)) and type(b) is SArr and b.kind in ("int", "real") and not isinstance(a, NArr) and not eng.spec_mode:
        q = z3.Int(fresh_name("dj"))
        g = z3.simplify(z3.ForAll([q], z3.Implies(z3.And(q >= 0, q < b.nz()), b.get(q).z != 0)))
        if not z3.is_true(g):
            eng.prove(eng.site("div-nonzero"), g, "safety")
    return _prev_array_binop(eng, op, a, b)



def install():
    E = models.EXTRA_MODELS
    E[np.diff] = np_diff
    E[np.cumsum] = np_cumsum
    E[np.insert] = np_insert
    E[np.concatenate] = np_concatenate
    E[np.linspace] = np_linspace
    E[np.interp] = np_interp
    E[np.ceil] = _round_model("ceil", True)
    E[np.floor] = _round_model("floor", False)
    E[int] = b_int
    E[np.unique] = np_unique
    E[np.round] = np_round
    E[np.around] = np_round
    E[round] = b_round
    E[np.arange] = np_arange
    E[np.zeros] = _filled(0, _prev(np.zeros))
    E[np.ones] = _filled(1, _prev(np.ones))
    E[np.array] = np_array
    E[np.full] = np_full
    _patch_s2arr()  # (n x k).ndim == 2
    try:
        from scipy import signal

        E[signal.convolve] = sig_convolve
    except ImportError:  # pragma: no cover
        pass
    E[np.reshape] = np_reshape
    E[np.argmin] = np_argmin
    E[np.unravel_index] = np_unravel_index
    # extensions of shared engine behaviour, installed by wrapping (no textual edit of pyvc/*.py):
    #  - slice store into a symbolic-length array (npmodels.setitem is looked up through the module at call time)
    #  - storing +-inf into a concrete-shape array (narr.cast)
    #  - obj.__getattribute__(name) on instances of repository classes (Interp.getattr_)
    E[np.searchsorted] = np_searchsorted
    E[np.clip] = np_clip
    narr.getitem = narr_getitem
    npmodels.array_binop = array_binop
    npmodels.setitem = setitem
    narr.cast = cast
    _patch_getattr()


install()
