"""Library models added for property C12 (geometric transforms): what a carrier may do with an ANGLE besides taking its cosine / sine.

`pyvc.narr.trig` abstracts (cos t, sin t) to a point of the unit circle.  That is enough for code that only multiplies the two numbers
into a matrix, but it says nothing about how the sign of sin t depends on t, so code that derives one of them from the other and from the
angle itself (`copysign(sqrt(1 - cos*cos), theta)`, `np.mod(theta, 2*np.pi)`, `theta % (2*pi) < pi` ...) could neither be proved nor
refuted faithfully.  Installed by contracts/C12.py (`install()`):

  * REDUCED-ANGLE facts of the real cosine / sine (`narr.TRIG_FACTS`): every angle t has a turn count k_t (a fresh INTEGER constant) with
    r_t = t - 2*pi*k_t in [-pi, pi) -- it exists and is unique --, and by 2*pi-periodicity (cos t, sin t) = (cos r_t, sin r_t); on [-pi, pi):
    sin r > 0 on (0, pi), < 0 on (-pi, 0), = 0 at 0 and -pi (where cos is 1 / -1); cos r > 0 on (-pi/2, pi/2), < 0 outside, = 0 at +-pi/2
    (where sin is +-1).  Two angles with the same reduced angle have the same cosine and sine; opposite reduced angles: same cosine,
    opposite sine.  All of these are theorems about the real functions; none is specific to a carrier.
  * np.copysign / math.copysign over the reals, np.mod / np.remainder / np.fmod, np.floor / np.sign / np.abs-free helpers on real scalars.

Cross-checked against numpy on concrete inputs by tools/xcheck_trig.py.
"""
from __future__ import annotations

import ast
import math

import numpy as np
import z3

from . import models, narr
from .engine import ProgExc, Unsupported
from .values import NArr, Sym, fresh_name, kind_of, to_z3


def used(eng, name):
    eng.assumptions.add("numpy-model:" + name)


def _pi(eng):
    return to_z3(eng.pi_const(), "real")


# ----------------------------------------------------------------------------------------------------------------- reduced angle
def reduced_angle_facts(eng, tz, c, s, tab):
    """hook of narr.trig: called once per new angle term `tz` with its (cos, sin) = (c, s); `tab` lists the earlier angles"""
    pi = _pi(eng)
    k = z3.Int(fresh_name("turns"))
    r = tz - 2 * pi * z3.ToReal(k)
    cz, sz = to_z3(c, "real"), to_z3(s, "real")
    eng.assumptions.add("trig:reduced angle: t = r + 2*pi*k with k an integer and -pi <= r < pi; (cos t, sin t) = (cos r, sin r); sin > 0 on (0, pi), "
                        "< 0 on (-pi, 0), 0 at 0 / -pi (cos = 1 / -1); cos > 0 on (-pi/2, pi/2), < 0 beyond, 0 at +-pi/2 (sin = +-1); equal reduced angles "
                        "give equal (cos, sin), opposite ones (cos, -sin)")
    eng.assume(z3.And(r >= -pi, r < pi))
    eng.assume(z3.And(z3.Implies(r > 0, sz > 0), z3.Implies(z3.And(r < 0, r > -pi), sz < 0),
                      z3.Implies(r == 0, z3.And(sz == 0, cz == 1)), z3.Implies(r == -pi, z3.And(sz == 0, cz == -1))))
    eng.assume(z3.And(z3.Implies(z3.And(2 * r > -pi, 2 * r < pi), cz > 0), z3.Implies(z3.Or(2 * r < -pi, 2 * r > pi), cz < 0),
                      z3.Implies(2 * r == pi, z3.And(cz == 0, sz == 1)), z3.Implies(2 * r == -pi, z3.And(cz == 0, sz == -1))))
    red = eng.ghost.setdefault("trig-reduced", [])
    for (r2, c2, s2) in red:
        eng.assume(z3.And(z3.Implies(r == r2, z3.And(cz == c2, sz == s2)), z3.Implies(r == -r2, z3.And(cz == c2, sz == -s2))))
    red.append((r, cz, sz))


# ----------------------------------------------------------------------------------------------------------------- scalar helpers
def _scalar_or_map(eng, f, *args):
    if any(isinstance(a, NArr) for a in args):
        return narr.emap(eng, f, *args, kind="real")
    return f(*args)


def _real(x):
    if kind_of(x) is None:
        raise Unsupported(f"real scalar expected, got {type(x).__name__}")
    return to_z3(x, "real")


def np_copysign(eng, args, kwargs):
    """copysign(x, y): the magnitude of x with the sign of y.  Over the reals: |x| if y >= 0 else -|x| (the sign BIT of -0.0 and of NaN has
    no counterpart: y = -0.0 counts as 0, where the two readings differ only by the sign of a zero result or at y = -0.0 itself)"""
    if len(args) != 2 or kwargs:
        raise Unsupported("copysign form")
    used(eng, "copysign(x, y) over the reals: |x| if y >= 0 else -|x| (signed zeros / NaN not modelled)")

    def f(x, y):
        xz, yz = _real(x), _real(y)
        ax = z3.If(xz >= 0, xz, -xz)
        return eng.snum(z3.If(yz >= 0, ax, -ax), "real")

    return _scalar_or_map(eng, f, *args)


def np_mod(eng, args, kwargs):
    """np.mod / np.remainder (and Python's %): the remainder has the sign of the divisor (floor division)"""
    if len(args) != 2 or kwargs:
        raise Unsupported("np.mod form")
    return _scalar_or_map(eng, lambda a, b: eng.binop(ast.Mod(), a, b), *args)


def np_floor_divide(eng, args, kwargs):
    if len(args) != 2 or kwargs:
        raise Unsupported("np.floor_divide form")
    return _scalar_or_map(eng, lambda a, b: eng.binop(ast.FloorDiv(), a, b), *args)


def np_fmod(eng, args, kwargs):
    """np.fmod / math.fmod: a = b*q + r with q the quotient TRUNCATED towards zero: |r| < |b| and r has the sign of the dividend (or is 0)"""
    if len(args) != 2 or kwargs:
        raise Unsupported("fmod form")
    used(eng, "fmod over the reals: a = b*q + r, q integer, |r| < |b|, r has the sign of a or is 0")

    def f(a, b):
        az, bz = _real(a), _real(b)
        eng.check_nonzero(bz)
        q = z3.Int(fresh_name("tquot"))
        r = az - bz * z3.ToReal(q)
        ab = z3.If(bz >= 0, bz, -bz)
        eng.assume(z3.And(z3.Implies(az >= 0, z3.And(r >= 0, r < ab)), z3.Implies(az < 0, z3.And(r <= 0, r > -ab))))
        return eng.snum(r, "real")

    return _scalar_or_map(eng, f, *args)


def np_floor(eng, args, kwargs):
    if len(args) != 1 or kwargs:
        raise Unsupported("np.floor form")
    used(eng, "floor(x): the integer q with q <= x < q + 1")

    def f(x):
        if kind_of(x) == "int":
            return x
        xz = _real(x)
        return eng.snum(z3.ToReal(z3.ToInt(xz)), "real")  # z3's to_int is the floor

    return _scalar_or_map(eng, f, *args)


def np_sign(eng, args, kwargs):
    if len(args) != 1 or kwargs:
        raise Unsupported("np.sign form")
    used(eng, "np.sign: -1 / 0 / 1")

    def f(x):
        k = "int" if kind_of(x) == "int" else "real"
        xz = to_z3(x, k)
        one, zero = (z3.IntVal(1), z3.IntVal(0)) if k == "int" else (z3.RealVal(1), z3.RealVal(0))
        return eng.snum(z3.If(xz > 0, one, z3.If(xz < 0, -one, zero)), k)

    if isinstance(args[0], NArr):
        return narr.emap(eng, f, args[0])
    return f(args[0])


def install():
    if reduced_angle_facts not in narr.TRIG_FACTS:
        narr.TRIG_FACTS.append(reduced_angle_facts)
    E = models.EXTRA_MODELS
    E[np.copysign] = np_copysign
    E[math.copysign] = np_copysign
    E[np.mod] = np_mod  # np.remainder is the same object
    E[np.fmod] = np_fmod
    E[math.fmod] = np_fmod
    E[np.floor_divide] = np_floor_divide
    E[np.floor] = np_floor
    E[math.floor] = lambda eng, a, k: (lambda v: v if not isinstance(v, Sym) else Sym(z3.ToInt(to_z3(v, "real")), "int"))(np_floor(eng, a, k))
    E[np.sign] = np_sign
    E[math.cos] = narr.np_cos
    E[math.sin] = narr.np_sin
    E[math.sqrt] = narr.np_sqrt
