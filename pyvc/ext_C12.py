"""Library models added for property C12 (geometric transforms): what a carrier may do with an ANGLE besides taking its cosine / sine.

`pyvc.narr.trig` abstracts (cos t, sin t) to a point of the unit circle.  That is enough for code that only multiplies the two numbers
into a matrix, but it says nothing about how the sign of sin t depends on t, so code that derives one of them from the other and from the
angle itself (`copysign(sqrt(1 - cos*cos), theta)`, `np.mod(theta, 2*np.pi)`, `theta % (2*pi) < pi` ...) could neither be proved nor
refuted faithfully.  Installed by contracts/C12.py (`install()`):

  * REDUCED-ANGLE facts of the real cosine / sine (`narr.TRIG_FACTS`): every angle t has a turn count k_t (a fresh INTEGER constant) with
    r_t = t - 2*pi*k_t in [-pi, pi) -- it exists and is unique --, and by 2*pi-periodicity (cos t, sin t) = (cos r_t, sin r_t); on [-pi, pi):
    sin r > 0 on (0, pi), < 0 on (-pi, 0), = 0 at 0 and -pi (where cos is 1 / -1); cos r > 0 on (-pi/2, pi/2), < 0 outside, = 0 at +-pi/2
    (where sin is +-1).  Two angles with the same reduced angle have the same cosine and sine; opposite reduced angles: same cosine,
    opposite sine.  All of these are theorems about the real functions; none is specific to a carrier.
  * np.copysign / math.copysign over the reals, np.mod / np.remainder / np.fmod, np.floor / np.sign / np.abs-free helpers on real scalars.

Cross-checked against numpy on concrete inputs by tools/xcheck_trig.py.
"""
from __future__ import annotations

import ast
import math

import numpy as np
import z3

from . import models, narr
from .engine import ProgExc, Unsupported
from .values import NArr, Sym, fresh_name, kind_of, to_z3


def used(eng, name):
    eng.assumptions.add("numpy-model:" + name)


def _pi(eng):
    return to_z3(eng.pi_const(), "real")


# ----------------------------------------------------------------------------------------------------------------- reduced angle
def reduced_angle_facts(eng, tz, c, s, tab):
    """hook of narr.trig: called once per new angle term `tz` with its (cos, sin) = (c, s); `tab` lists the earlier angles"""
    pi = _pi(eng)
    # k_t = floor((t + pi) / (2 pi)): the engine's ghost quotient of that floor division (pyvc.engine.real_floordiv_mod: an integer q with
    # 0 <= (t + pi) - 2 pi q < 2 pi), so that code which normalises the angle with the same division names the same integer
    key = eng.real_divmod_key(tz + pi, 2 * pi)
    new_quotient = key not in eng.ghost
    if new_quotient:
        k = z3.Int(fresh_name("turns"))
        eng.ghost[key] = (k, tz + pi - 2 * pi * z3.ToReal(k))
    k, rem = eng.ghost[key]
    r = tz - 2 * pi * z3.ToReal(k)
    cz, sz = to_z3(c, "real"), to_z3(s, "real")
    eng.assumptions.add("trig:reduced angle: t = r + 2*pi*k with k an integer and -pi <= r < pi; (cos t, sin t) = (cos r, sin r); sin > 0 on (0, pi), "
                        "< 0 on (-pi, 0), 0 at 0 / -pi (cos = 1 / -1); cos > 0 on (-pi/2, pi/2), < 0 beyond, 0 at +-pi/2 (sin = +-1); equal reduced angles "
                        "give equal (cos, sin), opposite ones (cos, -sin); sqrt(1 - cos^2) = |sin|, sqrt(1 - sin^2) = |cos|")
    tagged = eng.ghost.setdefault("trig-reduced-facts", {})  # id of a fact -> (fact, the angles it is about as frozensets of their symbols)
    mine = frozenset(_consts(tz)) - {"pi"}

    def fact(f, about):
        eng.assume(f)
        tagged[f.get_id()] = (f, about)

    if new_quotient:
        fact(z3.And(rem >= 0, rem < 2 * pi), (mine,))  # the defining bounds of the quotient (the engine states them itself when the CODE divides)
    fact(z3.And(r >= -pi, r < pi), (mine,))  # the same bounds, shifted by pi
    fact(z3.And(z3.Implies(r > 0, sz > 0), z3.Implies(z3.And(r < 0, r > -pi), sz < 0),
                z3.Implies(r == 0, z3.And(sz == 0, cz == 1)), z3.Implies(r == -pi, z3.And(sz == 0, cz == -1))), (mine,))
    fact(z3.And(z3.Implies(z3.And(2 * r > -pi, 2 * r < pi), cz > 0), z3.Implies(z3.Or(2 * r < -pi, 2 * r > pi), cz < 0),
                z3.Implies(2 * r == pi, z3.And(cz == 0, sz == 1)), z3.Implies(2 * r == -pi, z3.And(cz == 0, sz == -1))), (mine,))
    # sqrt(1 - cos^2 t) = |sin t| and sqrt(1 - sin^2 t) = |cos t| (from cos^2 + sin^2 = 1): the engine keeps ONE ghost root per argument
    # polynomial (pyvc.engine.sqrt), so the root of these two polynomials is named here instead of being a fresh unknown
    for a, b in ((cz, sz), (sz, cz)):
        rk = ("sqrt", z3.simplify(1 - a * a, som=True).sexpr())
        if rk not in eng.ghost:
            eng.ghost[rk] = Sym(z3.If(b >= 0, b, -b), "real")
    red = eng.ghost.setdefault("trig-reduced", [])
    for (r2, c2, s2, other) in red:
        fact(z3.And(z3.Implies(r == r2, z3.And(cz == c2, sz == s2)), z3.Implies(r == -r2, z3.And(cz == c2, sz == -s2))), (mine, other))
    red.append((r, cz, sz, mine))


_consts_cache = {}


def _consts(z):
    """names of the uninterpreted constants of a term"""
    hit = _consts_cache.get(z.get_id())
    if hit is not None and hit[1].eq(z):
        return hit[0]
    out, stack, seen = set(), [z], set()
    while stack:
        x = stack.pop()
        if x.get_id() in seen:
            continue
        seen.add(x.get_id())
        if z3.is_quantifier(x):
            stack.append(x.body())
        elif z3.is_app(x):
            if x.num_args() == 0 and x.decl().kind() == z3.Z3_OP_UNINTERPRETED:
                out.add(x.decl().name())
            stack.extend(x.children())
    if len(_consts_cache) > 20000:
        _consts_cache.clear()
    _consts_cache[z.get_id()] = (frozenset(out), z)  # the term is kept alive: z3 reuses the ids of freed terms
    return _consts_cache[z.get_id()][0]


def drop_facts_of_unobserved_angles(eng, hyps, goal):
    """HYPOTHESIS FILTER (pyvc.engine.HYP_FILTERS).  The reduced-angle facts of an angle t constrain (cos t, sin t) only through t itself: if
    no symbol of t occurs in the goal or in any other hypothesis, then `exists t, k. facts` is just `cos^2 + sin^2 = 1`, which is a
    hypothesis of its own -- the facts cannot matter and are left out (dropping hypotheses is always sound; it keeps the purely
    polynomial obligations of the matrix builders free of integer variables, where z3's nonlinear real solver decides them at once).
    A fact about two angles is kept when both are observed.  An angle without symbols (pi/2, ...) always counts as observed."""
    tagged = eng.ghost.get("trig-reduced-facts")
    if not tagged:
        return hyps
    seen = set(_consts(goal))
    for h in hyps:
        if h.get_id() not in tagged:
            seen |= _consts(h)
    observed = lambda syms: (not syms) or bool(syms & seen)
    return [h for h in hyps if h.get_id() not in tagged or all(observed(a) for a in tagged[h.get_id()][1])]


# ----------------------------------------------------------------------------------------------------------------- scalar helpers
def _scalar_or_map(eng, f, *args):
    if any(isinstance(a, NArr) for a in args):
        return narr.emap(eng, f, *args, kind="real")
    return f(*args)


def _real(x):
    if kind_of(x) is None:
        raise Unsupported(f"real scalar expected, got {type(x).__name__}")
    return to_z3(x, "real")


def np_copysign(eng, args, kwargs):
    """copysign(x, y): the magnitude of x with the sign of y.  Over the reals: |x| if y >= 0 else -|x| (the sign BIT of -0.0 and of NaN has
    no counterpart: y = -0.0 counts as 0, where the two readings differ only by the sign of a zero result or at y = -0.0 itself)"""
    if len(args) != 2 or kwargs:
        raise Unsupported("copysign form")
    used(eng, "copysign(x, y) over the reals: |x| if y >= 0 else -|x| (signed zeros / NaN not modelled)")

    def f(x, y):
        xz, yz = _real(x), _real(y)
        ax = z3.If(xz >= 0, xz, -xz)
        return eng.snum(z3.If(yz >= 0, ax, -ax), "real")

    if not any(isinstance(a, NArr) for a in args) and not eng.spec_mode and not getattr(eng, "pure_mode", 0):
        # two scalars: the sign of y is a case distinction of the PATH (as if the code had written `x if y >= 0 else -x`), and the
        # magnitude is named by the simplest term the path condition proves equal to it
        xz, yz = _real(args[0]), _real(args[1])
        ax = under_pc(eng, z3.If(xz >= 0, xz, -xz))
        pos = eng.branch(eng.sbool(yz >= 0))  # the path now knows the sign of y: resolve the magnitude again
        return eng.snum(under_pc(eng, ax if pos else -ax), "real")
    return _scalar_or_map(eng, f, *args)


def under_pc(eng, z, depth=0):
    """A term equal to `z` on the current path with decided conditionals removed: If(c, a, b) is replaced by a (by b) when the
    quantifier-free part of the path condition excludes (not c and a != b) (respectively (c and a != b)).  Only an equal term is ever
    substituted, so this is a presentation step (polynomial goals without `ite` are decided by normalisation), not an assumption."""
    z = z3.simplify(z)
    if depth > 6 or not z3.is_app(z):
        return z
    if z3.is_app_of(z, z3.Z3_OP_ITE):
        c, a, b = z.children()
        a, b = under_pc(eng, a, depth + 1), under_pc(eng, b, depth + 1)
        if not eng.feasible(z3.And(z3.Not(c), a != b)):
            return a
        if not eng.feasible(z3.And(c, a != b)):
            return b
        return z3.If(c, a, b)
    if z.num_args() and z.decl().kind() in (z3.Z3_OP_ADD, z3.Z3_OP_MUL, z3.Z3_OP_SUB, z3.Z3_OP_UMINUS):
        return z3.simplify(z.decl()(*[under_pc(eng, x, depth + 1) for x in z.children()]))
    return z


def np_mod(eng, args, kwargs):
    """np.mod / np.remainder (and Python's %): the remainder has the sign of the divisor (floor division)"""
    if len(args) != 2 or kwargs:
        raise Unsupported("np.mod form")
    return _scalar_or_map(eng, lambda a, b: eng.binop(ast.Mod(), a, b), *args)


def np_floor_divide(eng, args, kwargs):
    if len(args) != 2 or kwargs:
        raise Unsupported("np.floor_divide form")
    return _scalar_or_map(eng, lambda a, b: eng.binop(ast.FloorDiv(), a, b), *args)


def np_fmod(eng, args, kwargs):
    """np.fmod / math.fmod: a = b*q + r with q the quotient TRUNCATED towards zero: |r| < |b| and r has the sign of the dividend (or is 0)"""
    if len(args) != 2 or kwargs:
        raise Unsupported("fmod form")
    used(eng, "fmod over the reals: a = b*q + r, q integer, |r| < |b|, r has the sign of a or is 0")

    def f(a, b):
        az, bz = _real(a), _real(b)
        eng.check_nonzero(bz)
        q = z3.Int(fresh_name("tquot"))
        r = az - bz * z3.ToReal(q)
        ab = z3.If(bz >= 0, bz, -bz)
        eng.assume(z3.And(z3.Implies(az >= 0, z3.And(r >= 0, r < ab)), z3.Implies(az < 0, z3.And(r <= 0, r > -ab))))
        return eng.snum(r, "real")

    return _scalar_or_map(eng, f, *args)


def np_floor(eng, args, kwargs):
    if len(args) != 1 or kwargs:
        raise Unsupported("np.floor form")
    used(eng, "floor(x): the integer q with q <= x < q + 1")

    def f(x):
        if kind_of(x) == "int":
            return x
        xz = _real(x)
        return eng.snum(z3.ToReal(z3.ToInt(xz)), "real")  # z3's to_int is the floor

    return _scalar_or_map(eng, f, *args)


def math_floor(eng, args, kwargs):
    """math.floor returns an int (np.floor a float)"""
    v = np_floor(eng, args, kwargs)
    if isinstance(v, Sym):
        return eng.snum(z3.ToInt(to_z3(v, "real")), "int")
    return int(v)


def np_sign(eng, args, kwargs):
    if len(args) != 1 or kwargs:
        raise Unsupported("np.sign form")
    used(eng, "np.sign: -1 / 0 / 1")

    def f(x):
        k = "int" if kind_of(x) == "int" else "real"
        xz = to_z3(x, k)
        one, zero = (z3.IntVal(1), z3.IntVal(0)) if k == "int" else (z3.RealVal(1), z3.RealVal(0))
        return eng.snum(z3.If(xz > 0, one, z3.If(xz < 0, -one, zero)), k)

    if isinstance(args[0], NArr):
        return narr.emap(eng, f, args[0])
    return f(args[0])


def install():
    from . import engine

    if reduced_angle_facts not in narr.TRIG_FACTS:
        narr.TRIG_FACTS.append(reduced_angle_facts)
    if drop_facts_of_unobserved_angles not in engine.HYP_FILTERS:
        engine.HYP_FILTERS.append(drop_facts_of_unobserved_angles)
    E = models.EXTRA_MODELS
    E[np.copysign] = np_copysign
    E[math.copysign] = np_copysign
    E[np.mod] = np_mod  # np.remainder is the same object
    E[np.fmod] = np_fmod
    E[math.fmod] = np_fmod
    E[np.floor_divide] = np_floor_divide
    E[np.floor] = np_floor
    E[math.floor] = math_floor
    E[np.sign] = np_sign
    E[math.cos] = narr.np_cos
    E[math.sin] = narr.np_sin
    E[math.sqrt] = narr.np_sqrt
