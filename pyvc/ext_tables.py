"""Models of what a per-object LOOKUP TABLE is plausibly built from (work package c08c09, fourth session).

A change that replaces "scan the pid column on every call" by "look the node up in a table" uses a handful of numpy primitives on 1-D
arrays of SYMBOLIC length.  Without a model the changed carrier is a machinery error (exit 3); with the models below it is DECIDED against
the unchanged contract.  Nothing here is specific to one carrier.  Cross-check: tools/xcheck_tables.py.

  np.bincount(x, minlength=m)          x non-negative ints (obligation: numpy raises ValueError otherwise); fresh int array of length
        L = max(m, max(x) + 1) (m for an empty x); out[v] = number of positions of x holding v, DEFINED by the unfolding of a ghost
        counting function; plus the witness facts that follow from it by induction (listed as `assumed-lemma`): out[v] >= 0; a position
        holding v gives out[v] >= 1; two positions give out[v] >= 2; out[v] >= 1 / >= 2 name one / two positions holding v.
  np.add.at(a, idx, c)                 in place: a[v] += c * (number of positions of idx holding v); idx entries are positions of `a`.
  np.flatnonzero(a)                    the positions of the true / nonzero entries in order (= the boolean-mask filter of arange(n)).
  np.argsort / np.sort / np.searchsorted / a.argsort() / a.searchsorted() / min / max: the models of pyvc/ext_C05.py;
  np.searchsorted(a, [v0, v1, ...])    a needle sequence of CONCRETE length: one insertion point per needle (array of that length).

`chain(proxy)` makes an existing `eng.models` replacement (ext_C08.MODELS, ext_C09.MODELS) answer for these functions as well.
"""
from __future__ import annotations

import numpy as np
import z3

from . import ext_C05
from .engine import ProgExc, Unsupported
from .values import NArr, NativeMethod, PList, SArr, Sym, fresh, fresh_name, kind_of, to_z3, zint

I = z3.IntSort()


def used(eng, name):
    eng.assumptions.add("numpy-model:" + name)


def _rng(t, n):
    return z3.And(t >= 0, t < n)


def _int_sarr(v):
    a = ext_C05._as_sarr(v)
    if a is None or a.kind not in ("int", "bool"):
        return None
    return a


# ------------------------------------------------------------------ occurrences of a value in an int array
def occurrences(eng, x, L):
    """ghost: occ(v) = number of positions of the int array x that hold v -- a function of the array VALUE, introduced once per (contents,
    length) on a path.  Definition: the unfolding C(v, 0) = 0, C(v, i+1) = C(v, i) + [x[i] == v], occ(v) = C(v, len x).  z3 does no
    induction, so the consequences a client needs are stated next to it (assumed lemma `occurrence-witnesses`, proved by induction over
    the length; cross-checked exhaustively on short arrays in tools/xcheck_tables.py)."""
    ck = ("occurrences", x.arr.get_id(), z3.simplify(x.nz()).get_id())
    hit = eng.ghost.get(ck)
    if hit is not None:
        return hit[0]
    n = x.nz()
    if not (z3.is_const(x.arr) and x.arr.decl().kind() == z3.Z3_OP_UNINTERPRETED):
        # a computed array (lambda term, store chain): its cells are no triggers; name it cell by cell
        named = SArr.fresh("int", x.n, name="named")
        t = z3.Int(fresh_name("nt"))
        eng.assume(z3.ForAll([t], z3.Select(named.arr, t) == to_z3(x.get(t), "int"), patterns=[z3.Select(named.arr, t)]))
        x = named
    tag = fresh_name("occ")
    C = z3.Function("C_" + tag, I, I, I)
    occ = z3.Function(tag, I, I)
    w1, w2 = z3.Function("w1_" + tag, I, I), z3.Function("w2_" + tag, I, I)
    v, i, j = z3.Int("v_" + tag), z3.Int("i_" + tag), z3.Int("j_" + tag)
    xv = lambda t: to_z3(x.get(t), "int")
    eng.assume(z3.ForAll([v], C(v, 0) == 0, patterns=[C(v, 0)]))
    eng.assume(z3.ForAll([v, i], z3.Implies(i >= 0, C(v, i + 1) == C(v, i) + z3.If(xv(i) == v, 1, 0)), patterns=[C(v, i + 1)]))
    eng.assume(z3.ForAll([v], occ(v) == C(v, n), patterns=[occ(v)]))
    eng.assumptions.add("assumed-lemma:occurrence-witnesses: for occ(v) = #{i < len x : x[i] = v}: occ(v) >= 0; x[i] = v gives occ(v) >= 1; x[i] = x[j] = v with i < j "
                        "gives occ(v) >= 2; occ(v) >= 1 names a position w1(v) holding v, occ(v) >= 2 a second one w2(v) > w1(v) (induction over the length)")
    eng.assume(z3.ForAll([v], occ(v) >= 0, patterns=[occ(v)]))
    eng.assume(z3.ForAll([i], z3.Implies(_rng(i, n), occ(xv(i)) >= 1), patterns=[xv(i)]))
    eng.assume(z3.ForAll([i, j], z3.Implies(z3.And(0 <= i, i < j, j < n, xv(i) == xv(j)), occ(xv(i)) >= 2), patterns=[z3.MultiPattern(xv(i), xv(j))]))
    eng.assume(z3.ForAll([v], z3.Implies(occ(v) >= 1, z3.And(_rng(w1(v), n), xv(w1(v)) == v)), patterns=[occ(v)]))
    eng.assume(z3.ForAll([v], z3.Implies(occ(v) >= 2, z3.And(_rng(w2(v), n), w1(v) < w2(v), xv(w2(v)) == v)), patterns=[occ(v)]))
    eng.ghost[ck] = (occ, w1, w2)
    return occ


def _np_bincount(eng, args, kwargs):
    names = ["x", "weights", "minlength"]
    b = dict(zip(names, args))
    for kw, val in kwargs.items():
        if kw not in names or kw in b:
            raise ProgExc(TypeError, f"bincount() argument {kw}")
        b[kw] = val
    x = _int_sarr(b.get("x"))
    if x is None or x.kind != "int":
        from . import models

        if isinstance(b.get("x"), NArr) and b["x"].ndim == 1 and models.all_concrete(list(b.values()), {}):
            # concrete operands (fixed topologies): numpy itself
            try:
                r = np.bincount(np.array([int(t) for t in b["x"].items], dtype=np.int64), minlength=int(b.get("minlength", 0)))
            except ValueError as e:
                raise ProgExc(ValueError, str(e))
            return NArr(r.shape, [int(t) for t in r], "int", r.dtype)
        return ext_C05._chain(np.bincount, "numpy.bincount")(eng, args, kwargs)
    if b.get("weights") is not None:
        raise Unsupported("np.bincount with weights on an array of symbolic length")
    m = b.get("minlength", 0)
    if kind_of(m) != "int":
        raise Unsupported("np.bincount minlength")
    mz, n = to_z3(m, "int"), x.nz()
    i = z3.Int(fresh_name("bi"))
    if not eng.spec_mode:
        eng.prove(eng.site("bincount-of-non-negative-ints"), z3.ForAll([i], z3.Implies(_rng(i, n), x.get(i).z >= 0)), "safety", "np.bincount raises ValueError for a negative entry")
        eng.prove(eng.site("bincount-minlength-not-negative"), mz >= 0, "safety", "np.bincount raises ValueError for a negative minlength")
    used(eng, "np.bincount(x, minlength=m): fresh int array of length max(m, max(x) + 1) (m for an empty x); out[v] = number of positions of x holding v")
    L = fresh("int", "bins")
    top = z3.Int(fresh_name("at_top"))
    eng.assume(z3.And(L.z >= mz, L.z >= 0))
    eng.assume(z3.ForAll([i], z3.Implies(_rng(i, n), x.get(i).z < L.z), patterns=[x.get(i).z]))
    eng.assume(z3.Or(L.z == mz, z3.And(_rng(top, n), x.get(top).z == L.z - 1)))
    occ = occurrences(eng, x, L.z)
    out = SArr.fresh("int", L.z, name="bincount", dtype=np.dtype("int64"))
    v = z3.Int(fresh_name("bv"))
    eng.assume(z3.ForAll([v], z3.Implies(_rng(v, L.z), z3.Select(out.arr, v) == occ(v)), patterns=[z3.Select(out.arr, v)]))
    return out


def _np_add_at(eng, args, kwargs):
    if kwargs or len(args) != 3:
        raise Unsupported("np.add.at arguments")
    a, idx, c = args
    ix = _int_sarr(idx)
    if not (isinstance(a, SArr) and not hasattr(a, "__pyvc_getitem__")) or ix is None or ix.kind != "int" or kind_of(c) not in ("int", "real"):
        return ext_C05._chain(np.add.at, "numpy.add.at")(eng, args, kwargs)
    if a.kind == "bool" or (a.kind == "int" and kind_of(c) == "real"):
        raise ProgExc(TypeError, "np.add.at: cannot cast the increment to the dtype of the target")
    from .models import check_frame

    n, m = a.nz(), ix.nz()
    i = z3.Int(fresh_name("ai"))
    if not eng.spec_mode:
        eng.prove(eng.site("add-at-index-in-bounds"), z3.ForAll([i], z3.Implies(_rng(i, m), z3.And(ix.get(i).z >= -n, ix.get(i).z < n))), "safety", "np.add.at raises IndexError otherwise")
    check_frame(eng, a)
    used(eng, "np.add.at(a, idx, c): in place and unbuffered, a[v] += c * (number of positions of idx holding v, negative entries wrapped)")
    wrapped = SArr(z3.Lambda([i], z3.If(ix.get(i).z < 0, ix.get(i).z + n, ix.get(i).z)), ix.n, "int", name="wrapped")
    neg = z3.Exists([i], z3.And(_rng(i, m), ix.get(i).z < 0))
    src = ix if not eng.feasible(neg) else wrapped
    occ = occurrences(eng, src, n)
    new = z3.Const(fresh_name("added"), z3.ArraySort(I, z3.RealSort() if a.kind == "real" else I))
    v = z3.Int(fresh_name("av"))
    inc = to_z3(c, a.kind) * (z3.ToReal(occ(v)) if a.kind == "real" else occ(v))
    eng.assume(z3.ForAll([v], z3.Implies(_rng(v, n), z3.Select(new, v) == z3.Select(a.arr, v) + inc), patterns=[z3.Select(new, v)]))
    a.arr = new
    return None


def _np_flatnonzero(eng, args, kwargs):
    if kwargs or len(args) != 1:
        raise Unsupported("np.flatnonzero arguments")
    a = ext_C05._as_sarr(args[0])
    if a is None:
        return ext_C05._chain(np.flatnonzero, "numpy.flatnonzero")(eng, args, kwargs)
    from .npmodels import lam, mask_filter

    used(eng, "np.flatnonzero(a): the positions of the true (nonzero) entries in increasing order")
    mask = a if a.kind == "bool" else SArr(lam(lambda t: a.get(t).z != 0, "bool"), a.n, "bool", name="nz")
    pos = SArr(lam(lambda t: t, "int"), a.n, "int", name="positions")
    out = mask_filter(eng, pos, mask)
    out.dtype = np.dtype("int64")
    return out


def _np_searchsorted(eng, args, kwargs):
    """a needle SEQUENCE of concrete length (list / tuple / concrete-shape 1-D array): one scalar search per needle"""
    names = ["a", "v", "side", "sorter"]
    b = dict(zip(names, args))
    b.update(kwargs)
    v = b.get("v")
    seq = None
    if isinstance(v, PList) and v.items is not None:
        seq = list(v.items)
    elif isinstance(v, (tuple, list)):
        seq = list(v)
    elif isinstance(v, NArr) and v.ndim == 1:
        seq = list(v.items)
    if seq is None or ext_C05._as_sarr(b.get("a")) is None or any(kind_of(x) not in ("int", "real") for x in seq):
        return ext_C05._np_searchsorted(eng, args, kwargs)
    rest = {k: val for k, val in b.items() if k in ("side", "sorter")}
    outs = [ext_C05._np_searchsorted(eng, [b["a"], x], dict(rest)) for x in seq]
    return NArr((len(outs),), outs, "int", np.dtype("int64"))


def _m_searchsorted(eng, recv, args, kwargs):
    return _np_searchsorted(eng, [recv] + list(args), kwargs)


# only functions the stock tables have no symbolic-length model for (each chains to the stock model for other operands); the reductions of
# ext_C05 (min / max / all / any) are NOT taken over: carriers that use them keep the models they were verified with
_MINE = {np.argsort: ext_C05._np_argsort, np.sort: ext_C05._np_sort, np.searchsorted: _np_searchsorted,
         np.bincount: _np_bincount, np.add.at: _np_add_at, np.flatnonzero: _np_flatnonzero}
_METHODS = {"argsort": ext_C05._m_argsort, "searchsorted": _m_searchsorted}


def lookup(fn, stock):
    """the model of this file for `fn`, else stock(fn)"""
    try:
        m = _MINE.get(fn)
    except TypeError:
        m = None
    return m if m is not None else stock(fn)


def chain(proxy_cls):
    """teach an `eng.models` replacement class (ext_C08.ModelsProxy, ext_C09.ModelsProxy) the models of this file: functions it has no
    model for are looked up here, and the array methods argsort / searchsorted / min / max of symbolic 1-D arrays are answered here"""
    if getattr(proxy_cls, "_ext_tables", False):
        return proxy_cls
    from . import models

    base_lookup = proxy_cls.__dict__.get("lookup_model")
    base_method = proxy_cls.__dict__.get("method_of")

    def lookup_model(self, fn):
        return lookup(fn, (lambda f: base_lookup(self, f)) if base_lookup else models.lookup_model)

    def method_of(self, eng, v, name):
        if name in _METHODS and ext_C05._is_sarr(v):
            try:
                return (base_method(self, eng, v, name) if base_method else models.method_of(eng, v, name))
            except Unsupported:
                return NativeMethod(_METHODS[name], v, name)
        return base_method(self, eng, v, name) if base_method else models.method_of(eng, v, name)

    proxy_cls.lookup_model = lookup_model
    proxy_cls.method_of = method_of
    proxy_cls._ext_tables = True
    return proxy_cls
