"""Extension values and library models for C20 (image stacks, rasteriser glue).

ImgArr   n-D numpy array with symbolic extents and a CONCRETE dtype; its contents are an opaque
         function of the index tuple (a composition of index maps and per-element conversions
         over one uninterpreted source).  Which dtype an arithmetic result has is asked from the
         real numpy (on empty arrays), so NEP-50 promotion is whatever the installed numpy does.
NpScalar a numpy scalar (np.float64(x)): a value with a dtype ("strong" in promotions).
Everything assumed here is recorded in eng.assumptions (evidence: trusted_base).
"""
from __future__ import annotations

import ast
import operator
from fractions import Fraction

import numpy as np
import z3

from .engine import ProgExc, Unsupported
from .models import EXTRA_METHODS, EXTRA_MODELS, BUILTIN_MODELS
from .values import Func, Iter, NArr, NativeMethod, Opaque, PDict, PList, SArr, Sym, fresh, fresh_name, frac, kind_of, next_uid, to_z3, zint

R = z3.RealSort()
_OPS = {ast.Mult: operator.mul, ast.Add: operator.add, ast.Sub: operator.sub, ast.Div: operator.truediv}


def used(eng, text):
    eng.assumptions.add("C20-model:" + text)


# ------------------------------------------------------------------ vocabulary of per-element conversions
def RND(dt):
    """rounding of an exact real result into the result dtype of an arithmetic operation:
    float64 is the framework's real line (global assumption `floats are real numbers`);
    narrower float formats round (uninterpreted)."""
    dt = np.dtype(dt)
    if dt.kind == "f" and dt.itemsize < 8:
        f = z3.Function(f"rnd_{dt.name}", R, R)
        return lambda z: f(z)
    return lambda z: z


def WRAP(dt):
    """result of an integer operation in a fixed-width integer dtype (modular wrap-around): uninterpreted"""
    f = z3.Function(f"wrap_{np.dtype(dt).name}", R, R)
    return lambda z: f(z)


def CAST(src, dst):
    """ndarray.astype element conversion: the identity when numpy itself calls the cast `safe`
    (value preserving), else an uninterpreted function cast_<src>_<dst> (C truncation / rounding)."""
    src, dst = np.dtype(src), np.dtype(dst)
    if src == dst or np.can_cast(src, dst, "safe"):
        return lambda z: z
    f = z3.Function(f"cast_{src.name}_{dst.name}", R, R)
    return lambda z: f(z)


class NpScalar:
    """np.float64(v) and friends: value (Python number / Sym) with a dtype."""

    def __init__(self, value, dtype):
        self.value, self.dtype = value, np.dtype(dtype)

    def __pyvc_binop__(self, eng, op, a, b):
        if isinstance(a, ImgArr) or isinstance(b, ImgArr):
            arr = a if isinstance(a, ImgArr) else b
            return arr.__pyvc_binop__(eng, op, a, b)
        av = a.value if isinstance(a, NpScalar) else a
        bv = b.value if isinstance(b, NpScalar) else b
        return eng.binop(op, av, bv)

    def __repr__(self):
        return f"NpScalar({self.value}, {self.dtype})"


def _np_scalar_ctor(dt):
    def model(eng, args, kwargs):
        (v,) = args
        if isinstance(v, NpScalar):
            v = v.value
        if kind_of(v) is None:
            raise Unsupported(f"np.{np.dtype(dt).name}() of {type(v).__name__}")
        return NpScalar(v, dt)

    return model


class ImgArr:
    def __init__(self, shape, dtype, elem, name="img"):
        self.shape = tuple(shape)
        self.dtype = np.dtype(dtype)
        self.elem = elem  # [z3 Int]*ndim -> z3 Real
        self.name = name
        self.uid = next_uid()
        self.frozen = False

    @property
    def ndim(self):
        return len(self.shape)

    def __repr__(self):
        return f"ImgArr<{self.name}:{self.dtype.name}{self.shape}>"

    def __pyvc_snapshot__(self, memo):
        return self  # immutable value (in-place operators re-point `elem`; snapshots keep the object they saw)

    # ---- construction helpers
    @staticmethod
    def source(shape, dtype, name="img"):
        """fresh array: contents = an uninterpreted function of the index tuple"""
        f = z3.Function(fresh_name(name), *([z3.IntSort()] * len(shape)), R)
        a = ImgArr(shape, dtype, lambda ix, _f=f: _f(*ix), name)
        a.fn = f
        return a

    def at(self, *ix):
        return self.elem([zint(i) if not isinstance(i, Sym) else i.z for i in ix])

    # ---- attributes / methods seen by the interpreter
    def __pyvc_getattr__(self, eng, name):
        if name == "ndim":
            return self.ndim
        if name == "shape":
            return self.shape
        if name == "dtype":
            return self.dtype
        if name == "astype":
            return NativeMethod(lambda e, r, a, k: r.astype(e, a[0]), self, name)
        if name == "transpose":
            return NativeMethod(lambda e, r, a, k: r.transpose(e, a), self, name)
        if name == "copy":
            return NativeMethod(lambda e, r, a, k: ImgArr(r.shape, r.dtype, r.elem, r.name), self, name)
        if name == "__getitem__":
            return NativeMethod(lambda e, r, a, k: r.__pyvc_getitem__(e, a[0]), self, name)
        if name == "item":
            def item(e, r, a, k):
                if a or k:
                    raise Unsupported("ndarray.item(index)")
                used(e, "ndarray.item(): the single element of a size-1 array, ValueError otherwise")
                one = z3.And(*[_z(d) == 1 for d in r.shape]) if r.shape else z3.BoolVal(True)
                if not e.branch(e.sbool(one)):
                    raise ProgExc(ValueError, "can only convert an array of size 1 to a Python scalar")
                return Sym(r.elem([z3.IntVal(0)] * r.ndim), "real")

            return NativeMethod(item, self, name)
        raise Unsupported(f"ndarray.{name} on an opaque image array")

    def astype(self, eng, dt):
        try:
            dst = np.dtype(dt)
        except TypeError as e:
            raise ProgExc(TypeError, str(e))
        used(eng, "ndarray.astype: per-element conversion cast_<src>_<dst>, the identity for numpy-`safe` casts; fresh array of the requested dtype")
        c = CAST(self.dtype, dst)
        return ImgArr(self.shape, dst, lambda ix, _e=self.elem: c(_e(ix)), self.name)

    def transpose(self, eng, args):
        used(eng, "ndarray.transpose(perm): out.shape[k] = in.shape[perm[k]], out[j] = in[i] with i[perm[k]] = j[k]")
        if len(args) == 0 or (len(args) == 1 and args[0] is None):
            perm = list(range(self.ndim))[::-1]  # a.transpose(): the axes reversed
        elif len(args) == 1 and not isinstance(args[0], int):
            perm = args[0]
        else:
            perm = args
        if isinstance(perm, NArr):
            perm = perm.items
        elif isinstance(perm, PList):
            perm = perm.items
        if perm is None or any(not isinstance(p, (int, np.integer)) for p in perm):
            raise Unsupported("transpose with a symbolic permutation")
        perm = [int(p) for p in perm]
        try:  # numpy decides what is a valid permutation
            np.empty((0,) * self.ndim).transpose(perm)
        except Exception as e:
            raise ProgExc(ValueError, str(e))
        perm = [p % self.ndim for p in perm]
        return self._permuted(perm)

    def _permuted(self, perm):
        def elem(jx, _e=self.elem):
            ix = [None] * len(perm)
            for k, p in enumerate(perm):
                ix[p] = jx[k]
            return _e(ix)

        return ImgArr([self.shape[p] for p in perm], self.dtype, elem, self.name)

    def __pyvc_getitem__(self, eng, idx):
        return basic_index(eng, self, idx)

    def __pyvc_isinstance__(self, cls):
        return cls is np.ndarray

    # ---- arithmetic
    def __pyvc_binop__(self, eng, op, a, b):
        if type(op) not in _OPS:
            raise Unsupported(f"operator {type(op).__name__} on an image array")
        return _arith(eng, op, a, b)

    def __pyvc_inplace__(self, eng, op, val):
        """a op= v: numpy computes with same_kind casting INTO a's dtype and storage"""
        from .models import check_frame

        check_frame(eng, self)
        if getattr(self, "has_views", False) or getattr(self, "is_view", False):
            raise Unsupported("in-place update of an image array that shares storage with a view")
        r = _arith(eng, op, self, val)
        if not np.can_cast(r.dtype, self.dtype, "same_kind"):
            raise ProgExc(TypeError, f"UFuncTypeError: cannot cast ufunc output from {r.dtype} to {self.dtype} with casting rule 'same_kind'")
        if tuple(r.shape) != tuple(self.shape) and not all(z3.is_true(z3.simplify(zint(_z(x)) == zint(_z(y)))) for x, y in zip(r.shape, self.shape)):
            raise ProgExc(ValueError, "non-broadcastable output operand")
        c = CAST(r.dtype, self.dtype)
        self.elem = (lambda ix, _e=r.elem: c(_e(ix)))


def _z(x):
    return x.z if isinstance(x, Sym) else x


def _operand(v):
    """-> ('arr', ImgArr) | ('np', value, dtype) | ('py', value)"""
    if isinstance(v, ImgArr):
        return ("arr", v)
    if isinstance(v, NpScalar):
        return ("np", v.value, v.dtype)
    if isinstance(v, (bool, int, Fraction, float)):
        return ("py", v)
    if isinstance(v, Sym) and v.kind in ("int", "real"):
        return ("py", v)
    raise Unsupported(f"image array operand {type(v).__name__}")


def _native_probe(o):
    """a real numpy stand-in with the same promotion behaviour (empty array / scalar of the dtype / Python number)"""
    if o[0] == "arr":
        return np.empty(0, o[1].dtype)
    if o[0] == "np":
        return o[2].type(1)
    v = o[1]
    if isinstance(v, Sym):
        return 1 if v.kind == "int" else 1.0
    if isinstance(v, Fraction):
        return int(v) if v.denominator == 1 and False else float(v)
    return v


def _arith(eng, op, a, b):
    used(eng, "elementwise arithmetic on image arrays: result dtype = what the installed numpy yields for these operand types (NEP 50); "
              "float64 results exact, float16/float32 results rounded (rnd_<dtype>), fixed-width integer results wrap (wrap_<dtype>) unless the factor is 1")
    oa, ob = _operand(a), _operand(b)
    f = _OPS[type(op)]
    try:
        with np.errstate(all="ignore"):
            rdt = np.asarray(f(_native_probe(oa), _native_probe(ob))).dtype
    except Exception as e:  # e.g. OverflowError: Python integer out of bounds for uint8
        raise ProgExc(type(e), str(e))
    arrs = [o[1] for o in (oa, ob) if o[0] == "arr"]
    shape = arrs[0].shape
    if len(arrs) == 2:
        if arrs[0].ndim != arrs[1].ndim:
            raise Unsupported("broadcasting of image arrays of different rank")
        shape = arrs[0].shape

    frozen_elem = {id(o): o[1].elem for o in (oa, ob) if o[0] == "arr"}  # contents as they are NOW (in-place ops re-point .elem)

    def val(o, ix):
        if o[0] == "arr":
            return frozen_elem[id(o)](ix)
        return to_z3(o[1], "real")

    def is_one(o):
        return o[0] != "arr" and not isinstance(o[1], Sym) and frac(o[1]) == 1

    zop = {ast.Mult: lambda x, y: x * y, ast.Add: lambda x, y: x + y, ast.Sub: lambda x, y: x - y, ast.Div: lambda x, y: x / y}[type(op)]
    exact_id = isinstance(op, ast.Mult) and len(arrs) == 1 and (is_one(oa) or is_one(ob)) and rdt == arrs[0].dtype
    if rdt.kind == "f":
        post = (lambda z: z) if exact_id else RND(rdt)
    elif rdt.kind in "iu":
        post = (lambda z: z) if exact_id else WRAP(rdt)
    else:
        raise Unsupported(f"result dtype {rdt}")
    return ImgArr(shape, rdt, lambda ix: post(zop(val(oa, ix), val(ob, ix))), arrs[0].name)


# ------------------------------------------------------------------ numpy functions
def _np_dtype(eng, args, kwargs):
    try:
        return np.dtype(*args)
    except TypeError as e:
        raise ProgExc(TypeError, str(e))


def _axis_perm(fn, ndim, *args):
    """permutation applied by a numpy axis-shuffling function, read off a real array with pairwise distinct extents"""
    primes = [2, 3, 5, 7, 11, 13][:ndim]
    try:
        out = fn(np.empty(primes), *args)
    except Exception as e:
        raise ProgExc(type(e) if isinstance(e, (ValueError, TypeError, IndexError)) else ValueError, str(e))
    return [primes.index(s) for s in out.shape]


def _np_moveaxis(eng, args, kwargs):
    a = args[0]
    src = kwargs.get("source", args[1] if len(args) > 1 else None)
    dst = kwargs.get("destination", args[2] if len(args) > 2 else None)
    if not isinstance(a, ImgArr):
        raise Unsupported("np.moveaxis on this value")
    if not isinstance(src, int) or not isinstance(dst, int):
        raise Unsupported("np.moveaxis with non-constant axes")
    used(eng, "np.moveaxis = transpose by the permutation real numpy applies for (ndim, source, destination)")
    return a._permuted(_axis_perm(np.moveaxis, a.ndim, src, dst))


def _np_expand_dims(eng, args, kwargs):
    a = args[0]
    axis = kwargs.get("axis", args[1] if len(args) > 1 else None)
    if not isinstance(a, ImgArr) or not isinstance(axis, int):
        raise Unsupported("np.expand_dims on this value")
    used(eng, "np.expand_dims inserts an axis of extent 1 (contents unchanged)")
    try:
        pos = np.expand_dims(np.empty((2,) * a.ndim), axis).shape.index(1)
    except Exception as e:
        raise ProgExc(ValueError, str(e))
    shape = list(a.shape)
    shape.insert(pos, 1)
    return ImgArr(shape, a.dtype, lambda ix, _e=a.elem: _e(ix[:pos] + ix[pos + 1 :]), a.name)


def _np_argsort(eng, args, kwargs):
    v = args[0]
    items = v.items if isinstance(v, (PList, NArr)) else list(v)
    if items is None or any(not isinstance(x, (int, np.integer)) for x in items):
        raise Unsupported("np.argsort of symbolic data")
    return PList([int(x) for x in np.argsort([int(x) for x in items])])


def _floor_ceil(is_floor):
    def one(eng, v):
        if not isinstance(v, Sym):
            import math

            return (math.floor if is_floor else math.ceil)(frac(v)) * Fraction(1)
        z = to_z3(v, "real")
        return Sym(z3.ToReal(z3.ToInt(z)) if is_floor else -z3.ToReal(z3.ToInt(-z)), "real")

    def model(eng, args, kwargs):
        used(eng, "np.floor / np.ceil: the integer part function of SMT-LIB (to_int), ceil(v) = -floor(-v)")
        v = args[0]
        if isinstance(v, NArr):
            return NArr(v.shape, [one(eng, x) for x in v.items], "real", v.dtype)
        if kind_of(v) is None:
            raise Unsupported("np.floor/ceil argument")
        return one(eng, v)

    return model


class ColVec:
    """a.reshape(-1, 1) of a 1-D symbolic array: an (n, 1) column that broadcasts against (n, k)"""

    def __init__(self, a):
        self.a = a

    def __pyvc_binop__(self, eng, op, x, y):
        from .npmodels import S2Arr, lam

        other, left = (y, False) if x is self else (x, True)
        if not isinstance(other, S2Arr) or other.transposed or type(op) not in (ast.Add, ast.Sub):
            raise Unsupported("column-vector arithmetic form")
        used(eng, "broadcasting (n,k) +/- (n,1): row i of the result is row i of the matrix +/- the i-th entry of the column")
        g = z3.simplify(zint(other.n) == self.a.nz())
        if not z3.is_true(g) and not eng.spec_mode:
            eng.prove(eng.site("shape-match"), g, "shape", "broadcast (n,k) with (m,1)")
        r = self.a
        if isinstance(op, ast.Add):
            f = lambda m, c: m + c
        else:
            f = (lambda m, c: m - c) if left else (lambda m, c: c - m)
        cols = [lam(lambda i, _c=c: f(z3.Select(_c, i), to_z3(r.get(i), "real")), "real") for c in other.cols]
        return S2Arr(cols, other.n, "real")


def _sarr_reshape(eng, recv, args, kwargs):
    shp = args[0] if len(args) == 1 and isinstance(args[0], (tuple, list)) else tuple(args)
    if tuple(shp) == (-1, 1):
        return ColVec(recv)
    if tuple(shp) == (-1,):
        return recv
    raise Unsupported(f"reshape{tuple(shp)} of a symbolic-length array")


def _col_extreme(is_min, orig):
    def model(eng, args, kwargs):
        from .npmodels import S2Arr

        a = args[0]
        axis = kwargs.get("axis", args[1] if len(args) > 1 else None)
        if not isinstance(a, S2Arr):
            return orig(eng, args, kwargs)
        if a.transposed or axis != 0:
            raise Unsupported("np.min/np.max form on a symbolic 2-D array")
        used(eng, "np.min / np.max(axis=0) of an (n,k) array, n >= 1: per column a bound of every entry that is attained by some row")
        n = a.nz()
        if not eng.spec_mode:
            if not eng.branch(eng.sbool(n > 0)):
                raise ProgExc(ValueError, "zero-size array to reduction operation which has no identity")
        out = []
        for c in a.cols:
            m = fresh("real", "colmin" if is_min else "colmax")
            w = z3.Int(fresh_name("wit"))
            i = z3.Int(fresh_name("i"))
            eng.assume(z3.And(w >= 0, w < n, z3.Select(c, w) == m.z))
            eng.assume(z3.ForAll([i], z3.Implies(z3.And(i >= 0, i < n), (m.z <= z3.Select(c, i)) if is_min else (m.z >= z3.Select(c, i)))))
            out.append(m)
        return NArr((len(out),), out, "real")

    return model


# ------------------------------------------------------------------ ghost call log for foreign calls
def log_call(eng, name, **params):
    eng.call_log.append((name, params))


def _imwrite(eng, args, kwargs):
    used(eng, "tifffile.imwrite(file, data, **kwargs): assumed to write `data` with the given options (arguments recorded in the ghost call log)")
    kw = {k: (PDict(dict(v.items)) if isinstance(v, PDict) and v.items is not None else v) for k, v in kwargs.items()}
    log_call(eng, "tifffile.imwrite", file=args[0] if args else kwargs.get("file"), data=args[1] if len(args) > 1 else kwargs.get("data"), kwargs=kw, nargs=len(args))
    return None


class TiffHandle:
    """tifffile.TiffFile(fname): context manager whose series[0] has .asarray() and .axes as the contract's
    ghost `tiff_content` says (eng.spec_extra['tiff_content'] = (ImgArr, axes string))."""

    def __init__(self, eng, fname, kwargs):
        self.fname, self.kwargs = fname, kwargs
        self.opened = False

    def __pyvc_getattr__(self, eng, name):
        if name == "__enter__":
            def enter(e, r, a, k):
                log_call(e, "TiffFile.__enter__", file=r.fname)
                r.opened = True
                return r

            return NativeMethod(enter, self, name)
        if name == "__exit__":
            def exit_(e, r, a, k):
                log_call(e, "TiffFile.__exit__", file=r.fname)
                r.opened = False
                return False

            return NativeMethod(exit_, self, name)
        if name == "series":
            if not self.opened:
                raise ProgExc(ValueError, "I/O operation on closed file")
            return PList([TiffSeries(self)])
        raise Unsupported(f"TiffFile.{name}")


class TiffSeries:
    def __init__(self, h):
        self.h = h

    def __pyvc_getattr__(self, eng, name):
        content = eng.spec_extra.get("tiff_content")
        if content is None:
            raise Unsupported("no tiff_content ghost in the contract setup")
        if name == "axes":
            return content[1]
        if name == "asarray":
            def asarray(e, r, a, k):
                if not r.h.opened:
                    raise ProgExc(ValueError, "I/O operation on closed file")
                log_call(e, "TiffPageSeries.asarray", file=r.h.fname)
                return content[0]

            return NativeMethod(asarray, self, name)
        raise Unsupported(f"TiffPageSeries.{name}")


def _tifffile_open(eng, args, kwargs):
    used(eng, "tifffile.TiffFile: context manager; series[0].asarray() / .axes return the file's array and axes string (the contract's ghost file content)")
    log_call(eng, "tifffile.TiffFile", file=args[0], kwargs=dict(kwargs))
    return TiffHandle(eng, args[0], kwargs)


# ------------------------------------------------------------------ sdflit (compiled): constructors recorded as values
SDF_TAG = {"Sphere": 0, "RoundCone": 1}
SP = [z3.Function(f"sampler_p{k}", z3.IntSort(), R) for k in range(9)]  # ghost: the 9 numbers a RangeSampler was built from


class SdfVal:
    """Sphere(c, r) / RoundCone(a, b, ra, rb) / SDFObject(sdf, material): plain records; `.into()` is the identity
    (sdflit's conversion to a trait object)."""

    def __init__(self, kind, params):
        self.kind, self.params = kind, params

    def __pyvc_getattr__(self, eng, name):
        if name == "into":
            return NativeMethod(lambda e, r, a, k: r, self, name)
        raise Unsupported(f"sdflit.{self.kind}.{name}")


MATERIAL = z3.Function("sdf_material", R, R, R, z3.IntSort())  # ghost term: the material handle built from a colour
SCENE_ROW_KINDS = ["int"] + ["real"] * 8 + ["ref"]  # (tag 0 Sphere / 1 RoundCone, a xyz, b xyz, ra, rb, material)


class MaterialVal:
    """ColoredMaterial((r, g, b)): an opaque handle that is a ghost term of the colour; `.into()` is the identity"""

    def __init__(self, z):
        self.z = z

    def __pyvc_getattr__(self, eng, name):
        if name == "into":
            return NativeMethod(lambda e, r, a, k: r, self, name)
        raise Unsupported(f"sdflit.ColoredMaterial.{name}")


class SceneVal:
    """sdflit.ObjectsScene(): a record of what the glue code did to it -- the background colour, the objects added (in order;
    one row (tag, a, b, ra, rb, material) per SDFObject), whether build_bvh ran after the last add_object.  `.into()` is the
    identity.  What the compiled sampler does with the scene is not modelled here (it renders the union of the objects over the
    background: cross-checked natively, see the report); `objects` is the ghost view contracts speak about."""

    def __init__(self):
        self.objects = PList([])
        self.objects.name = "scene_objects"
        self.background = None
        self.built = False
        self.uid = next_uid()

    def __pyvc_getattr__(self, eng, name):
        if name == "objects":  # ghost attribute (contracts: modifies expressions, clauses); sdflit has no such attribute and the carriers never read it
            return self.objects
        if name in ("set_background", "add_object", "build_bvh", "into"):
            return NativeMethod(getattr(SceneVal, "_m_" + name), self, name)
        raise Unsupported(f"sdflit.ObjectsScene.{name}")

    def __pyvc_snapshot__(self, memo):
        from .values import snapshot

        c = SceneVal.__new__(SceneVal)
        c.objects, c.background, c.built, c.uid = snapshot(self.objects, memo), self.background, self.built, self.uid
        return c

    @staticmethod
    def _m_set_background(eng, recv, args, kwargs):
        used(eng, "sdflit.ObjectsScene: set_background / add_object / build_bvh only record (background colour, object appended to the scene's list, index built); into() is the identity")
        recv.background = tuple(_tuple3(eng, args[0], "set_background"))
        return None

    @staticmethod
    def _m_add_object(eng, recv, args, kwargs):
        used(eng, "sdflit.ObjectsScene: set_background / add_object / build_bvh only record (background colour, object appended to the scene's list, index built); into() is the identity")
        (obj,) = args
        if not isinstance(obj, SdfVal) or obj.kind != "SDFObject":
            raise ProgExc(TypeError, "add_object expects an SDFObject")
        sdf, mat = obj.params
        if not hasattr(mat, "z"):
            raise ProgExc(TypeError, "SDFObject material")
        row = tuple([SDF_TAG[sdf.kind]] + list(sdf.params) + [Sym(mat.z, "ref")])
        hook = eng.ghost.get("scene_add_hook")  # contract ghost code: an EFFECT obligation per object that reaches the scene
        if hook is not None and not eng.spec_mode:
            hook(eng, recv, row)
        eng.models.LIST_METHODS["append"](eng, recv.objects, [row], {})
        recv.built = False
        return None

    @staticmethod
    def _m_build_bvh(eng, recv, args, kwargs):
        recv.built = True
        return None

    @staticmethod
    def _m_into(eng, recv, args, kwargs):
        return recv


def _colored_material(eng, args, kwargs):
    used(eng, "sdflit.ColoredMaterial(colour): an opaque material handle (a ghost term of the colour)")
    if len(args) != 1:
        raise ProgExc(TypeError, "ColoredMaterial(color)")
    return MaterialVal(MATERIAL(*[to_z3(x, "real") for x in _tuple3(eng, args[0], "ColoredMaterial")]))


def _objects_scene(eng, args, kwargs):
    if args or kwargs:
        raise ProgExc(TypeError, "ObjectsScene()")
    return SceneVal()


def _tuple3(eng, v, what):
    if not isinstance(v, tuple) or len(v) != 3 or any(kind_of(x) is None for x in v):
        raise ProgExc(TypeError, f"{what}: argument must be a tuple of 3 floats")
    return list(v)


def _sphere(eng, args, kwargs):
    used(eng, "sdflit constructors (Sphere, RoundCone, SDFObject, RangeSampler) are total on (tuple of 3 floats, float ...) arguments and only record them")
    if len(args) != 2:
        raise ProgExc(TypeError, "Sphere(center, radius)")
    return SdfVal("Sphere", _tuple3(eng, args[0], "Sphere") + [0, 0, 0, args[1], 0])


def _round_cone(eng, args, kwargs):
    used(eng, "sdflit constructors (Sphere, RoundCone, SDFObject, RangeSampler) are total on (tuple of 3 floats, float ...) arguments and only record them")
    if len(args) != 4:
        raise ProgExc(TypeError, "RoundCone(a, b, ra, rb)")
    return SdfVal("RoundCone", _tuple3(eng, args[0], "RoundCone") + _tuple3(eng, args[1], "RoundCone") + [args[2], args[3]])


def _sdf_object(eng, args, kwargs):
    if len(args) != 2 or not isinstance(args[0], SdfVal) or args[0].kind not in SDF_TAG:
        raise ProgExc(TypeError, "SDFObject(sdf, material)")
    return SdfVal("SDFObject", [args[0], args[1]])


def _range_sampler(eng, args, kwargs):
    used(eng, "sdflit constructors (Sphere, RoundCone, SDFObject, RangeSampler) are total on (tuple of 3 floats, float ...) arguments and only record them")
    if len(args) != 3:
        raise ProgExc(TypeError, "RangeSampler(min, max, stride)")
    ps = _tuple3(eng, args[0], "RangeSampler") + _tuple3(eng, args[1], "RangeSampler") + _tuple3(eng, args[2], "RangeSampler")
    ref = fresh("ref", "sampler")
    eng.assumptions.add("ghost definition: sampler_p0..p8(ref) = the numbers the RangeSampler `ref` was constructed from (ref is fresh)")
    eng.assume(z3.And(*[SP[k](ref.z) == to_z3(p, "real") for k, p in enumerate(ps)]))
    log_call(eng, "RangeSampler", ref=ref, params=ps)
    return ref


def _b_int_trunc(eng, args, kwargs):
    (v,) = args
    if isinstance(v, Sym) and v.kind == "real":
        used(eng, "int(x) truncates toward zero")
        return Sym(z3.If(v.z >= 0, z3.ToInt(v.z), -z3.ToInt(-v.z)), "int")
    return BUILTIN_MODELS[int](eng, args, kwargs)


# ====================================================================================================================
# Added for the save/load half of C20 (readers, dispatch on the file name, frame writer).  Every model below is a
# RECORDING model: it returns the contract's ghost file content / an uninterpreted function of its arguments and writes
# the call into the ghost call log; nothing about the bytes of a file is modelled.
# ====================================================================================================================
from .ext_C19 import EXISTS, EXTOF, STEM, StrRef, intern_str, zref  # noqa: E402  (symbolic strings: references; constants are interned)

_I, _B = z3.IntSort(), z3.BoolSort()
ISDIR = z3.Function("path_isdir", _I, _B)            # os.path.isdir(p)
LISTDIR = z3.Function("dir_listing", _I, _I)         # os.listdir(p): reference of a names sequence
DLEN = z3.Function("listing_len", _I, _I)            # its length
DNAME = z3.Function("listing_at", _I, _I, _I)        # its j-th name
REMATCH = z3.Function("re_match", _I, _I, _B)        # compiled pattern (interned by its source text) matches at the start of the string


def _dim(z):
    z = z3.simplify(z)
    return z.as_long() if z3.is_int_value(z) else Sym(z, "int")


def _zdim(d):
    return d.z if isinstance(d, Sym) else zint(d)


def slice_bounds(sl, n):
    """(start, length) of sl over an axis of extent n (z3 Int terms): slice.indices(n) for step 1 / None"""
    if sl.step is not None and not (isinstance(sl.step, int) and not isinstance(sl.step, bool) and sl.step == 1):
        raise Unsupported("slice of an image array with a step other than 1")

    def clamp(v, default):
        if v is None:
            return default
        if isinstance(v, bool) or not (isinstance(v, (int, np.integer)) or (isinstance(v, Sym) and v.kind == "int")):
            raise Unsupported("slice bound of this type")
        z = to_z3(v if isinstance(v, Sym) else int(v), "int")
        return z3.If(z < 0, z3.If(z + n < 0, z3.IntVal(0), z + n), z3.If(z > n, n, z))

    start, stop = clamp(sl.start, z3.IntVal(0)), clamp(sl.stop, n)
    return start, z3.If(stop > start, stop - start, z3.IntVal(0))


def basic_index(eng, a, idx):
    """numpy basic indexing of an opaque image array: integers (negative ones count from the end, out of range raises
    IndexError), slices with step 1, one Ellipsis.  The result of an all-integer index is the element; otherwise a VIEW
    (in-place updates of an array that has views are refused, so sharing never has to be tracked)."""
    used(eng, "ndarray basic indexing (ints, step-1 slices, Ellipsis): out[j] = in[start + j] per sliced axis, integer axes dropped, negative ints "
              "count from the end, IndexError out of range, slice bounds clamp as slice.indices does")
    key = idx if isinstance(idx, tuple) else (idx,)
    if any(k is None for k in key):
        raise Unsupported("np.newaxis in an image array index")
    if any(isinstance(k, (ImgArr, NArr, SArr, PList, list)) for k in key):
        raise Unsupported("advanced (array) indexing of an opaque image array")
    n_ell = sum(1 for k in key if k is Ellipsis)
    if n_ell > 1:
        raise ProgExc(IndexError, "an index can only have a single ellipsis ('...')")
    n_real = len(key) - n_ell
    if n_real > a.ndim:
        raise ProgExc(IndexError, f"too many indices for array: array is {a.ndim}-dimensional, but {n_real} were indexed")
    full = []
    for k in key:
        if k is Ellipsis:
            full.extend([slice(None)] * (a.ndim - n_real))
        else:
            full.append(k)
    full.extend([slice(None)] * (a.ndim - len(full)))
    plan, shape = [], []  # per source axis: ("int", pos) | ("slice", start, out_axis)
    for d, k in enumerate(full):
        n = _zdim(a.shape[d])
        if isinstance(k, slice):
            if k.start is None and k.stop is None and (k.step is None or k.step == 1):
                plan.append(("slice", z3.IntVal(0), len(shape)))
                shape.append(a.shape[d])
                continue
            start, length = slice_bounds(k, n)
            plan.append(("slice", z3.simplify(start), len(shape)))
            shape.append(_dim(length))
        elif isinstance(k, bool) or not (isinstance(k, (int, np.integer)) or (isinstance(k, Sym) and k.kind == "int")):
            raise Unsupported(f"image array index of type {type(k).__name__}")
        else:
            i = to_z3(k if isinstance(k, Sym) else int(k), "int")
            if not eng.spec_mode:
                if not eng.branch(eng.sbool(z3.And(i >= -n, i < n))):
                    raise ProgExc(IndexError, f"index out of bounds for axis {d}")
            plan.append(("int", z3.simplify(z3.If(i < 0, i + n, i))))

    def elem(jx, _e=a.elem, _plan=tuple(plan)):
        ix = []
        for p in _plan:
            ix.append(p[1] if p[0] == "int" else (jx[p[2]] if z3.is_int_value(p[1]) and p[1].as_long() == 0 else p[1] + jx[p[2]]))
        return _e(ix)

    if not shape:
        return Sym(elem([]), "real")
    a.has_views = True
    out = ImgArr(shape, a.dtype, elem, a.name)
    out.is_view = True
    out.frozen = a.frozen
    return out


# ------------------------------------------------------------------ paths, directory listings, regular expressions
def _path_exists(eng, args, kwargs):
    used(eng, "os.path.exists(p) / os.path.isdir(p): uninterpreted predicates of the path (the file system is not modelled and does not change during a call)")
    return eng.sbool(EXISTS(zref(args[0])))


def _path_isdir(eng, args, kwargs):
    used(eng, "os.path.exists(p) / os.path.isdir(p): uninterpreted predicates of the path (the file system is not modelled and does not change during a call)")
    return eng.sbool(ISDIR(zref(args[0])))


def _path_splitext(eng, args, kwargs):
    import os

    p = args[0]
    if isinstance(p, str):
        return os.path.splitext(p)  # a concrete name: the real function
    used(eng, "os.path.splitext(p) of a symbolic name: a pair of uninterpreted functions (stem, extension) of p")
    z = zref(p)
    return (StrRef(STEM(z)), StrRef(EXTOF(z)))


def _names_seq(eng, v):
    z = zref(v)
    eng.assume(DLEN(z) >= 0)
    return DLEN(z), (lambda k: StrRef(DNAME(z, to_z3(k, "int"))))


def _os_listdir(eng, args, kwargs):
    from .values import Opaque

    used(eng, "os.listdir(p): a finite sequence of names determined by p (listing_len >= 0)")
    z = LISTDIR(zref(args[0]))
    eng.assume(DLEN(z) >= 0)
    return Opaque(z, {"__iter_seq__": _names_seq})


def re_match_model(pattern):
    """model of `compiled.match(s)` used only for its truth value: an uninterpreted predicate of (pattern text, s)"""
    pz = intern_str("re:" + pattern.pattern)

    def model(eng, args, kwargs):
        used(eng, "re.Pattern.match(s) of a symbolic string, used for its truth value only: an uninterpreted predicate re_match(pattern, s)")
        s = args[0]
        if isinstance(s, str):
            return pattern.match(s)
        return eng.sbool(REMATCH(pz, zref(s)))

    return model


def _any_model(stock):
    def model(eng, args, kwargs):
        v = args[0]
        seq = v.seq if isinstance(v, Iter) else v
        if isinstance(seq, PList) and seq.items is None and list(seq.kinds) == ["bool"] and not seq.tup:
            used(eng, "any(bools of a symbolic-length sequence) = exists position j < n with the j-th value true")
            if isinstance(v, Iter):
                v.consumed = True
            j = z3.Int(fresh_name("aj"))
            return eng.sbool(z3.Exists([j], z3.And(j >= 0, j < zint(seq.n), z3.Select(seq.cols[0], j))))
        return stock(eng, args, kwargs)

    return model


# ------------------------------------------------------------------ readers of other formats (third party: recording models)
def _ghost_file(eng, key, what):
    c = eng.spec_extra.get(key)
    if c is None:
        raise Unsupported(f"no `{key}` ghost in the contract setup ({what})")
    return c


def _nrrd_read(eng, args, kwargs):
    used(eng, "nrrd.read(filename, custom_field_map=None, index_order='F') -> (data, header): data is the file's array in the NRRD axis order "
              "(fastest axis first) for index_order='F' and with the axes reversed for 'C'; header is an opaque mapping (ghost file content, call recorded)")
    names = ["filename", "custom_field_map", "index_order"]
    if len(args) > 3 or any(k not in names for k in kwargs) or any(names[i] in kwargs for i in range(len(args))):
        raise ProgExc(TypeError, "nrrd.read() arguments")
    b = dict(zip(names, args))
    b.update(kwargs)
    if "filename" not in b:
        raise ProgExc(TypeError, "nrrd.read() missing filename")
    order = b.get("index_order", "F")
    data, header = _ghost_file(eng, "nrrd_content", "nrrd.read")
    log_call(eng, "nrrd.read", file=b["filename"], kwargs={k: v for k, v in b.items() if k != "filename"}, nargs=len(args))
    if order == "F":
        return (data, header)
    if order == "C":
        return (data._permuted(list(range(data.ndim))[::-1]), header)
    raise ProgExc(Exception, "NRRDError: Invalid index order")


def _np_load(eng, args, kwargs):
    used(eng, "np.load(file): returns the array stored in the .npy file (ghost file content, call recorded)")
    if len(args) != 1:
        raise Unsupported("np.load call form")
    log_call(eng, "np.load", file=args[0], kwargs=dict(kwargs))
    return _ghost_file(eng, "npy_content", "np.load")


class V3dLoader:
    """v3dpy.loaders.Raw() / PBD(): `.load(path)` returns the file's array indexed [c, z, y, x] (v3dpy reshapes the
    x-fastest byte stream to the REVERSED header sizes), given by the ghost `v3d_content`"""

    def __init__(self, kind):
        self.kind = kind

    def __pyvc_getattr__(self, eng, name):
        if name == "load":
            def load(e, r, a, k):
                if len(a) != 1 or k:
                    raise Unsupported("v3dpy load call form")
                log_call(e, f"v3dpy.{r.kind}.load", file=a[0])
                return _ghost_file(e, "v3d_content", "v3dpy load")

            return NativeMethod(load, self, name)
        raise Unsupported(f"v3dpy.{self.kind}.{name}")


def _v3d_ctor(kind):
    def model(eng, args, kwargs):
        used(eng, "v3dpy.loaders.Raw() / PBD(): loader objects; .load(path) returns the file's array with axes (C, Z, Y, X) = reversed header "
                  "sizes, as v3dpy documents and does (decoding is compiled code: ghost file content, call recorded)")
        log_call(eng, f"v3dpy.{kind}", args=tuple(args), kwargs=dict(kwargs))
        return V3dLoader(kind)

    return model


# ------------------------------------------------------------------ tifffile.TiffWriter (frame by frame)
class TiffWriterHandle:
    def __init__(self, fname, kwargs):
        self.fname, self.kwargs, self.opened = fname, kwargs, False

    def __pyvc_getattr__(self, eng, name):
        if name == "__enter__":
            def enter(e, r, a, k):
                log_call(e, "TiffWriter.__enter__", file=r.fname)
                r.opened = True
                return r

            return NativeMethod(enter, self, name)
        if name == "__exit__":
            def exit_(e, r, a, k):
                log_call(e, "TiffWriter.__exit__", file=r.fname)
                r.opened = False
                return False

            return NativeMethod(exit_, self, name)
        if name == "write":
            def write(e, r, a, k):
                if not r.opened:
                    raise ProgExc(ValueError, "I/O operation on closed file")
                kw = {x: (PDict(dict(v.items)) if isinstance(v, PDict) and v.items is not None else v) for x, v in k.items()}
                seq = e.ghost.setdefault("tiff_pages", [])
                seq.append(dict(file=r.fname, data=a[0] if a else k.get("data"), kwargs=kw, nargs=len(a)))
                hook = e.ghost.get("tiff_page_hook")  # contract ghost code: keeps a symbolic log of the pages written inside a cut loop
                if hook is not None:
                    hook(e, seq[-1])
                else:
                    log_call(e, "TiffWriter.write", **seq[-1])
                return None

            return NativeMethod(write, self, name)
        raise Unsupported(f"TiffWriter.{name}")


def _tiff_writer(eng, args, kwargs):
    used(eng, "tifffile.TiffWriter(file): context manager; .write(frame, **options) appends one page with the given options (calls recorded in order)")
    if len(args) != 1:
        raise Unsupported("TiffWriter call form")
    log_call(eng, "tifffile.TiffWriter", file=args[0], kwargs=dict(kwargs))
    return TiffWriterHandle(args[0], kwargs)


# ------------------------------------------------------------------ np.stack of a symbolic number of frames
STACK0 = z3.Function("np_stack_axis0", z3.ArraySort(_I, _I), _I, _I)  # (frames column, count) -> the stacked array (a reference)
STACKN = z3.Function("np_stack_axis", z3.ArraySort(_I, _I), _I, _I, _I)  # the same along another axis (kept apart: a different array)


def _np_stack_frames(stock):
    def model(eng, args, kwargs):
        v = args[0] if args else kwargs.get("arrays")
        if isinstance(v, PList) and v.items is None and list(v.kinds) == ["ref"] and not v.tup:
            axis = kwargs.get("axis", args[1] if len(args) > 1 else 0)
            if not isinstance(axis, int) or isinstance(axis, bool):
                raise Unsupported("np.stack with a non-constant axis")
            used(eng, "np.stack(frames, axis) of a symbolic number of frames: a reference determined by the frames in order, their count and the axis "
                      "(axis 0: out[j] = frames[j]; equal frame shapes are numpy's own precondition)")
            log_call(eng, "np.stack", frames=v, axis=axis)
            if axis == 0:
                return Sym(STACK0(v.cols[0], zint(v.n)), "ref")
            return Sym(STACKN(v.cols[0], zint(v.n), z3.IntVal(axis)), "ref")
        return stock(eng, args, kwargs)

    return model


def install():
    from . import narr

    for t in (np.float64, np.float32, np.float16):
        EXTRA_MODELS[t] = _np_scalar_ctor(t)
    EXTRA_MODELS[np.dtype] = _np_dtype
    EXTRA_MODELS[np.moveaxis] = _np_moveaxis
    EXTRA_MODELS[np.expand_dims] = _np_expand_dims
    EXTRA_MODELS[np.argsort] = _np_argsort
    EXTRA_MODELS[np.floor] = _floor_ceil(True)
    EXTRA_MODELS[np.ceil] = _floor_ceil(False)
    EXTRA_MODELS[np.min] = _col_extreme(True, narr.NP_MODELS[np.min])
    EXTRA_MODELS[np.max] = _col_extreme(False, narr.NP_MODELS[np.max])
    EXTRA_MODELS[int] = _b_int_trunc
    EXTRA_METHODS[(SArr, "reshape")] = _sarr_reshape
    _install_io()
    try:
        import tifffile

        EXTRA_MODELS[tifffile.imwrite] = _imwrite
        EXTRA_MODELS[tifffile.TiffFile] = _tifffile_open
    except ImportError:  # pragma: no cover
        pass
    try:
        import sdflit

        EXTRA_MODELS[sdflit.Sphere] = _sphere
        EXTRA_MODELS[sdflit.RoundCone] = _round_cone
        EXTRA_MODELS[sdflit.SDFObject] = _sdf_object
        EXTRA_MODELS[sdflit.RangeSampler] = _range_sampler
        EXTRA_MODELS[sdflit.ColoredMaterial] = _colored_material
        EXTRA_MODELS[sdflit.ObjectsScene] = _objects_scene
    except ImportError:  # pragma: no cover
        pass


def _np_add(eng, args, kwargs):
    """np.add(a, b) = a + b after np.asarray of list arguments (fixed-length vectors only)"""
    if len(args) != 2 or kwargs:
        raise Unsupported("np.add call form")
    from .models import lookup_model

    vals = []
    for v in args:
        if isinstance(v, PList):
            v = lookup_model(np.array)(eng, [v], {})
        vals.append(v)
    if not any(isinstance(v, NArr) for v in vals):
        raise Unsupported("np.add on these operands")
    used(eng, "np.add(a, b) on fixed-length vectors = a + b elementwise (np.asarray of list arguments)")
    return eng.binop(ast.Add(), vals[0], vals[1])


# ------------------------------------------------------------------ frames as values, partially consumed iterators (itertools.islice / chain)
FRAME_NEWAXIS0 = z3.Function("frame_with_leading_axis", z3.IntSort(), z3.IntSort())  # ghost: frame[np.newaxis], the (1, X, Y) block holding the frame


def _frame_getitem(eng, base, args, kwargs):
    (idx,) = args
    key = idx if isinstance(idx, tuple) else (idx,)
    if len(key) in (1, 2) and key[0] is None and all(k is Ellipsis for k in key[1:]):
        used(eng, "frame[np.newaxis]: the array with a leading axis of extent 1 and the same pixels (a ghost function of the frame: frame_with_leading_axis)")
        return Opaque(FRAME_NEWAXIS0(base.z), FRAME_PROTO)
    raise Unsupported("subscript form on a frame reference")


FRAME_PROTO = {"__getitem__": _frame_getitem}


def frame_list(eng, lst):
    """loop-contract `types` promotion of a list of frames: references that can be subscripted with np.newaxis"""
    lst.promote("ref")
    lst.proto = FRAME_PROTO


class SuffixSeq:
    """what is left of a sequence of symbolic length after its first `start` entries were taken (start: concrete)"""

    def __init__(self, base, start):
        self.base, self.start = base, start

    def __pyvc_sequence__(self, eng):
        from .models import as_sequence

        n, getter = as_sequence(eng, self.base)
        nz = n.z if isinstance(n, Sym) else zint(n)
        left = z3.simplify(z3.If(nz >= self.start, nz - self.start, z3.IntVal(0)))
        return (left.as_long() if z3.is_int_value(left) else left), (lambda k: getter(Sym(z3.simplify(to_z3(k, "int") + self.start), "int")))

    def __pyvc_snapshot__(self, memo):
        return self


def _islice(eng, args, kwargs):
    """itertools.islice(iterator, stop) with a concrete stop: LAZY like the real one - the entries are taken from the iterator when the
    result is consumed by list(...) (the only consumer modelled); the path forks on how many entries the iterator still has (0 .. stop)"""
    if kwargs or len(args) != 2 or isinstance(args[1], bool) or not isinstance(args[1], int) or args[1] < 0:
        raise Unsupported("itertools.islice call form (only islice(iterator, <constant stop>))")
    it, stop = args
    if not isinstance(it, Iter):
        raise Unsupported("itertools.islice of something that is not a one-shot iterator")
    used(eng, "itertools.islice(iterator, stop): the first min(stop, remaining) entries, in order, taken from the iterator when the result is listed; the iterator keeps the rest")

    def take(e, recv):
        from .models import as_sequence

        if it.consumed:
            return PList([])
        seq = it.seq
        if isinstance(seq, PList) and seq.items is not None:
            head, it.seq = seq.items[:stop], PList(seq.items[stop:])
            return PList(head)
        n, getter = as_sequence(e, seq)
        nz = n.z if isinstance(n, Sym) else zint(n)
        taken = []
        for j in range(stop):
            if not e.branch(e.sbool(nz > j)):
                break
            taken.append(getter(Sym(z3.IntVal(j), "int")))
        it.seq = SuffixSeq(seq, len(taken))
        return PList(taken)

    return Opaque(z3.Const(fresh_name("islice"), z3.IntSort()), {"__list__": take})


class ChainSeq:
    """itertools.chain(a, b, ...): LAZY - lengths and entries of the parts are read when the chain is iterated (by a `for` loop that is
    cut by invariants); parts: concrete lists, symbolic lists, one-shot iterators (consumed by the iteration)"""

    def __init__(self, parts):
        self.parts = parts

    def __pyvc_sequence__(self, eng):
        from .models import as_sequence

        segs, total = [], z3.IntVal(0)
        for p in self.parts:
            if isinstance(p, PList) and p.items is not None:
                items = list(p.items)
                n, g = len(items), (lambda k, _it=items: _pick(_it, k))
            elif isinstance(p, Iter) and p.consumed:
                continue
            else:
                n, g = as_sequence(eng, p)
                if isinstance(p, Iter):
                    p.consumed = True  # the loop runs the chain to its end
            nz = n.z if isinstance(n, Sym) else zint(n)
            segs.append((total, nz, g))
            total = z3.simplify(total + nz)

        def getter(k):
            kz = to_z3(k, "int")
            proto, out = None, None
            for off, nz, g in reversed(segs):
                v = g(Sym(z3.simplify(kz - off), "int"))
                if isinstance(v, Opaque):
                    proto, vz = v.proto, v.z
                elif isinstance(v, Sym) and v.kind in ("ref", "int"):
                    vz = v.z
                else:
                    raise Unsupported("itertools.chain over entries that are neither references nor integers")
                out = vz if out is None else z3.If(kz < off + nz, vz, out)
            if out is None:
                return None
            out = z3.simplify(out)
            return Opaque(out, proto) if proto is not None else Sym(out, "ref")

        return (total.as_long() if z3.is_int_value(total) else total), getter

    def __pyvc_snapshot__(self, memo):
        return self


def _pick(items, k):
    """entry k (symbolic) of a short concrete list of references"""
    if not items:
        return Sym(z3.IntVal(0), "ref")
    kz = to_z3(k, "int")
    proto = next((x.proto for x in items if isinstance(x, Opaque)), None)
    if any(not (isinstance(x, Opaque) or (isinstance(x, Sym) and x.kind in ("ref", "int"))) for x in items):
        raise Unsupported("itertools.chain over entries that are neither references nor integers")
    z = items[-1].z
    for j in range(len(items) - 2, -1, -1):
        z = z3.If(kz == j, items[j].z, z)
    return Opaque(z, proto) if proto is not None else Sym(z, "ref")


def _chain(stock):
    def model(eng, args, kwargs):
        if kwargs:
            raise Unsupported("itertools.chain call form")
        symbolic = any((isinstance(a, Iter) and not (isinstance(a.seq, PList) and a.seq.items is not None)) or (isinstance(a, PList) and a.items is None) or isinstance(a, SuffixSeq) for a in args)
        if not symbolic:
            return stock(eng, args, kwargs)
        used(eng, "itertools.chain(a, b, ...) = the entries of a, then of b, ... in order (lazy: read when the chain is iterated; one-shot iterators among the parts are consumed by it)")
        return ChainSeq(list(args))

    return model


class MemoFn:
    """functools.cache(f) / functools.lru_cache(maxsize=m)(f): a callable that returns what f returns (a call runs f's body; that repeated
    calls with one argument are answered from the cache is invisible as long as f is a function of its arguments and of state that does not
    change - here: the file system, which is assumed not to change during a call)."""

    def __init__(self, func, maxsize):
        self.func, self.maxsize = func, maxsize

    def __pyvc_call__(self, eng, args):
        return eng.call(self.func, list(args), {})

    def __pyvc_snapshot__(self, memo):
        return self


def _functools_cache(eng, args, kwargs):
    used(eng, "functools.cache / functools.lru_cache(maxsize): the decorated function, memoised (same results; the memoised functions read the file system, assumed unchanged)")
    if len(args) != 1 or kwargs:
        raise Unsupported("functools.cache call form")
    return MemoFn(args[0], None)


def _functools_lru_cache(eng, args, kwargs):
    used(eng, "functools.cache / functools.lru_cache(maxsize): the decorated function, memoised (same results; the memoised functions read the file system, assumed unchanged)")
    if args and (isinstance(args[0], Func) or callable(args[0])) and not kwargs and len(args) == 1 and not isinstance(args[0], (int, Sym)):
        return MemoFn(args[0], 128)  # @lru_cache without parentheses
    names = ["maxsize", "typed"]
    if len(args) > 2 or any(k not in names for k in kwargs):
        raise ProgExc(TypeError, "lru_cache() arguments")
    b = dict(zip(names, args))
    b.update(kwargs)
    maxsize = b.get("maxsize", 128)
    if not (maxsize is None or isinstance(maxsize, int) or (isinstance(maxsize, Sym) and maxsize.kind == "int")):
        raise ProgExc(TypeError, "Expected first argument to be an integer, a callable, or None")

    def deco(e, recv, a, k):
        if len(a) != 1 or k:
            raise Unsupported("lru_cache(...) applied to something that is not one function")
        return MemoFn(a[0], maxsize)

    return NativeMethod(deco, None, "lru_cache(maxsize)")


def _install_io():
    import functools
    import os

    EXTRA_MODELS[np.add] = _np_add
    EXTRA_MODELS[functools.cache] = _functools_cache
    import itertools

    EXTRA_MODELS[itertools.islice] = _islice
    EXTRA_MODELS[itertools.chain] = _chain(BUILTIN_MODELS[itertools.chain])
    EXTRA_MODELS[functools.lru_cache] = _functools_lru_cache

    from . import narr

    EXTRA_MODELS[os.path.exists] = _path_exists
    EXTRA_MODELS[os.path.isdir] = _path_isdir
    EXTRA_MODELS[os.path.splitext] = _path_splitext
    EXTRA_MODELS[os.listdir] = _os_listdir
    EXTRA_MODELS[any] = _any_model(BUILTIN_MODELS[any])
    EXTRA_MODELS[np.load] = _np_load
    EXTRA_MODELS[np.stack] = _np_stack_frames(narr.NP_MODELS[np.stack])
    try:
        import nrrd

        EXTRA_MODELS[nrrd.read] = _nrrd_read
    except ImportError:  # pragma: no cover
        pass
    try:
        from v3dpy.loaders import PBD, Raw

        EXTRA_MODELS[Raw] = _v3d_ctor("Raw")
        EXTRA_MODELS[PBD] = _v3d_ctor("PBD")
    except ImportError:  # pragma: no cover
        pass
    try:
        import tifffile

        EXTRA_MODELS[tifffile.TiffWriter] = _tiff_writer
    except ImportError:  # pragma: no cover
        pass
    try:
        from swcgeom.images import io as _io

        EXTRA_MODELS[_io.RE_TERAFLY_ROOT.match] = re_match_model(_io.RE_TERAFLY_ROOT)
    except ImportError:  # pragma: no cover
        pass
