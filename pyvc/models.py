"""Models (assumed contracts) of Python builtins and containers.

Every model that encodes *library* behaviour registers its name in
engine.assumptions, so evidence lists it under trusted_base.
numpy / pandas models live in pyvc.npmodels and are pulled in lazily.
"""
from __future__ import annotations

import ast
import builtins
import collections
import itertools
import warnings as _warnings
from fractions import Fraction

import z3

from .engine import BreakSig, ContinueSig, Frame, ProgExc, ReturnSig, Unsupported
from .values import (
    Bound, Callback, DictListRef, Func, Iter, NArr, NativeMethod, Obj, Opaque, PDict, PList, SArr,
    Sym, fresh, fresh_name, is_scalar, kind_of, sort_of, to_z3, zint, frac,
)


class SymStr:
    """A string with symbolic parts (only ever used as a message / opaque text)."""

    def __init__(self, parts):
        self.parts = parts

    def __repr__(self):
        return "SymStr(" + "".join(p if isinstance(p, str) else "{?}" for p in self.parts) + ")"

    # a structured text is a string: its methods / concatenation are those of the abstract-string model (pyvc/strmodel.py)
    def __pyvc_getattr__(self, eng, name):
        from . import strmodel

        return strmodel.method(eng, self, name)

    def __pyvc_binop__(self, eng, op, a, b):
        from . import strmodel

        if isinstance(op, ast.Add) and strmodel.is_strlike(a) and strmodel.is_strlike(b):
            return SymStr(strmodel.flatten(a) + strmodel.flatten(b))
        if isinstance(op, ast.Add) and isinstance(a, tuple) and type(a) is not tuple:
            return a + b  # a contract module's own structured-text class (tuple subclass with __add__)
        if isinstance(op, ast.Add) and isinstance(b, tuple) and type(b) is not tuple:
            return a + b
        raise Unsupported(f"{type(op).__name__} on a structured string")

    def __pyvc_isinstance__(self, cls):
        return cls is str


class FmtPiece:
    """format(v, spec) of a symbolic scalar: kept structured for contracts."""

    def __init__(self, value, spec):
        self.value = value
        self.spec = spec


# ------------------------------------------------------------------ helpers
def norm_index(eng, i, n, what="index"):
    """Python index normalisation with a bounds obligation.  Returns a z3 Int."""
    nz = zint(n) if not isinstance(n, Sym) else n.z
    if isinstance(i, (int,)) and not isinstance(i, bool):
        iz = z3.IntVal(i) if i >= 0 else nz + i
        if not eng.spec_mode:
            cond = z3.And(iz >= 0, iz < nz)
            g = z3.simplify(cond)
            if z3.is_false(g):
                raise ProgExc(IndexError, what)
            if not z3.is_true(g):
                if not eng.branch(eng.sbool(cond)):
                    raise ProgExc(IndexError, what)
        return iz
    if isinstance(i, Sym):
        iz = to_z3(i, "int")
        if not eng.spec_mode:
            ok = eng.sbool(z3.And(iz >= 0, iz < nz))
            if eng.strict_index:
                eng.prove(eng.site("index-in-bounds"), ok, "safety", what)
            else:
                neg = eng.sbool(z3.And(iz < 0, iz >= -nz))
                if eng.branch(ok):
                    return iz
                if eng.branch(neg):
                    return iz + nz
                raise ProgExc(IndexError, what)
        return iz
    try:
        import numpy as np

        if isinstance(i, np.integer):
            return norm_index(eng, int(i), n, what)
    except ImportError:  # pragma: no cover
        pass
    raise Unsupported(f"index of type {type(i).__name__}")


def all_concrete(args, kwargs):
    def ok(v):
        if isinstance(v, (Sym, SArr, Obj, Opaque, Func, Bound, Callback, Iter, DictListRef, SymStr, NativeMethod)):
            return False
        if isinstance(v, PList):
            return v.items is not None and all(ok(x) for x in v.items)
        if isinstance(v, PDict):
            return v.items is not None and all(ok(x) for x in v.items.values())
        if isinstance(v, NArr):
            return all(ok(x) for x in v.items)
        if isinstance(v, (tuple, list)):
            return all(ok(x) for x in v)
        return True

    return all(ok(a) for a in args) and all(ok(v) for v in kwargs.values())


def unwrap(v):
    if isinstance(v, PList):
        return [unwrap(x) for x in v.items]
    if isinstance(v, PDict):
        return {k: unwrap(x) for k, x in v.items.items()}
    if isinstance(v, tuple):
        return tuple(unwrap(x) for x in v)
    if isinstance(v, Fraction):
        return float(v) if v.denominator != 1 else int(v)
    return v


def wrap_native(v):
    if isinstance(v, float):
        return frac(v)
    if isinstance(v, list):
        return PList([wrap_native(x) for x in v])
    if isinstance(v, dict):
        return PDict({k: wrap_native(x) for k, x in v.items()})
    if isinstance(v, tuple):
        return tuple(wrap_native(x) for x in v)
    return v


_PURE = {
    len, abs, min, max, sum, sorted, str, int, float, bool, repr, isinstance, issubclass, range, tuple,
    divmod, round, hash, id, type, getattr, hasattr, callable, any, all, chr, ord, format,
}


def is_pure_native(fn):
    if fn in _PURE:
        return True
    mod = getattr(fn, "__module__", None)
    slf = getattr(fn, "__self__", None)
    if isinstance(slf, (str, bytes, tuple, int, float, Fraction, frozenset, range, slice)):
        return True
    if mod in ("os.path", "posixpath", "math", "re", "operator"):
        return True
    return False


# -------------------------------------------------------------- iteration
def iterate_concrete(eng, v):
    if isinstance(v, (tuple, list)):
        return list(v)
    if isinstance(v, Obj) and "__items__" in v.fields:
        return list(v.fields["__items__"].items)
    if isinstance(v, Obj):  # instance of a repository class that defines __iter__ (e.g. `for n in tree`)
        r = eng.find_method(v.cls, "__iter__")
        if r is not None and r[0] == "func" and eng.func_from_py(r[1], r[2]) is not None:
            return iterate_concrete(eng, eng.call(eng.getattr_(v, "__iter__"), [], {}))
    if isinstance(v, PList):
        if v.items is not None:
            return list(v.items)
        raise Unsupported("symbolic-length list where a concrete length is required")
    if isinstance(v, PDict):
        if v.items is not None:
            return list(v.items.keys())
        raise Unsupported("symbolic dict iteration")
    if isinstance(v, NArr):
        from . import npmodels

        return npmodels.narr_rows(eng, v)
    if isinstance(v, SArr) and isinstance(v.n, int) and not isinstance(v.n, bool):  # a 1-D array of exactly n cells
        return [v.get(j) for j in range(v.n)]
    if isinstance(v, (range, str, dict, set, frozenset)):
        return list(v)
    if type(v).__name__ == "S2Arr" and v.transposed:  # k x n with concrete k: iterating / unpacking gives its k rows
        return [v.__pyvc_getitem__(eng, i) for i in range(v.k)]
    if isinstance(v, Iter):
        if v.consumed:
            return []
        items = iterate_concrete(eng, v.seq)  # may be refused (symbolic length): the iterator is then NOT consumed yet
        v.consumed = True
        return items
    if isinstance(v, _Zip):
        cols = [iterate_concrete(eng, s) for s in v.seqs]
        return [tuple(t) for t in zip(*cols)]
    if isinstance(v, _Enum):
        return [(i + v.start, x) for i, x in enumerate(iterate_concrete(eng, v.seq))]
    if isinstance(v, _MapIt):
        return [eng.call(v.fn, [x], {}) for x in iterate_concrete(eng, v.seq)]
    if isinstance(v, _SymRange):
        raise Unsupported("symbolic range where a concrete length is required")
    if type(v).__name__ in ("dict_keys", "dict_values", "dict_items", "zip", "enumerate", "map", "filter", "generator", "chain"):
        return [wrap_native(x) for x in v]
    raise Unsupported(f"iteration over {type(v).__name__}")


class _SymRange:
    def __init__(self, lo, hi, step=1):
        self.lo, self.hi, self.step = lo, hi, step  # step: concrete non-zero int


class _Zip:
    def __init__(self, seqs):
        self.seqs = seqs


class _Enum:
    def __init__(self, seq, start=0):
        self.seq, self.start = seq, start


class _MapIt:
    def __init__(self, fn, seq):
        self.fn, self.seq = fn, seq


def as_sequence(eng, v):
    """(length, getter(k: Sym) -> element) for a symbolic-length iterable."""
    if isinstance(v, Iter):
        if v.consumed:
            return 0, lambda k: None
        return as_sequence(eng, v.seq)
    if isinstance(v, SArr):
        return v.n, v.get
    if isinstance(v, PList):
        if v.items is None:
            return v.n, v.get
        items = v.items
        if not items:
            return 0, (lambda k: None)
        if all(kind_of(x) is not None for x in items) and items:
            k0 = "real" if any(kind_of(x) == "real" for x in items) else kind_of(items[0])

            def g(k):
                z = to_z3(items[-1], k0)
                for j in range(len(items) - 2, -1, -1):
                    z = z3.If(k.z == j, to_z3(items[j], k0), z)
                return Sym(z, k0)

            return len(items), g
        raise Unsupported("invariant-cut loop over a concrete list of non-scalars")
    if isinstance(v, DictListRef):
        return v.nz(), v.get
    if type(v) is tuple:  # a tuple of values (e.g. the default of `d.get(k, ())`): the list of the same elements
        return as_sequence(eng, PList(list(v)))
    if isinstance(v, _SymRange):
        lo, hi = to_z3(v.lo, "int"), to_z3(v.hi, "int")
        st = v.step
        if st == 1:
            n = z3.If(hi >= lo, hi - lo, z3.IntVal(0))
            return z3.simplify(n), lambda k: eng.snum(lo + k.z, "int")
        # len(range(lo, hi, st)) by CPython's definition (get_len_of_range): ceil((hi - lo) / st) if positive, else 0
        if st > 0:
            n = z3.If(hi > lo, (hi - lo - 1) / st + 1, z3.IntVal(0))
        else:
            n = z3.If(lo > hi, (lo - hi - 1) / (-st) + 1, z3.IntVal(0))
        return z3.simplify(n), lambda k: eng.snum(lo + k.z * st, "int")
    if isinstance(v, range):
        if v.step != 1:
            raise Unsupported("range step")
        return len(v), lambda k: eng.snum(z3.IntVal(v.start) + k.z, "int")
    if isinstance(v, _Zip):
        subs = [as_sequence(eng, s) for s in v.seqs]
        n = subs[0][0]
        for m, _ in subs[1:]:
            if not _same_len(n, m):
                nz, mz = _lenz(n), _lenz(m)
                n = z3.simplify(z3.If(nz <= mz, nz, mz))
        return n, lambda k: tuple(g(k) for _, g in subs)
    if isinstance(v, _Enum):
        n, g = as_sequence(eng, v.seq)
        return n, lambda k: (eng.snum(k.z + v.start, "int"), g(k))
    if isinstance(v, _MapIt):  # map(fn, S) over a symbolic-length S: element k is fn(S[k]), evaluated where the element is requested
        n, g = as_sequence(eng, v.seq)
        return n, lambda k: eng.call(v.fn, [g(k)], {})
    if isinstance(v, Opaque) and "__iter_seq__" in v.proto:
        return v.proto["__iter_seq__"](eng, v)
    if isinstance(v, _DictItems) and v.d.items is None:
        return dict_enumeration(eng, v.d)
    if hasattr(v, "__pyvc_sequence__"):  # extension value that is a (possibly lazy) sequence: (length, getter)
        return v.__pyvc_sequence__(eng)
    if isinstance(v, Obj) and "__items__" not in v.fields:  # instance of a repository class that defines __iter__
        r = eng.find_method(v.cls, "__iter__")
        if r is not None and r[0] == "func" and eng.func_from_py(r[1], r[2]) is not None:
            return as_sequence(eng, eng.call(eng.getattr_(v, "__iter__"), [], {}))
    if hasattr(v, "__pyvc_iter_seq__"):  # extension values: (length, getter) of their own enumeration
        return v.__pyvc_iter_seq__(eng)
    raise Unsupported(f"symbolic iteration over {type(v).__name__}")


def dict_enumeration(eng, d):
    """Iteration over the items of a symbolic dict: a ghost enumeration ks[0..m) of its keys
    (each key of the domain exactly once; the order is left unconstrained, which is weaker
    than CPython's insertion order and therefore sound for any order-independent client).
    The enumeration is recorded in eng.ghost[("dictkeys", d.uid)] = (ks, m, pos)."""
    key = ("dictkeys", d.uid, d.dom.get_id())
    if key not in eng.ghost:
        tag = fresh_name("ks")
        ks = z3.Function(tag, z3.IntSort(), z3.IntSort())
        pos = z3.Function(tag + "_pos", z3.IntSort(), z3.IntSort())
        m = z3.Int(tag + "_m")
        j, q = z3.Int("j_" + tag), z3.Int("q_" + tag)
        eng.assume(m >= 0)
        eng.assume(z3.ForAll([j], z3.Implies(z3.And(j >= 0, j < m), z3.And(z3.Select(d.dom, ks(j)), pos(ks(j)) == j)), patterns=[ks(j)]))
        eng.assume(z3.ForAll([q], z3.Implies(z3.Select(d.dom, q), z3.And(pos(q) >= 0, pos(q) < m, ks(pos(q)) == q)), patterns=[pos(q)]))
        eng.ghost[key] = (ks, m, pos)
        eng.ghost[("dictkeys", d.uid)] = eng.ghost[key]
        eng.assumptions.add("dict-model: items() enumerates every key of the domain exactly once (order unconstrained)")
    ks, m, pos = eng.ghost[key]

    def g(k):
        kk = Sym(ks(k.z), "int")
        if d.vkind == "intlist":
            return (kk, DictListRef(d, kk))
        return (kk, Sym(z3.Select(d.val, kk.z), d.vkind))

    return m, g


def _lenz(n):
    return n.z if isinstance(n, Sym) else zint(n)


def _same_len(a, b):
    if isinstance(a, int) and isinstance(b, int):
        return a == b
    return z3.is_true(z3.simplify(_lenz(a) == _lenz(b)))


# ---------------------------------------------------------------- getitem
def getitem(eng, base, idx):
    if isinstance(base, PList) and hasattr(base, "__pyvc_getitem__"):
        return base.__pyvc_getitem__(eng, idx)  # list subclasses of extension modules index themselves
    if isinstance(base, PList):
        if base.items is not None:
            if isinstance(idx, slice):
                if all(x is None or isinstance(x, int) for x in (idx.start, idx.stop, idx.step)):
                    return PList(base.items[idx])
                raise Unsupported("symbolic slice of a concrete list")
            if isinstance(idx, Sym):
                items = base.items
                if items and all(kind_of(x) is not None for x in items):
                    iz = norm_index(eng, idx, len(items), "list index")
                    k0 = "real" if any(kind_of(x) == "real" for x in items) else kind_of(items[0])
                    z = to_z3(items[-1], k0)
                    for j in range(len(items) - 2, -1, -1):
                        z = z3.If(iz == j, to_z3(items[j], k0), z)
                    return Sym(z, k0)
                # non-scalar elements: fork on the index value
                for j in range(len(items)):
                    if eng.branch(eng.sbool(idx.z == j)):
                        return items[j]
                for j in range(1, len(items) + 1):
                    if eng.branch(eng.sbool(idx.z == -j)):
                        return items[-j]
                raise ProgExc(IndexError, "list index out of range")
            try:
                return base.items[int(idx)]
            except IndexError:
                raise ProgExc(IndexError, "list index out of range")
        if isinstance(idx, slice):
            from . import npmodels

            return npmodels.plist_slice(eng, base, idx)
        iz = norm_index(eng, idx, base.n, "list index")
        return base.get(iz)
    if isinstance(base, (SArr, NArr)):
        from . import npmodels

        return npmodels.getitem(eng, base, idx)
    if isinstance(base, PDict):
        return dict_get(eng, base, idx)
    if isinstance(base, DictListRef):
        iz = norm_index(eng, idx, eng.snum(base.nz(), "int"), "list index")
        return base.get(iz)
    if isinstance(base, tuple):
        if isinstance(idx, Sym):
            for j in range(len(base)):
                if eng.branch(eng.sbool(idx.z == j)):
                    return base[j]
            raise ProgExc(IndexError, "tuple index")
        try:
            return base[idx]
        except IndexError:
            raise ProgExc(IndexError, "tuple index out of range")
    if isinstance(base, Obj):
        return eng.call(eng.getattr_(base, "__getitem__"), [idx], {})
    if isinstance(base, Opaque):
        return base.proto["__getitem__"](eng, base, [idx], {})
    if isinstance(base, (str, list, dict, range)):
        if isinstance(idx, Sym):
            raise Unsupported("symbolic index into a native object")
        try:
            return wrap_native(base[idx])
        except (IndexError, KeyError) as e:
            raise ProgExc(type(e), str(e))
    if hasattr(base, "__pyvc_getitem__"):
        return base.__pyvc_getitem__(eng, idx)
    raise Unsupported(f"subscript of {type(base).__name__}")


def dict_get(eng, d, key, default=KeyError):
    if d.items is not None and isinstance(key, Sym):
        if not d.items and d.default_factory is None:  # an empty dict: every lookup misses
            if default is not KeyError:
                return default
            if not eng.spec_mode and getattr(eng, "pure_mode", 0):
                # the element of a comprehension over a symbolic-length sequence: the lookup must be unreachable (empty sequence)
                eng.prove(eng.site("key-present"), z3.BoolVal(False), "safety", "dict lookup inside a comprehension (the dict is empty)")
                return fresh("int", "absent")
            raise ProgExc(KeyError, "lookup in an empty dict")
        if not (d.items and _promote_scalar_dict(d, key, next(iter(d.items.values())))):  # {int: scalar} read with a symbolic key
            if eng.spec_mode or getattr(eng, "pure_mode", 0) or kind_of(key) != "int":
                raise Unsupported("symbolic key into a concrete dict")
    if d.items is not None:
        hit = resolve_key(eng, d, key)
        if hit is not None:
            return d.items[hit[0]]
        if d.default_factory is not None and default is KeyError:
            v = eng.call(d.default_factory, [], {})
            d.items[key] = v
            return v
        if default is KeyError:
            raise ProgExc(KeyError, repr(key))
        return default
    kz = to_z3(key, "int")
    present = eng.sbool(z3.Select(d.dom, kz))
    if not eng.spec_mode and getattr(eng, "pure_mode", 0):
        if default is not KeyError or d.default_factory is not None:
            raise Unsupported("dict.get with default inside a symbolic comprehension")
        eng.prove(eng.site("key-present"), present, "safety", "dict lookup inside a comprehension")
    elif not eng.spec_mode:
        if default is KeyError and d.default_factory is None:
            if not eng.branch(present):
                raise ProgExc(KeyError, "symbolic key")
        elif default is KeyError:
            if not eng.branch(present):
                dict_set_default(eng, d, key)
        else:
            if not eng.branch(present):
                return default
    if d.vkind == "intlist":
        if getattr(d, "by_value", False):
            return by_value_entry(d, kz)
        return DictListRef(d, key)
    return Sym(z3.Select(d.val, kz), d.vkind)


def by_value_entry(d, kz):
    """frozen snapshot of the int list stored under key kz in a by-value dict (see PDict.promote)"""
    p = PList()
    p.items, p.cols, p.kinds, p.tup, p.n = None, [z3.Select(d.val, kz)], ["int"], False, z3.Select(d.lens, kz)
    p.name, p.frozen = d.name + "_entry", True
    return p


def resolve_key(eng, d, key):
    """which entry of a dict of CONCRETE structure does `key` name, when the key or some stored keys are symbolic ints?  Decided by a case
    split on equality with every stored key that is not syntactically the same (the path forks where the path condition leaves it open).
    A key is only ever ADDED after all these comparisons came out `different`, so the stored keys are pairwise different on every path
    and the dict keeps the shape CPython's would have.  Returns (stored key,) or None."""
    try:
        if key in d.items:
            return (key,)
    except TypeError:
        return None
    if kind_of(key) != "int" or not (isinstance(key, Sym) or any(isinstance(k, Sym) for k in d.items)):
        return None
    for k in list(d.items):
        if kind_of(k) == "int" and (isinstance(key, Sym) or isinstance(k, Sym)):
            if eng.branch(eng.sbool(to_z3(key, "int") == to_z3(k, "int"))):
                return (k,)
    return None


def dict_set_default(eng, d, key):
    kz = to_z3(key, "int")
    d.dom = z3.Store(d.dom, kz, z3.BoolVal(True))
    if d.vkind == "intlist":
        d.lens = z3.Store(d.lens, kz, z3.IntVal(0))
    else:
        raise Unsupported("default for scalar symbolic dict")


def _promote_scalar_dict(d, key, val):
    """a concrete dict {int: scalar} about to receive a SYMBOLIC int key becomes the symbolic dict with the same content (domain and
    value arrays built from the entries); False if the dict is not of that shape"""
    if getattr(d, "default_factory", None) is not None or getattr(d, "frozen", False) or kind_of(key) != "int":
        return False
    if not all(isinstance(k, int) and not isinstance(k, bool) for k in d.items):
        return False
    kinds = {kind_of(v) for v in list(d.items.values()) + [val]}
    if None in kinds or len(kinds) != 1:
        return False
    (vk,) = kinds
    entries = list(d.items.items())
    d.promote(vk, empty=True)
    default = {"int": z3.IntVal(0), "real": z3.RealVal(0), "bool": z3.BoolVal(False)}.get(vk)
    if default is None:
        return False
    d.val = z3.K(z3.IntSort(), default)
    for k, v in entries:
        d.dom = z3.Store(d.dom, k, z3.BoolVal(True))
        d.val = z3.Store(d.val, k, to_z3(v, vk))
    return True


def setitem(eng, base, idx, val):
    if isinstance(base, PList):
        check_frame(eng, base)
        if base.items is not None:
            if isinstance(idx, Sym):
                n = len(base.items)
                iz = norm_index(eng, idx, n, "list assignment")
                if not all(kind_of(x) is not None for x in base.items) or kind_of(val) is None:
                    raise Unsupported("symbolic-index store into list of non-scalars")
                k0 = kind_of(val)
                base.items = [Sym(z3.If(iz == j, to_z3(val, k0), to_z3(x, k0)), k0) for j, x in enumerate(base.items)]
                return
            if isinstance(idx, slice):
                if any(isinstance(b, Sym) for b in (idx.start, idx.stop, idx.step)):
                    raise Unsupported("slice assignment with symbolic bounds")
                base.items[idx] = list(iterate_concrete(eng, val))  # lst[a:b] = iterable (in place, aliases see it)
                return
            try:
                base.items[idx] = val
            except IndexError:
                raise ProgExc(IndexError, "list assignment index out of range")
            return
        if isinstance(idx, slice):
            raise Unsupported("slice assignment into a symbolic list")
        iz = norm_index(eng, idx, base.n, "list assignment")
        vs = val if base.tup else (val,)
        base.cols = [z3.Store(c, iz, to_z3(v, k)) for c, v, k in zip(base.cols, vs, base.kinds)]
        return
    if isinstance(base, (SArr, NArr)):
        from . import npmodels

        return npmodels.setitem(eng, base, idx, val)
    if isinstance(base, PDict):
        check_frame(eng, base)  # a dict that belongs to a frozen input (its column table, a cache the constructor made) may not be stored into
        if base.items is not None:
            if isinstance(idx, Sym):
                if not _promote_scalar_dict(base, idx, val):
                    if eng.spec_mode or getattr(eng, "pure_mode", 0) or kind_of(idx) != "int":
                        raise Unsupported("symbolic key store into a concrete dict (add a `types` hint)")
                    hit = resolve_key(eng, base, idx)  # the dict keeps its concrete structure: case split on which entry the key names
                    base.items[hit[0] if hit is not None else idx] = val
                    return
            else:
                hit = resolve_key(eng, base, idx) if any(isinstance(k_, Sym) for k_ in base.items) else None
                base.items[hit[0] if hit is not None else idx] = val
                return
        kz = to_z3(idx, "int")
        base.dom = z3.Store(base.dom, kz, z3.BoolVal(True))
        if base.vkind == "intlist":
            if getattr(base, "by_value", False) and isinstance(val, PList) and not val.tup and (val.items is None and val.kinds == ["int"] or val.items is not None and all(kind_of(x) in ("int", "bool") for x in val.items)):
                if val.items is None:
                    content, ln = val.cols[0], zint(val.n)
                else:
                    content = z3.K(z3.IntSort(), z3.IntVal(0))
                    for j, x in enumerate(val.items):
                        content = z3.Store(content, j, to_z3(x, "int"))
                    ln = z3.IntVal(len(val.items))
                base.val = z3.Store(base.val, kz, content)
                base.lens = z3.Store(base.lens, kz, ln)
                val.frozen = True  # the stored object is aliased by the dict entry from now on: no write may follow
                eng.assumptions.add("dict-model: int lists are stored in / read from this dict by value; the stored list and the entries handed out are frozen (any later write through either is a failed frame obligation), so value and reference semantics agree")
                return
            raise Unsupported("store of a list into a symbolic dict")
        base.val = z3.Store(base.val, kz, to_z3(val, base.vkind))
        return
    if isinstance(base, DictListRef):
        iz = norm_index(eng, idx, eng.snum(base.nz(), "int"), "list assignment")
        kz = to_z3(base.key, "int")
        base.d.val = z3.Store(base.d.val, kz, z3.Store(z3.Select(base.d.val, kz), iz, to_z3(val, "int")))
        return
    if isinstance(base, Obj):
        return eng.call(eng.getattr_(base, "__setitem__"), [idx, val], {})
    if hasattr(base, "__pyvc_setitem__"):
        return base.__pyvc_setitem__(eng, idx, val)
    raise Unsupported(f"subscript store on {type(base).__name__}")


def delitem(eng, base, idx):
    if isinstance(base, PDict) and base.items is not None:
        base.items.pop(idx)
        return
    if isinstance(base, PList) and not isinstance(idx, slice) and not hasattr(base, "__pyvc_getitem__"):
        # del lst[i]: IndexError outside -n..n-1, otherwise the entries behind position i move up by one (same objects, one fewer)
        check_frame(eng, base)
        if base.items is not None:
            if isinstance(idx, int) and not isinstance(idx, bool):
                try:
                    del base.items[idx]
                except IndexError:
                    raise ProgExc(IndexError, "list assignment index out of range")
                return
            raise Unsupported("del lst[i] with a symbolic index on a concrete list")
        iz = norm_index(eng, idx, base.n, "list assignment index")
        eng.assumptions.add("list-model: del lst[i] on a list of symbolic length: entries before i stay, entry j >= i becomes the old entry j+1, the length drops by one")
        j = z3.Int(fresh_name("dj"))
        cols = []
        for c in base.cols:
            d = z3.Const(fresh_name(f"{base.name}_del"), c.sort())
            eng.assume(z3.ForAll([j], z3.Select(d, j) == z3.If(j < iz, z3.Select(c, j), z3.Select(c, j + 1)), patterns=[z3.Select(d, j)]))
            cols.append(d)
        base.cols = cols
        base.n = z3.simplify(zint(base.n) - 1)
        return
    raise Unsupported("del on this container")


def check_frame(eng, v):
    if getattr(v, "frozen", False) and not eng.spec_mode:
        eng.prove(eng.site("frame-write"), False, "frame", f"write to input storage {v!r}")


# --------------------------------------------------------------- contains
def contains(eng, container, item):
    if hasattr(container, "__pyvc_contains__"):  # extension values (pyvc/ext_*.py) bring their own membership test
        return container.__pyvc_contains__(eng, item)
    if isinstance(container, PDict):
        if container.items is not None:
            if hasattr(item, "__pyvc_compare__"):
                raise Unsupported("symbolic `in` on a concrete dict")
            if isinstance(item, Sym) or any(isinstance(k_, Sym) for k_ in container.items):
                if kind_of(item) != "int":
                    raise Unsupported("symbolic `in` on a concrete dict")
                acc = False  # no fork needed: the answer is the disjunction of the comparisons with the stored keys
                for k_ in container.items:
                    if kind_of(k_) == "int":
                        acc = eng.or_(acc, eng.compare(ast.Eq(), item, k_))
                return acc
            return item in container.items
        return eng.sbool(z3.Select(container.dom, to_z3(item, "int")))
    if isinstance(container, PList):
        if container.items is not None:
            acc = False
            for x in container.items:
                acc = eng.or_(acc, eng.compare(ast.Eq(), item, x))
            return acc
        i = z3.Int(fresh_name("i"))
        k = container.kinds[0]
        return eng.sbool(z3.Exists([i], z3.And(i >= 0, i < zint(container.n), z3.Select(container.cols[0], i) == to_z3(item, k))))
    if isinstance(container, SArr):
        i = z3.Int(fresh_name("i"))
        return eng.sbool(z3.Exists([i], z3.And(i >= 0, i < container.nz(), z3.Select(container.arr, i) == to_z3(item, container.kind))))
    if isinstance(container, DictListRef):
        i = z3.Int(fresh_name("i"))
        return eng.sbool(z3.Exists([i], z3.And(i >= 0, i < container.nz(), container.get(i).z == to_z3(item, "int"))))
    if isinstance(container, NArr):
        acc = False
        for x in container.items:
            acc = eng.or_(acc, eng.compare(ast.Eq(), item, x))
        return acc
    if isinstance(container, (tuple, list, set, frozenset, dict, str, range)):
        if isinstance(item, Sym) or hasattr(item, "__pyvc_compare__"):
            acc = False
            for x in container:
                acc = eng.or_(acc, eng.compare(ast.Eq(), item, x))
            return acc
        return item in container
    raise Unsupported(f"`in` on {type(container).__name__}")


# ------------------------------------------------------------ list methods
def _m_append(eng, recv, args, kwargs):
    (x,) = args
    check_frame(eng, recv)
    if isinstance(recv, DictListRef):
        d, kz = recv.d, to_z3(recv.key, "int")
        ln = z3.Select(d.lens, kz)
        d.val = z3.Store(d.val, kz, z3.Store(z3.Select(d.val, kz), ln, to_z3(x, "int")))
        d.lens = z3.Store(d.lens, kz, ln + 1)
        return None
    if recv.items is not None:
        recv.items.append(x)
        return None
    vs = x if recv.tup else (x,)
    if recv.tup and (not isinstance(x, tuple) or len(x) != len(recv.kinds)):
        raise Unsupported("append of a value that does not match the declared element type")
    recv.cols = [z3.Store(c, zint(recv.n), to_z3(v, k)) for c, v, k in zip(recv.cols, vs, recv.kinds)]
    recv.n = z3.simplify(zint(recv.n) + 1)
    return None


def _m_pop(eng, recv, args, kwargs):
    check_frame(eng, recv)
    if isinstance(recv, PDict):
        return _d_pop(eng, recv, args, kwargs)
    if isinstance(recv, DictListRef):  # pop() of the int list stored in a symbolic dict
        if args:
            raise Unsupported("pop(i) on a list stored in a symbolic dict")
        d, kz = recv.d, to_z3(recv.key, "int")
        ln = z3.Select(d.lens, kz)
        if not eng.branch(eng.sbool(ln > 0)):
            raise ProgExc(IndexError, "pop from empty list")
        v = recv.get(ln - 1)
        d.lens = z3.Store(d.lens, kz, ln - 1)
        return v
    if recv.items is not None:
        try:
            return recv.items.pop(*args)
        except IndexError:
            raise ProgExc(IndexError, "pop from empty list")
    if args:
        if len(args) != 1 or isinstance(recv, DictListRef):
            raise Unsupported("pop(i) on a symbolic list")
        # lst.pop(i) = lst[i], then del lst[i] (both raise IndexError outside the range)
        v = getitem(eng, recv, args[0])
        delitem(eng, recv, args[0])
        return v
    nz = zint(recv.n)
    if not eng.branch(eng.sbool(nz > 0)):
        raise ProgExc(IndexError, "pop from empty list")
    v = recv.get(nz - 1)
    recv.n = z3.simplify(nz - 1)
    return v


def _m_extend(eng, recv, args, kwargs):
    (src,) = args
    check_frame(eng, recv)
    if isinstance(recv, DictListRef):  # the int list stored in a symbolic dict: element-wise append of an iterable of concrete length
        for x in iterate_concrete(eng, src):
            _m_append(eng, recv, [x], {})
        return None
    if recv.items is not None:
        if not recv.items and isinstance(src, SArr):
            return _extend_empty_by_array(eng, recv, src)
        tail = src.seq if isinstance(src, Iter) and not src.consumed else src
        if isinstance(tail, PList) and tail.items is None and not tail.tup and getattr(eng, "extend_hook", None) is None:
            return _extend_concrete_by_symbolic(eng, recv, src, tail)
        recv.items.extend(iterate_concrete(eng, src))
        return None
    hook = getattr(eng, "extend_hook", None)
    if hook is not None:
        return hook(eng, recv, src)
    # list.extend(iterable) on a symbolic list: the elements of the iterable are appended in order
    inner = src
    if isinstance(inner, Iter):
        if inner.consumed:
            return None
        inner.consumed = True
        inner = inner.seq
    if isinstance(inner, PList) and inner.items is None and inner.tup == recv.tup and len(inner.kinds) == len(recv.kinds):
        i = z3.Int(fresh_name("ex"))
        n0 = zint(recv.n)
        recv.cols = [z3.Lambda([i], z3.If(i < n0, z3.Select(c0, i), to_z3(Sym(z3.Select(c1, i - n0), k1), k0)))
                     for c0, c1, k0, k1 in zip(recv.cols, inner.cols, recv.kinds, inner.kinds)]
        recv.n = z3.simplify(n0 + zint(inner.n))
        return None
    if isinstance(inner, PList) and inner.items is not None:
        for x in inner.items:
            _m_append(eng, recv, [x], {})
        return None
    raise Unsupported("extend of a symbolic list by this kind of iterable")


def _extend_concrete_by_symbolic(eng, recv, src, tail):
    """concrete_list.extend(symbolic list): the list becomes a symbolic one, its present elements followed by the elements of the
    iterable in order (the present elements must be storable under the element kind / protocol of the iterable)"""
    from . import strmodel

    kind, proto = tail.kinds[0], tail.proto
    ids = [strmodel.elem_id(eng, x, kind, proto) for x in recv.items]
    k = len(ids)
    i = z3.Int(fresh_name("ex"))
    body = z3.Select(tail.cols[0], i - k)
    for j in range(k - 1, -1, -1):
        body = z3.If(i == j, ids[j], body)
    recv.items, recv.kinds, recv.tup = None, [kind], False
    recv.cols, recv.n, recv.proto = [z3.Lambda([i], body)], z3.simplify(k + zint(tail.n)), proto
    if isinstance(src, Iter):
        src.consumed = True
    return None


def _extend_empty_by_array(eng, recv, src):
    """[].extend(ndarray): the list becomes the array's elements in order"""
    recv.items, recv.kinds, recv.tup = None, [src.kind], False
    recv.cols, recv.n = [src.arr], src.n
    return None


def _m_clear(eng, recv, args, kwargs):
    check_frame(eng, recv)
    if isinstance(recv, PDict):
        if recv.items is not None:
            recv.items.clear()
        else:
            recv.dom = z3.K(z3.IntSort(), z3.BoolVal(False))
        return None
    if recv.items is not None:
        recv.items.clear()
    else:
        recv.n = 0
    return None


def _m_copy(eng, recv, args, kwargs):
    if hasattr(recv, "__pyvc_copy__"):  # extension containers (pyvc/ext_*.py) copy themselves
        return recv.__pyvc_copy__(eng)
    if isinstance(recv, PList):
        c = PList()
        c.proto = recv.proto
        if recv.items is not None:
            c.items = list(recv.items)
        else:
            c.items, c.cols, c.kinds, c.n, c.tup, c.name = None, list(recv.cols), list(recv.kinds), recv.n, recv.tup, recv.name
        if getattr(recv, "is_deque", False):
            c.is_deque = True
        return c
    if isinstance(recv, PDict):
        c = PDict(default_factory=recv.default_factory)
        if recv.items is not None:
            c.items = dict(recv.items)
        else:
            c.items, c.dom, c.val, c.lens, c.vkind = None, recv.dom, recv.val, recv.lens, recv.vkind
        return c
    raise Unsupported("copy")


def _m_reverse(eng, recv, args, kwargs):
    check_frame(eng, recv)
    if recv.items is not None:
        recv.items.reverse()
        return None
    raise Unsupported("reverse on a symbolic list")


def _m_index(eng, recv, args, kwargs):
    if recv.items is not None and all_concrete(args, {}):
        try:
            return recv.items.index(*args)
        except ValueError:
            raise ProgExc(ValueError, "not in list")
    raise Unsupported("list.index symbolic")


def _m_insert(eng, recv, args, kwargs):
    check_frame(eng, recv)
    if recv.items is not None and isinstance(args[0], int):
        recv.items.insert(args[0], args[1])
        return None
    raise Unsupported("insert on symbolic list")


LIST_METHODS = {
    "append": _m_append, "pop": _m_pop, "extend": _m_extend, "clear": _m_clear, "copy": _m_copy,
    "reverse": _m_reverse, "index": _m_index, "insert": _m_insert,
}


# collections.deque (no maxlen): a PList flagged `is_deque`; append / pop / extend / clear / len / truth / iteration / indexing are the
# list's, the left-end operations are below
def _m_appendleft(eng, recv, args, kwargs):
    (x,) = args
    check_frame(eng, recv)
    if recv.items is not None:
        recv.items.insert(0, x)
        return None
    vs = x if recv.tup else (x,)
    if recv.tup and (not isinstance(x, tuple) or len(x) != len(recv.kinds)):
        raise Unsupported("appendleft of a value that does not match the declared element type")
    i = z3.Int(fresh_name("al"))
    recv.cols = [z3.Lambda([i], z3.If(i == 0, to_z3(v, k), z3.Select(c, i - 1))) for c, v, k in zip(recv.cols, vs, recv.kinds)]
    recv.n = z3.simplify(zint(recv.n) + 1)
    return None


def _m_popleft(eng, recv, args, kwargs):
    check_frame(eng, recv)
    if recv.items is not None:
        if not recv.items:
            raise ProgExc(IndexError, "pop from an empty deque")
        return recv.items.pop(0)
    nz = zint(recv.n)
    if not eng.branch(eng.sbool(nz > 0)):
        raise ProgExc(IndexError, "pop from an empty deque")
    v = recv.get(0)
    i = z3.Int(fresh_name("pl"))
    recv.cols = [z3.Lambda([i], z3.Select(c, i + 1)) for c in recv.cols]
    recv.n = z3.simplify(nz - 1)
    return v


def _m_extendleft(eng, recv, args, kwargs):
    (src,) = args
    for x in iterate_concrete(eng, src):  # CPython: a series of appendleft calls (the iterable ends up reversed)
        _m_appendleft(eng, recv, [x], {})
    return None


DEQUE_METHODS = {"appendleft": _m_appendleft, "popleft": _m_popleft, "extendleft": _m_extendleft}


# ------------------------------------------------------------ dict methods
def _d_get(eng, recv, args, kwargs):
    key = args[0]
    default = args[1] if len(args) > 1 else None
    return dict_get(eng, recv, key, default)


def _d_setdefault(eng, recv, args, kwargs):
    key = args[0]
    default = args[1] if len(args) > 1 else None
    if recv.items is not None:
        if isinstance(key, Sym):
            raise Unsupported("symbolic key setdefault on a concrete dict (add a `types` hint)")
        return recv.items.setdefault(key, default)
    kz = to_z3(key, "int")
    if not eng.branch(eng.sbool(z3.Select(recv.dom, kz))):
        if recv.vkind == "intlist":
            if not (isinstance(default, PList) and default.items == []):
                raise Unsupported("setdefault with a non-empty list")
            dict_set_default(eng, recv, key)
        else:
            recv.dom = z3.Store(recv.dom, kz, z3.BoolVal(True))
            recv.val = z3.Store(recv.val, kz, to_z3(default, recv.vkind))
    return dict_get(eng, recv, key)


def _d_pop(eng, recv, args, kwargs):
    key = args[0]
    if recv.items is not None:
        if isinstance(key, Sym):
            raise Unsupported("symbolic key pop on a concrete dict (add a `types` hint)")
        if key in recv.items:
            return recv.items.pop(key)
        if len(args) > 1:
            return args[1]
        raise ProgExc(KeyError, repr(key))
    kz = to_z3(key, "int")
    if not eng.branch(eng.sbool(z3.Select(recv.dom, kz))):
        if len(args) > 1:
            return args[1]
        raise ProgExc(KeyError, "symbolic key")
    if recv.vkind == "intlist":
        raise Unsupported("pop of list-valued symbolic dict")
    v = Sym(z3.Select(recv.val, kz), recv.vkind)
    recv.dom = z3.Store(recv.dom, kz, z3.BoolVal(False))
    return v


def _d_keys(eng, recv, args, kwargs):
    if recv.items is not None:
        return PList(list(recv.items.keys()))
    raise Unsupported("keys() of a symbolic dict")


def _d_values(eng, recv, args, kwargs):
    if recv.items is not None:
        return PList(list(recv.items.values()))
    raise Unsupported("values() of a symbolic dict")


def _d_items(eng, recv, args, kwargs):
    if recv.items is not None:
        return PList([(k, v) for k, v in recv.items.items()])
    return _DictItems(recv)


class _DictItems:
    def __init__(self, d):
        self.d = d


def _d_update_symbolic(eng, recv, args, kwargs):
    """d.update(other) on a symbolic scalar-valued dict: afterwards a key is present iff it was present or is a key of `other`,
    and the keys of `other` carry other's values (CPython: PyDict_Merge with override)"""
    if kwargs or recv.vkind == "intlist":
        raise Unsupported("update on a symbolic dict with keywords / list values")
    eng.assumptions.add("dict-model: d.update(other) keeps d's keys, adds other's keys, other's values win (cross-checked: tools/xcheck_c04_models.py)")
    for a in args:
        if isinstance(a, PDict) and a.items is None:
            if a.vkind == "intlist":
                raise Unsupported("update of a symbolic dict by a list-valued dict")
            k = z3.Int(fresh_name("uk"))
            in_a = z3.Select(a.dom, k)
            recv.dom = z3.Lambda([k], z3.Or(z3.Select(recv.dom, k), in_a))
            recv.val = z3.Lambda([k], z3.If(in_a, to_z3(Sym(z3.Select(a.val, k), a.vkind), recv.vkind), z3.Select(recv.val, k)))
            continue
        pairs = list(a.items.items()) if isinstance(a, PDict) else (list(a.items()) if isinstance(a, dict) else [tuple(iterate_concrete(eng, kv)) for kv in iterate_concrete(eng, a)])
        for key, val in pairs:
            kz = to_z3(key, "int")
            recv.dom = z3.Store(recv.dom, kz, z3.BoolVal(True))
            recv.val = z3.Store(recv.val, kz, to_z3(val, recv.vkind))
    return None


def _b_dict_fromkeys(eng, args, kwargs):
    """dict.fromkeys(iterable, value=None): every element of the iterable becomes a key with the ONE given value"""
    if kwargs or not 1 <= len(args) <= 2:
        raise Unsupported("dict.fromkeys arguments")
    seq, value = args[0], (args[1] if len(args) > 1 else None)
    try:
        keys = iterate_concrete(eng, seq)
    except Unsupported:
        keys = None
    if keys is not None:
        if any(isinstance(k, Sym) for k in keys):
            raise Unsupported("dict.fromkeys with symbolic keys in a concrete sequence")
        return PDict({eng.hashable(k): value for k in keys})
    from . import npmodels

    eng.assumptions.add("dict-model: dict.fromkeys(iterable, v) has exactly the iterable's elements as keys, each with the one value v (cross-checked: tools/xcheck_c04_models.py)")
    length, getter = as_sequence(eng, seq)
    if isinstance(seq, Iter):
        seq.consumed = True
    i = z3.Int(fresh_name("fk"))
    nz = length.z if isinstance(length, Sym) else zint(length)
    vv = Sym(z3.IntVal(0), "oref") if value is None else value
    return npmodels._dict_from_pairs(eng, i, nz, getter(Sym(i, "int")), vv)


def _d_update(eng, recv, args, kwargs):
    check_frame(eng, recv)
    if recv.items is None:
        return _d_update_symbolic(eng, recv, args, kwargs)
    if any(isinstance(a, PDict) and a.items is None for a in args):
        raise Unsupported("update of a concrete dict by a symbolic one (add a `types` hint)")
    for a in args:
        src = a.items if isinstance(a, PDict) else a
        if isinstance(src, dict):
            recv.items.update(src)
        else:
            for k, v in iterate_concrete(eng, a):
                recv.items[k] = v
    recv.items.update(kwargs)
    return None


DICT_METHODS = {
    "get": _d_get, "setdefault": _d_setdefault, "pop": _d_pop, "keys": _d_keys, "values": _d_values,
    "items": _d_items, "update": _d_update, "clear": _m_clear, "copy": _m_copy,
}


def method_of(eng, v, name):
    for (cls, nm), mdl in EXTRA_METHODS.items():
        if nm == name and isinstance(v, cls):
            return NativeMethod(mdl, v, name)
    if isinstance(v, (PList, DictListRef)):
        if name in LIST_METHODS:
            return NativeMethod(LIST_METHODS[name], v, name)
        if name in DEQUE_METHODS:
            if getattr(v, "is_deque", False):
                return NativeMethod(DEQUE_METHODS[name], v, name)
            raise ProgExc(AttributeError, f"'list' object has no attribute '{name}'")
    if isinstance(v, PDict):
        if name in DICT_METHODS:
            return NativeMethod(DICT_METHODS[name], v, name)
    if isinstance(v, (SArr, NArr)):
        from . import npmodels

        return npmodels.method_of(eng, v, name)
    raise Unsupported(f"method {name} of {type(v).__name__}")


def scalar_attr(eng, v, name):
    if name == "item":
        return NativeMethod(lambda e, r, a, k: r, v, name)
    if name in ("real",):
        return v
    if name == "dtype":
        from . import npmodels

        return npmodels.dtype_of_kind(v.kind)
    if name == "bit_length" and getattr(v, "kind", None) == "int":
        def _bit_length(e, r, a, k):
            if a or k:
                raise Unsupported("int.bit_length with arguments")
            e.assumptions.add("builtin-model:int.bit_length(): some k with 0 <= k <= |v| and (k == 0 iff v == 0) (the exact power-of-two bounds are not modelled)")
            out = fresh("int", "bit_length")
            av = z3.If(r.z >= 0, r.z, -r.z)
            e.assume(z3.And(out.z >= 0, out.z <= av, (out.z == 0) == (r.z == 0)))
            return out

        return NativeMethod(_bit_length, v, name)
    raise Unsupported(f"attribute {name} of a scalar")


def foreign_method(pyf, name):
    def model(eng, recv, args, kwargs):
        if name == "__init__" and isinstance(recv, Obj) and isinstance(recv.cls, type) and issubclass(recv.cls, list):
            recv.fields["__items__"] = PList(iterate_concrete(eng, args[0]) if args else [])
            return None
        if isinstance(recv, Obj) and "__items__" in recv.fields:
            if name == "__len__":
                return len(recv.fields["__items__"].items)
            if name == "__getitem__":
                return getitem(eng, recv.fields["__items__"], args[0])
            if name == "__iter__":
                return Iter(recv.fields["__items__"])
        if name in ("__init__", "__init_subclass__", "__post_init__"):
            return None
        raise Unsupported(f"foreign method {getattr(pyf, '__qualname__', name)}")

    return model


def foreign_init(eng, obj, pyf, args, kwargs):
    if isinstance(obj.cls, type) and issubclass(obj.cls, list):
        obj.fields["__items__"] = PList(iterate_concrete(eng, args[0]) if args else [])
    return None


# ------------------------------------------------------------- formatting
def format_value(eng, v, spec, conversion):
    if isinstance(v, (Sym, SymStr, Obj, SArr, NArr, Opaque, PList, PDict, FmtPiece)) or not all_concrete([v], {}):
        return FmtPiece(v, spec)
    u = unwrap(v)
    if conversion == ord("r"):
        u = repr(u)
    elif conversion == ord("s"):
        u = str(u)
    return format(u, spec)


# --------------------------------------------------------- comprehensions
def comprehension(eng, n, fr, kind):
    gens = n.generators
    if any(g.is_async for g in gens):
        raise Unsupported("async comprehension")
    first = eng.ev(gens[0].iter, fr)
    ghook = getattr(eng, "genexp_hook", None)
    if ghook is not None and kind == "gen":
        # contract option `genexp_hook(eng, node, frame, first)`: a generator expression whose elements have side effects
        # must stay LAZY (CPython evaluates only the first iterable at creation); the hook returns a lazy sequence value
        # (see pyvc/ext_C19.py: LazySeq) or NotImplemented to fall through to the eager model below
        r = ghook(eng, n, fr, first)
        if r is not NotImplemented:
            return r
    return comprehension_over(eng, n, fr, kind, first)


def comprehension_over(eng, n, fr, kind, first):
    """the comprehension `n` with its first iterable already evaluated to `first`"""
    gens = n.generators
    sub = Frame(parent=fr, globs=fr.globs, func=fr.func)
    try:
        items0 = iterate_concrete(eng, first)
    except Unsupported:
        from . import npmodels

        return npmodels.symbolic_comprehension(eng, n, fr, kind, first)
    out = []

    def rec(gi, items):
        g = gens[gi]
        for x in items:
            eng.assign(g.target, x, sub)
            ok = True
            for cond in g.ifs:
                if not eng.branch(eng.truth(eng.ev(cond, sub))):
                    ok = False
                    break
            if not ok:
                continue
            if gi + 1 < len(gens):
                rec(gi + 1, iterate_concrete(eng, eng.ev(gens[gi + 1].iter, sub)))
            elif kind == "dict":
                out.append((eng.ev(n.key, sub), eng.ev(n.value, sub)))
            else:
                out.append(eng.ev(n.elt, sub))

    rec(0, items0)
    if kind == "list":
        return PList(out)
    if kind == "gen":
        return Iter(PList(out))
    if kind == "set":
        return set(out)
    return PDict({eng.hashable(k): v for k, v in out})


# ------------------------------------------------------------- generators
def run_generator(eng, func, fr):
    """Generator functions are run eagerly; the yielded values form a one-shot Iter.
    Contract option `generator_hook=fn(eng, func, frame)` (of the carrier being verified) may return another value for the
    call (e.g. a LAZY sequence for a generator whose items have side effects, pyvc/ext_C19.py) or NotImplemented."""
    for c in (getattr(eng, "cur_contract", None), eng.registry.get(func.key)):  # the carrier's contract, or the generator's own
        hook = c.options.get("generator_hook") if c is not None else None
        if hook is not None:
            r = hook(eng, func, fr)
            if r is not NotImplemented:
                return r
            break
    out = PList([])  # visible to loop contracts as `__yield__` (types / modifies) so that a yielding loop can be cut
    fr.yield_sink = out
    fr.vars["__yield__"] = out
    try:
        eng.exec_block(func.node.body, fr)
    except ReturnSig:
        pass
    return Iter(out)


# ---------------------------------------------------------- builtin models
def _b_len(eng, args, kwargs):
    from .spec import length_of

    n = length_of(eng, args[0])
    if isinstance(n, z3.ExprRef):
        return eng.snum(n, "int")
    return n


def _b_range(eng, args, kwargs):
    if all(isinstance(a, int) for a in args):
        return range(*args)
    if len(args) == 1:
        return _SymRange(0, args[0])
    if len(args) == 2:
        return _SymRange(args[0], args[1])
    if len(args) == 3 and isinstance(args[2], int) and not isinstance(args[2], bool) and args[2] != 0:
        return _SymRange(args[0], args[1], args[2])
    raise Unsupported("symbolic range with a symbolic step")


def _b_isinstance(eng, args, kwargs):
    v, t = args
    ts = t if isinstance(t, tuple) else (t,)
    import numpy as np

    for c in ts:
        if c is None:
            continue
        if hasattr(v, "__pyvc_isinstance__"):  # extension values (pyvc/ext_*.py) say which real classes they stand for
            if v.__pyvc_isinstance__(c):
                return True
            continue
        if isinstance(v, Obj):
            if isinstance(c, type) and isinstance(v.cls, type) and issubclass(v.cls, c):
                return True
            continue
        if isinstance(v, Sym):
            pyt = {"int": (int, np.integer), "bool": (bool, np.bool_), "real": (float, np.floating), "ref": (), "oref": ()}[v.kind]
            if c in pyt or (v.kind == "bool" and c is int):
                return True
            continue
        if isinstance(v, PList):
            if c in (list, collections.abc.Iterable, collections.abc.Sequence):
                return True
            continue
        if isinstance(v, PDict):
            if c in (dict, collections.abc.Mapping, collections.abc.Iterable):
                return True
            continue
        if isinstance(v, (SArr, NArr)):
            if c is np.ndarray:
                return True
            continue
        if isinstance(v, Fraction):
            if c in (float, np.floating):
                return True
            continue
        if isinstance(v, Opaque):
            if c in v.proto.get("__isinstance__", ()):
                return True
            continue
        try:
            if isinstance(v, c):
                return True
        except TypeError:
            continue
    return False


def _b_bool(eng, args, kwargs):
    return eng.truth(args[0]) if args else False


def _b_int(eng, args, kwargs):
    (v,) = args
    if isinstance(v, Sym):
        if v.kind in ("int", "ref"):
            return v
        if v.kind == "bool":
            return Sym(to_z3(v, "int"), "int")
        raise Unsupported("int() of a symbolic real")
    if isinstance(v, Fraction):
        return int(v)
    try:
        return int(v)
    except ValueError as e:
        raise ProgExc(ValueError, str(e))


def _b_float(eng, args, kwargs):
    (v,) = args
    if isinstance(v, Sym):
        return Sym(to_z3(v, "real"), "real")
    if isinstance(v, str):
        try:
            return frac(float(v))
        except ValueError as e:
            raise ProgExc(ValueError, str(e))
    return frac(v)


def _b_list(eng, args, kwargs):
    if not args:
        return PList([])
    v = args[0]
    if isinstance(v, Iter) and not v.consumed:
        inner = v.seq
        v.consumed = True
        return _b_list(eng, [inner], {})
    if isinstance(v, Iter):
        return PList([])
    if isinstance(v, PList) and v.items is None:
        return LIST_METHODS["copy"](eng, v, [], {})
    if isinstance(v, SArr):
        p = PList()
        p.items, p.cols, p.kinds, p.n, p.tup = None, [v.arr], [v.kind], v.n, False
        return p
    if isinstance(v, Opaque) and "__list__" in v.proto:
        return v.proto["__list__"](eng, v)
    if isinstance(v, DictListRef):  # list(d[k]) of the int list stored in a symbolic dict: a new list with the same elements
        p = PList()
        p.items, p.cols, p.kinds, p.n, p.tup = None, [z3.Select(v.d.val, to_z3(v.key, "int"))], ["int"], z3.simplify(v.nz()), False
        return p
    if isinstance(v, _SymRange):
        n, g = as_sequence(eng, v)
        i = z3.Int(fresh_name("ri"))
        p = PList()
        p.items, p.kinds, p.tup, p.n = None, ["int"], False, n
        p.cols = [z3.Lambda([i], to_z3(g(Sym(i, "int")), "int"))]
        return p
    if hasattr(v, "__pyvc_iter_seq__"):  # an extension container that can be iterated (a set of ints: its ghost enumeration): the items in iteration order
        n, g = v.__pyvc_iter_seq__(eng)
        i = z3.Int(fresh_name("li"))
        x = g(Sym(i, "int"))
        if kind_of(x) is not None:
            p = PList()
            p.items, p.kinds, p.tup, p.n = None, [kind_of(x)], False, n
            p.cols = [z3.Lambda([i], to_z3(x, kind_of(x)))]
            return p
    return PList(iterate_concrete(eng, v))


def _b_deque(eng, args, kwargs):
    """collections.deque([iterable]): see DEQUE_METHODS"""
    if kwargs.get("maxlen") is not None or (len(args) > 1 and args[1] is not None) or set(kwargs) - {"maxlen"}:
        raise Unsupported("collections.deque with maxlen")
    p = _b_list(eng, list(args[:1]), {})
    p.is_deque = True
    eng.assumptions.add("builtin-model: collections.deque without maxlen is a list with appendleft / popleft / extendleft (cross-checked: tools/xcheck_c04_models.py)")
    return p


def _b_tuple(eng, args, kwargs):
    if not args:
        return ()
    return tuple(iterate_concrete(eng, args[0]))


def _b_dict(eng, args, kwargs):
    d = PDict()
    if args:
        a = args[0]
        if isinstance(a, PDict):
            if a.items is None:
                return DICT_METHODS["copy"](eng, a, [], {})
            d.items.update(a.items)
        elif isinstance(a, dict):
            d.items.update(a)
        else:
            try:
                for k, v in iterate_concrete(eng, a):
                    d.items[eng.hashable(k)] = v
            except Unsupported:
                from . import npmodels

                return npmodels.dict_from_symbolic_pairs(eng, a)
    d.items.update(kwargs)
    return d


def _b_defaultdict(eng, args, kwargs):
    return PDict(default_factory=args[0] if args else None)


def _b_zip(eng, args, kwargs):
    return _Zip(list(args))


def _b_enumerate(eng, args, kwargs):
    return _Enum(args[0], kwargs.get("start", args[1] if len(args) > 1 else 0))


def _b_map(eng, args, kwargs):
    if len(args) != 2:
        raise Unsupported("map with several iterables")
    return Iter(_MapIt(args[0], args[1]))


def _b_iter(eng, args, kwargs):
    v = args[0]
    if len(args) == 2:  # iter(callable, sentinel): modelled where the callable is a method whose owner says what that iteration is
        hook = v.recv.proto.get("__iter_sentinel__") if isinstance(v, NativeMethod) and isinstance(v.recv, Opaque) else None
        if hook is None:
            raise Unsupported("iter(callable, sentinel)")
        return Iter(hook(eng, v.recv, v.name, args[1]))
    return v if isinstance(v, Iter) else Iter(v)


def _b_next(eng, args, kwargs):
    v = args[0] if args else None
    if isinstance(v, Iter) and not v.consumed:
        v = v.seq
    if isinstance(v, Opaque) and "__next__" in v.proto and not kwargs:  # an object with a modelled __next__ (a text handle: the next line)
        if len(args) == 1:
            return v.proto["__next__"](eng, v, [], {})
        try:
            return v.proto["__next__"](eng, v, [], {})
        except ProgExc as e:
            if e.cls is StopIteration:
                return args[1]
            raise
    raise Unsupported("next()")


def iteration_finished(eng, v, count):
    """a `for` loop stopped consuming `v` after `count` items (its normal end, or a `break`): sequences with a position (a text handle
    and what wraps it) are told where they stand"""
    if isinstance(v, Iter):
        return iteration_finished(eng, v.seq, count)
    if isinstance(v, (_Enum, _MapIt)):
        return iteration_finished(eng, v.seq, count)
    if isinstance(v, Opaque) and "__iter_done__" in v.proto:
        return v.proto["__iter_done__"](eng, v, count)
    if hasattr(v, "__pyvc_iter_done__"):
        return v.__pyvc_iter_done__(eng, count)


def _b_min(eng, args, kwargs):
    return _minmax(eng, args, kwargs, True)


def _b_max(eng, args, kwargs):
    return _minmax(eng, args, kwargs, False)


def _minmax(eng, args, kwargs, is_min):
    items = list(args) if len(args) > 1 else iterate_concrete(eng, args[0])
    if not items:
        raise ProgExc(ValueError, "min/max of empty sequence")
    keyf = kwargs.get("key")
    if keyf is not None:
        # first extremal element wins (CPython); decided by forking on the comparisons
        cur, curk = items[0], eng.call(keyf, [items[0]], {})
        for x in items[1:]:
            xk = eng.call(keyf, [x], {})
            if eng.branch(eng.compare(ast.Lt() if is_min else ast.Gt(), xk, curk)):
                cur, curk = x, xk
        return cur
    cur = items[0]
    for x in items[1:]:
        c = eng.compare(ast.Lt() if is_min else ast.Gt(), x, cur)
        if isinstance(c, Sym):
            k = "real" if "real" in (kind_of(x), kind_of(cur)) else "int"
            cur = Sym(z3.If(c.z, to_z3(x, k), to_z3(cur, k)), k)
        elif c:
            cur = x
    return cur


def _b_sum(eng, args, kwargs):
    items = iterate_concrete(eng, args[0])
    acc = args[1] if len(args) > 1 else 0
    for x in items:
        acc = eng.binop(ast.Add(), acc, x)
    return acc


def _b_abs(eng, args, kwargs):
    (a,) = args
    if isinstance(a, Sym):
        return Sym(z3.If(a.z >= 0, a.z, -a.z), a.kind)
    return abs(a)


def drop_prefix(eng, seq, c):
    """the sequence `seq` without its first c items (c: int or z3 Int term with 0 <= c <= len): what a one-shot iterator over `seq` still
    yields after a consumer took c items"""
    if isinstance(c, int) or z3.is_int_value(c):
        c0 = c if isinstance(c, int) else c.as_long()
        if c0 == 0:
            return seq
        try:
            items = iterate_concrete(eng, seq)
        except Unsupported:
            items = None
        if items is not None:
            return PList(list(items[c0:]))
    n, g = as_sequence(eng, seq)
    cz = zint(c)
    j = z3.Int(fresh_name("rest"))
    x = g(Sym(j + cz, "int"))
    xs = x if isinstance(x, tuple) else (x,)
    kinds = [kind_of(e) for e in xs]
    if any(k is None for k in kinds):
        raise Unsupported("remainder of a one-shot iterator over non-scalar items")
    p = PList()
    p.items, p.kinds, p.tup = None, kinds, isinstance(x, tuple)
    p.cols = [z3.Lambda([j], to_z3(e, k)) for e, k in zip(xs, kinds)]
    p.n = z3.simplify((n.z if isinstance(n, Sym) else zint(n)) - cz)
    if isinstance(seq, PList):
        p.proto = seq.proto
    return p


def iter_advance(eng, it, c):
    """a consumer took the first c items of the one-shot iterator `it` (c None: all of them) and stopped: the iterator keeps the rest.
    A generator expression that pulls from another one-shot iterator hands the stop on: the upstream iterator was advanced by exactly
    the items the generator asked for (position by position without a filter; with a filter the remainder is left unknown)."""
    from .values import fresh_name as _fn

    if c is None:
        it.consumed = True
        return
    up = it.source
    it.seq = drop_prefix(eng, it.seq, c)
    if up is not None:
        src, seq0, exact = up
        if exact:
            src.seq = drop_prefix(eng, seq0, c)
        else:  # filtered: how far the source was read is not tracked -- any remainder (over-approximation)
            n, g = as_sequence(eng, seq0)
            x = g(Sym(z3.Int(_fn("j")), "int"))
            kinds = [kind_of(e) for e in (x if isinstance(x, tuple) else (x,))]
            if any(k is None for k in kinds):
                raise Unsupported("remainder of a one-shot iterator over non-scalar items")
            p = PList()
            p.items, p.kinds, p.tup = None, kinds, isinstance(x, tuple)
            p.cols = [z3.Const(_fn("rest"), z3.ArraySort(z3.IntSort(), {"int": z3.IntSort(), "real": z3.RealSort(), "bool": z3.BoolSort()}.get(k, z3.IntSort()))) for k in kinds]
            m = z3.Int(_fn("restlen"))
            eng.assume(z3.And(m >= 0, m <= (n.z if isinstance(n, Sym) else zint(n))))
            p.n = m
            src.seq = p
        src.consumed = False


def _first_deciding_position(eng, src, stop_on):
    """all(src) / any(src) over a sequence of SYMBOLIC length: the result as a formula over positions, and CPython's short circuit.
    f = the first position whose item decides the result (a falsy item for all, a truthy one for any), defined by
    `every deciding position k has 0 <= f <= k and f decides`; found = (0 <= f < n and f decides).  all = not found, any = found.
    A one-shot iterator is left with what follows position f (nothing when no position decides)."""
    it = src if isinstance(src, Iter) else None
    if it is not None and it.consumed:
        return False, None  # nothing to look at: all -> True, any -> False
    n, g = as_sequence(eng, src)
    nz = n.z if isinstance(n, Sym) else zint(n)
    k = z3.Int(fresh_name("k"))
    t = eng.truth(g(Sym(k, "int")))
    if isinstance(t, bool):
        tz = z3.BoolVal(t)
    else:
        tz = to_z3(t, "bool")
    stop = (lambda pos: z3.substitute(tz if stop_on else z3.Not(tz), (k, pos)))
    eng.assumptions.add("python-model:all / any over a sequence of unknown length: the result is decided by the FIRST falsy (truthy) item, "
                        "later items are not requested (a one-shot iterator keeps them)")
    f = z3.Int(fresh_name("first"))
    eng.assume(z3.ForAll([k], z3.Implies(z3.And(k >= 0, k < nz, stop(k)), z3.And(f >= 0, f <= k, stop(f)))))
    found = eng.sbool(z3.And(f >= 0, f < nz, stop(f)))
    if it is not None:
        c = z3.simplify(z3.If(to_z3(found, "bool"), f + 1, nz))
        iter_advance(eng, it, c)
    return found, f


def _b_any(eng, args, kwargs):
    try:
        items = iterate_concrete(eng, args[0])
    except Unsupported:
        if eng.spec_mode:
            raise
        found, _ = _first_deciding_position(eng, args[0], True)
        return found
    acc = False
    for x in items:
        acc = eng.or_(acc, eng.truth(x))
    return acc


def _b_all(eng, args, kwargs):
    try:
        items = iterate_concrete(eng, args[0])
    except Unsupported:
        if eng.spec_mode:
            raise
        found, _ = _first_deciding_position(eng, args[0], False)
        return (not found) if isinstance(found, bool) else Sym(z3.Not(found.z), "bool")
    acc = True
    for x in items:
        acc = eng.and_(acc, eng.truth(x))
    return acc


def _b_str(eng, args, kwargs):
    if not args:
        return ""
    v = args[0]
    if isinstance(v, (Sym, SymStr, FmtPiece)):
        return FmtPiece(v, "str")
    if hasattr(v, "__pyvc_isinstance__") and v.__pyvc_isinstance__(str):
        return v  # str(s) of an (abstract) string is the string
    return str(unwrap(v))


def _b_warn(eng, args, kwargs):
    eng.warn_log.append(args[0] if args else None)
    return None


def _b_cast(eng, args, kwargs):
    return args[1]


def _symbolic_view(v):
    """(cols, kinds, tup, n) of a list-like value of SYMBOLIC length (a symbolic list, the int list stored in a symbolic dict, a 1-D
    array of symbolic length), None for anything else"""
    if isinstance(v, DictListRef):
        return [z3.Select(v.d.val, to_z3(v.key, "int"))], ["int"], False, v.nz()
    if isinstance(v, PList) and v.items is None and v.proto is None:
        return list(v.cols), list(v.kinds), v.tup, zint(v.n)
    if type(v) is SArr and not isinstance(v.n, int):
        return [v.arr], [v.kind], False, v.nz()
    return None


def _b_reversed(eng, args, kwargs):
    """reversed(seq): the elements of seq from the last to the first; of the same symbolic length when seq's length is symbolic
    (position i holds seq[n-1-i])"""
    a = args[0]
    if isinstance(a, PList) and a.items is None and not a.tup:
        # reversed(L) of a list of symbolic length: an iterator over the elements L[n-1], ..., L[0] (the list-slice model of L[::-1])
        from . import npmodels

        return Iter(npmodels.plist_slice(eng, a, slice(None, None, -1)))
    try:
        return PList(list(reversed(iterate_concrete(eng, args[0]))))
    except Unsupported:
        view = _symbolic_view(args[0])
        if view is None:
            raise
    cols, kinds, tup, n = view
    i = z3.Int(fresh_name("rv"))
    p = PList()
    p.items, p.kinds, p.tup, p.n, p.name = None, kinds, tup, z3.simplify(n), "reversed"
    p.cols = [z3.Lambda([i], z3.Select(c, n - 1 - i)) for c in cols]
    eng.assumptions.add("builtin-model: reversed(seq) of a sequence of symbolic length n is the list r with len(r) = n and r[i] = seq[n-1-i] (cross-checked: tools/xcheck_c04_models.py)")
    return p


def _b_sorted(eng, args, kwargs):
    items = iterate_concrete(eng, args[0])
    if all_concrete(items, {}) and "key" not in kwargs:
        return PList(sorted(items, reverse=bool(kwargs.get("reverse", False))))
    raise Unsupported("sorted on symbolic data")


def _b_chain(eng, args, kwargs):
    out = []
    for a in args:
        out.extend(iterate_concrete(eng, a))
    return Iter(PList(out))


def _combinatoric(fn):
    """itertools.combinations / permutations / product / pairwise of sequences of CONCRETE length: the tuples CPython yields, in its order
    (only positions are combined; the entries may be symbolic).  The order is taken from itertools itself, run on index tuples."""

    def model(eng, args, kwargs):
        if any(isinstance(v, Sym) for v in kwargs.values()):
            raise Unsupported(f"itertools.{fn.__name__} with a symbolic option")
        pools, rest = [], []
        for a in args:
            if isinstance(a, int) and not isinstance(a, bool):
                rest.append(a)
            else:
                pools.append(iterate_concrete(eng, a))
        idx = fn(*[range(len(p)) for p in pools], *rest, **kwargs)
        if fn is itertools.product:
            out = [tuple(pools[k % len(pools)][i] for k, i in enumerate(t)) for t in idx]
        else:
            out = [tuple(pools[0][i] for i in t) for t in idx]
        eng.assumptions.add(f"stdlib-model:itertools.{fn.__name__} over sequences of concrete length yields CPython's index tuples in CPython's order")
        return Iter(PList(out))

    return model


def _b_print(eng, args, kwargs):
    return None


def _b_id(eng, args, kwargs):
    return getattr(args[0], "uid", id(args[0]))


def deepcopy_value(v, memo=None):
    """copy.deepcopy: a structurally equal object graph with fresh allocations."""
    from .values import snapshot, next_uid

    m = {}
    c = snapshot(v, m)
    seen = set()
    for o in m.values():
        if id(o) in seen:
            continue
        seen.add(id(o))
        if hasattr(o, "uid"):
            o.uid = next_uid()
        if hasattr(o, "frozen"):
            o.frozen = False
    return c


def _b_deepcopy(eng, args, kwargs):
    eng.assumptions.add("copy.deepcopy returns an equal, fully fresh object graph")
    return deepcopy_value(args[0])


def _b_copy(eng, args, kwargs):
    """copy.copy: ONE new object; an instance gets a new field table holding the very same field values (nothing below the first
    level is duplicated), list / dict get a new container with the same elements, an ndarray a fresh copy of its data
    (ndarray.__copy__)."""
    (v,) = args
    if hasattr(v, "__pyvc_copy__"):
        return v.__pyvc_copy__(eng)
    if isinstance(v, Obj):
        custom = ("__copy__", "__reduce_ex__", "__reduce__", "__getstate__", "__setstate__")
        if any((n in c.__dict__) or c.__dict__.get("__slots__") for c in getattr(v.cls, "__mro__", ()) for n in custom if c is not object):
            raise Unsupported("copy.copy of an instance of a class that customises copying / pickling")
        eng.assumptions.add("copy.copy of a plain instance: a new object of the same class whose attributes are the SAME values (shallow)")
        return Obj(v.cls, dict(v.fields), name=v.name)
    if isinstance(v, PList):
        return _b_list(eng, [v], {})
    if isinstance(v, PDict):
        return _b_dict(eng, [v], {})
    if isinstance(v, (SArr, NArr)):
        return method_of(eng, v, "copy").model(eng, v, [], {})
    if isinstance(v, (Sym, int, float, Fraction, str, bool, tuple, frozenset, type(None))):
        return v  # immutable: copy.copy returns the object itself
    raise Unsupported(f"copy.copy of {type(v).__name__}")


def _b_slice(eng, args, kwargs):
    """slice(stop) / slice(start, stop[, step]): the same object the subscript syntax a[start:stop:step] builds"""
    if kwargs or not 1 <= len(args) <= 3:
        raise ProgExc(TypeError, "slice expected 1 to 3 positional arguments")
    return slice(*args)


def _b_getattr(eng, args, kwargs):
    """getattr(obj, name[, default]): the attribute lookup of the interpreter itself (instance field, then the class: methods, properties,
    class-level defaults); with a default, an AttributeError raised by that lookup gives the default"""
    if kwargs or not 2 <= len(args) <= 3:
        raise ProgExc(TypeError, "getattr expected 2 or 3 positional arguments")
    obj, name = args[0], args[1]
    if not isinstance(name, str):
        raise Unsupported("getattr with a non-constant attribute name")
    try:
        return eng.getattr_(obj, name)
    except ProgExc as e:
        if len(args) == 3 and isinstance(e.cls, type) and issubclass(e.cls, AttributeError):
            return args[2]
        raise


def _b_hasattr(eng, args, kwargs):
    """hasattr(obj, name): getattr(obj, name) does not raise AttributeError"""
    if kwargs or len(args) != 2:
        raise ProgExc(TypeError, "hasattr expected 2 positional arguments")
    miss = object()
    return _b_getattr(eng, [args[0], args[1], miss], {}) is not miss


def _b_setattr(eng, args, kwargs):
    """setattr(obj, name, value): the statement obj.name = value (property setters, frame obligations of frozen objects included)"""
    if kwargs or len(args) != 3:
        raise ProgExc(TypeError, "setattr expected 3 positional arguments")
    if not isinstance(args[1], str):
        raise Unsupported("setattr with a non-constant attribute name")
    eng.setattr_(args[0], args[1], args[2])
    return None


def _b_delattr(eng, args, kwargs):
    """delattr(obj, name) on an instance field (a frozen object: frame obligation, as for a store)"""
    if kwargs or len(args) != 2 or not isinstance(args[1], str):
        raise Unsupported("delattr arguments")
    obj, name = args
    if not isinstance(obj, Obj):
        raise Unsupported(f"delattr on {type(obj).__name__}")
    if name not in obj.fields:
        raise ProgExc(AttributeError, name)
    if getattr(obj, "frozen", False) and not eng.spec_mode:
        eng.prove(eng.site("frame-attr-write"), False, "frame", f"deletion of field {name} of an input object")
    del obj.fields[name]
    return None


import copy as _copy  # noqa: E402

BUILTIN_MODELS = {
    _copy.deepcopy: _b_deepcopy, _copy.copy: _b_copy, slice: _b_slice,
    len: _b_len, range: _b_range, isinstance: _b_isinstance, bool: _b_bool, int: _b_int, float: _b_float,
    list: _b_list, tuple: _b_tuple, dict: _b_dict, collections.defaultdict: _b_defaultdict, collections.deque: _b_deque, zip: _b_zip,
    enumerate: _b_enumerate, map: _b_map, iter: _b_iter, next: _b_next, min: _b_min, max: _b_max,
    sum: _b_sum, abs: _b_abs, any: _b_any, all: _b_all, str: _b_str, _warnings.warn: _b_warn,
    reversed: _b_reversed, sorted: _b_sorted, itertools.chain: _b_chain, print: _b_print,
    itertools.combinations: _combinatoric(itertools.combinations), itertools.permutations: _combinatoric(itertools.permutations),
    itertools.product: _combinatoric(itertools.product), itertools.pairwise: _combinatoric(itertools.pairwise),
    itertools.combinations_with_replacement: _combinatoric(itertools.combinations_with_replacement),
    dict.fromkeys: _b_dict_fromkeys,
    getattr: _b_getattr, hasattr: _b_hasattr, setattr: _b_setattr, delattr: _b_delattr,
}
try:
    import typing

    BUILTIN_MODELS[typing.cast] = _b_cast
except Exception:  # pragma: no cover
    pass


# Extension points for contract modules (contracts/Cxx.py may register models at import time):
#   EXTRA_MODELS[real_function_object] = model(eng, args, kwargs)
#   EXTRA_METHODS[(ValueClass, "method_name")] = model(eng, recv, args, kwargs)     (SArr / NArr / PList / PDict ...)
# Each such model must record what it assumes with eng.assumptions.add("...") so that evidence lists it.
#   EXTRA_ELEMENT_HOOKS: [hook(eng, element_value, index_var, length, kind)] for comprehensions over a symbolic sequence whose
#   element is not a scalar (e.g. one 1-D array per position); a hook returns the value of the comprehension or None
EXTRA_MODELS = {}
EXTRA_METHODS = {}
EXTRA_ELEMENT_HOOKS = []


def _b_chain_from_iterable(eng, args, kwargs):
    """itertools.chain.from_iterable(X) = itertools.chain(*X)"""
    sv = args[0]
    chain = lookup_model(itertools.chain)
    if hasattr(sv, "__pyvc_star__"):
        return chain(eng, [sv.__pyvc_star__(eng)], {})
    return chain(eng, list(eng.iterate_concrete(sv)), {})


def lookup_model(fn):
    if fn == itertools.chain.from_iterable:
        return _b_chain_from_iterable
    try:
        m = EXTRA_MODELS.get(fn)
        if m is None:
            m = BUILTIN_MODELS.get(fn)
    except TypeError:
        m = None
    if m is not None:
        return m
    from . import npmodels

    return npmodels.lookup_model(fn)


# array operators are in npmodels
def array_binop(eng, op, a, b):
    from . import npmodels

    return npmodels.array_binop(eng, op, a, b)


def array_unop(eng, op, a):
    from . import npmodels

    return npmodels.array_unop(eng, op, a)


def array_compare(eng, op, a, b):
    from . import npmodels

    return npmodels.array_compare(eng, op, a, b)


def inplace_binop(eng, op, cur, val):
    from . import npmodels

    return npmodels.inplace_binop(eng, op, cur, val)


def concat_lists(eng, a, b):
    """list + list where at least one side has symbolic length."""
    other = {id(a): b, id(b): a}

    def view(p):
        if p.items is not None:
            items = p.items
            ks = [kind_of(x) for x in items]
            if any(k is None for k in ks):
                o = other[id(p)]
                if o.items is None and not o.tup and o.kinds == ["ref"]:
                    # concrete strings / object handles next to a symbolic list of references: stored under the other side's element protocol
                    from . import strmodel

                    ids = [Sym(strmodel.elem_id(eng, x, "ref", o.proto), "ref") for x in items]
                    return len(ids), ["ref"] * len(ids), (lambda i, k: _ite_chain(ids, i, k))
                raise Unsupported("concatenation with a list of non-scalars")
            return len(items), ks, (lambda i, k: _ite_chain(items, i, k))
        if p.tup:
            raise Unsupported("concatenation of lists of tuples")
        return p.n, [p.kinds[0]], (lambda i, k: to_z3(Sym(z3.Select(p.cols[0], i), p.kinds[0]), k))

    na, ka, ga = view(a)
    nb, kb, gb = view(b)
    ks = set(ka) | set(kb)
    k = "real" if "real" in ks else ("int" if ks <= {"int", "bool"} or not ks else list(ks)[0])
    i = z3.Int(fresh_name("cc"))
    naz = zint(na)
    out = PList()
    out.items, out.kinds, out.tup = None, [k], False
    out.cols = [z3.Lambda([i], z3.If(i < naz, ga(i, k), gb(i - naz, k)))]
    out.n = z3.simplify(naz + zint(nb))
    protos = [p.proto for p in (a, b) if p.items is None and p.proto is not None]
    if protos and all(q is protos[0] for q in protos):
        out.proto = protos[0]
    return out


def _ite_chain(items, i, k):
    if not items:
        return to_z3(0, k)
    z = to_z3(items[-1], k)
    for j in range(len(items) - 2, -1, -1):
        z = z3.If(i == j, to_z3(items[j], k), z)
    return z


def slice_indices(eng, sl, args, kwargs):
    """slice.indices(n) for step None/1, by CPython's definition (PySlice_AdjustIndices)."""
    (n,) = args
    if sl.step not in (None, 1):
        if all(not isinstance(x, Sym) for x in (sl.start, sl.stop, sl.step, n)):
            return sl.indices(n)
        if isinstance(sl.step, Sym):
            raise Unsupported("slice.indices with a symbolic step")
        if sl.step == 0:
            raise ProgExc(ValueError, "slice step cannot be zero")
        # concrete step, symbolic bounds / length: PySlice_AdjustIndices
        st = int(sl.step)
        nz = to_z3(n, "int")
        lower, upper = (z3.IntVal(0), nz) if st > 0 else (z3.IntVal(-1), nz - 1)

        def adj2(v, default):
            if v is None:
                return default
            vz = to_z3(v, "int")
            return z3.If(vz < 0, z3.If(vz + nz < 0, lower, vz + nz), z3.If(vz >= nz, upper, vz))

        lo = eng.snum(adj2(sl.start, upper if st < 0 else lower), "int")
        hi = eng.snum(adj2(sl.stop, lower if st < 0 else upper), "int")
        return (lo, hi, st)
    if all(not isinstance(x, Sym) for x in (sl.start, sl.stop, n)):
        return sl.indices(n)
    nz = to_z3(n, "int")

    def adj(v, default):
        if v is None:
            return default
        vz = to_z3(v, "int")
        vz = z3.If(vz < 0, z3.If(vz + nz < 0, z3.IntVal(0), vz + nz), z3.If(vz > nz, nz, vz))
        return vz

    lo = eng.snum(adj(sl.start, z3.IntVal(0)), "int")
    hi = eng.snum(adj(sl.stop, nz), "int")
    return (lo, hi, 1)
