"""Sidecar contracts FOLLOW code that an extract-function refactor moved (fourth session, work package `helpers`).

(1) Loop contracts follow the loop.  A loop contract is registered with the carrier that held the loop (by ordinal, or by an
    `applies=` predicate).  When the current text of the carrier has FEWER loops than its baseline text (`baseline/sources.json`),
    the loops that stayed are matched, in order, with the baseline loops they resemble (so a contract is not handed to the wrong
    loop because ordinals shifted), and the contracts whose loop left the carrier are ORPHANS.  When the carrier then calls a
    contract-less function of the same module whose inlined body contains a loop that resembles the baseline loop of an orphan
    (same statement kind, token similarity over a linearisation in which local names are wildcards), the orphan contract is used
    for that loop.  Its names are bound by alpha-renaming, in a COPY of the helper's AST, of
      * the helper's locals that the alignment of the two loops (then of the two functions) puts where a baseline local sat, and
      * the helper's parameters to the plain names the carrier passes at the call site (`_path_to_root(tree, new_root)`: `idx` is
        `new_root`), by a leading assignment `new_root = idx` so that the signature (keyword calls) is untouched;
    a target name must be unused in the helper.  Clauses additionally see the variables of the calling frame (the carrier's).
    Soundness: nothing is assumed.  The contract is only a CANDIDATE invariant: it is proved at entry, assumed for an arbitrary
    iteration after everything the body may modify is havocked, and re-proved after the body, by the ordinary cut of
    pyvc/loops.py.  A wrong match or a wrong binding can only make an (internal) obligation fail: exit 2, never a pass.
    One extra rule for followed loops: a name the loop REBINDS to an object for which the contract has no `rebind` rule cannot be
    havocked faithfully and is refused (Unsupported, exit 3) instead of keeping its value of the loop head.

(2) Nested carriers follow the function.  See `moved_nested` (used by extract.find / verify): when `outer.<locals>.inner` no longer
    exists but `outer` calls a module-level function or method of the module that aligns with the baseline text of `inner`, the
    contract of `inner` is verified on THAT function; the closure variables of the setup are bound to the new explicit parameters
    through the call site (`_format_field(vs, idx, ...)` called as `_format_field(v, i, ...)` inside `outer`).
"""
from __future__ import annotations

import ast
import copy
import difflib
import itertools
import textwrap

from . import align

THRESHOLD = 0.4
FOLLOWED: dict[str, list] = {}  # carrier key -> [description of what was followed] (reported in evidence / -v)


def loops_of(fn):
    out = []

    def walk(x):
        for ch in ast.iter_child_nodes(x):
            if isinstance(ch, (ast.FunctionDef, ast.Lambda, ast.AsyncFunctionDef, ast.ClassDef)):
                continue
            if isinstance(ch, (ast.For, ast.While)):
                out.append(ch)
            walk(ch)

    walk(fn)
    return out


def baseline_fn(key):
    src = align.baseline_sources().get(key)
    if src is None:
        return None
    try:
        fn = ast.parse(textwrap.dedent(src)).body[0]
    except (SyntaxError, IndexError):
        return None
    return fn if isinstance(fn, (ast.FunctionDef, ast.AsyncFunctionDef)) else None


def _toks(node, locs):
    return align._linearise(node, locs)


def _ratio(a, b):
    return difflib.SequenceMatcher(None, [t for t, _ in a], [t for t, _ in b], autojunk=False).ratio()


def similarity(lb, locs_b, lc, locs_c):
    if type(lb) is not type(lc):
        return 0.0
    return _ratio(_toks(lb, locs_b), _toks(lc, locs_c))


class Plan:
    """per (contract, carrier): which baseline ordinal each loop of the carrier has, and which loop contracts are orphans"""

    def __init__(self, carrier_map, orphans, base, base_locs, cur):
        self.carrier_map, self.orphans, self.base, self.base_locs, self.cur = carrier_map, orphans, base, base_locs, cur
        self.helpers = {}


def plan_for(eng):
    top, key = eng.cur_contract, eng.cur_key
    if top is None or key is None or not getattr(top, "loops", None):
        return None
    cache = eng.__dict__.setdefault("_follow_plans", {})
    ck = (id(top), key)
    if ck in cache:
        return cache[ck]
    cache[ck] = None
    from . import extract

    try:
        cur = extract.find(key)[0]
    except (KeyError, OSError):
        return None
    base = baseline_fn(key)
    cl = loops_of(cur)
    carrier_map, orphans = None, []
    # loops LEFT the carrier (as opposed to: were deleted / rewritten) only if it now calls a function of its module, with a loop
    # in it, that the baseline text did not call; otherwise nothing is re-anchored (ordinals as they are, the behaviour before)
    new_helpers = set()
    if base is not None:
        mod = extract.load(key.split(":")[0])[1]
        fresh_calls = _callees(cur) - _callees(base)
        new_helpers = {st.name for st in ast.walk(mod) if isinstance(st, (ast.FunctionDef, ast.AsyncFunctionDef)) and st.name in fresh_calls and st is not cur and loops_of(st)}
    if not new_helpers:
        return None
    if base is not None:
        bl = loops_of(base)
        base_locs, cur_locs = align.local_names(base, True), align.local_names(cur, True)
        if len(cl) < len(bl):
            # order-preserving injection of the current loops into the baseline loops with the best total similarity
            best, best_score = None, -1.0
            sim = [[similarity(b, base_locs, c, cur_locs) for b in bl] for c in cl]
            for comb in itertools.combinations(range(len(bl)), len(cl)):
                if any(sim[i][j] <= 0.0 for i, j in enumerate(comb)):
                    continue
                sc = sum(sim[i][j] for i, j in enumerate(comb))
                if sc > best_score:
                    best, best_score = comb, sc
            if best is not None:
                carrier_map = {i: j for i, j in enumerate(best)}
                for j, b in enumerate(bl):
                    if j not in best and j in top.loops:
                        orphans.append((j, b))
    else:
        base_locs = set()
    for k, sp in top.loops.items():
        if isinstance(k, str) and isinstance(sp, dict) and sp.get("applies") is not None and not any(sp["applies"](c) for c in cl):
            orphans.append((k, None))
    p = Plan(carrier_map, orphans, base, base_locs, cur) if (carrier_map is not None or orphans) else None
    if p is not None:
        p.new_helpers = new_helpers
    cache[ck] = p
    return p


def carrier_ordinal(eng, func, o):
    """the BASELINE ordinal of loop `o` of the carrier (the ordinal its contract is registered under) when loops left the carrier"""
    p = plan_for(eng) if func.key == eng.cur_key else None
    if p is None or p.carrier_map is None:
        return o
    return p.carrier_map.get(o, o)


def _call_sites(fn, name):
    for x in ast.walk(fn):
        if isinstance(x, ast.Call):
            f = x.func
            if isinstance(f, ast.Name) and f.id == name:
                yield x, False
            elif isinstance(f, ast.Attribute) and f.attr == name:
                yield x, True


def param_bindings(caller, helper, name):
    """{helper parameter: plain name the caller passes} over every call site of `name` in `caller` (sites must agree)"""
    a = helper.args
    pos = [p.arg for p in a.posonlyargs + a.args]
    kwo = [p.arg for p in a.kwonlyargs]
    out, clash = {}, set()
    for call, is_attr in _call_sites(caller, name):
        ps = pos[1:] if (is_attr and pos and pos[0] in ("self", "cls")) else pos
        pairs = list(zip(ps, call.args)) + [(kw.arg, kw.value) for kw in call.keywords if kw.arg in pos + kwo]
        for p, e in pairs:
            if isinstance(e, ast.Starred):
                break
            if isinstance(e, ast.Name):
                if out.get(p, e.id) != e.id:
                    clash.add(p)
                out[p] = e.id
            else:
                clash.add(p)
    return {p: n for p, n in out.items() if p not in clash}


def _votes(a, b):
    """votes {(name in b, name in a): count} from the matching blocks of two linearisations"""
    sm = difflib.SequenceMatcher(None, [t for t, _ in a], [t for t, _ in b], autojunk=False)
    votes = {}
    for i, j, size in sm.get_matching_blocks():
        for d in range(size):
            (_, on), (_, nn) = a[i + d], b[j + d]
            if on is not None and nn is not None:
                votes[(nn, on)] = votes.get((nn, on), 0) + 1
    return votes


def _decide(votes, mapping, taken, names_new):
    for (nn, on), v in sorted(votes.items(), key=lambda kv: -kv[1]):
        if nn in mapping or on in taken:
            continue
        if any(w >= v for (n2, o2), w in votes.items() if (n2 == nn) != (o2 == on)):
            continue  # ambiguous
        if nn != on and on in names_new:
            continue  # the target name means something else in the helper
        mapping[nn] = on
        taken.add(on)


def helper_plan(eng, func):
    """for a contract-less function of the carrier's module that the carrier's proof inlines: (renamed copy of its AST,
    {id(loop node of the copy): (loop contract key, baseline ordinal or None)}) or None"""
    p = plan_for(eng)
    if p is None or not p.orphans:
        return None
    if func.key in p.helpers:
        return p.helpers[func.key]
    p.helpers[func.key] = None
    node = func.node
    if not isinstance(node, (ast.FunctionDef, ast.AsyncFunctionDef)) or node.name not in p.new_helpers:
        return None
    hl = loops_of(node)
    if not hl:
        return None
    top = eng.cur_contract
    names_h = align.local_names(node, True)
    chosen, used = {}, set()
    for li, h in enumerate(hl):
        best, best_s = None, THRESHOLD
        for k, b in p.orphans:
            if k in used:
                continue
            if b is None:
                s = 1.0 if top.loops[k]["applies"](h) else 0.0
            else:
                sp = top.loops.get(k)
                if isinstance(sp, dict) and sp.get("applies") is not None and not sp["applies"](h):
                    continue
                s = similarity(b, p.base_locs, h, names_h)
            if s > best_s:
                best, best_s = (k, b), s
        if best is not None:
            chosen[li] = best + (best_s,)
            used.add(best[0])
    if not chosen:
        return None
    # names: loop alignment first, then the alignment of the whole functions, then the call site
    mapping, taken = {}, set()
    for li, (k, b, _) in chosen.items():
        if b is not None:
            _decide(_votes(_toks(b, p.base_locs), _toks(hl[li], names_h)), mapping, taken, names_h)
    if p.base is not None:
        _decide(_votes(_toks(p.base, p.base_locs), _toks(node, names_h)), mapping, taken, names_h)
    params = align._own_params(node)
    for prm, nm in param_bindings(p.cur, node, node.name).items():
        if prm == nm or nm in names_h or nm in taken:
            continue
        if prm in mapping and mapping[prm] != prm:
            continue
        mapping[prm] = nm
        taken.add(nm)
    mapping = {a: b for a, b in mapping.items() if a != b}
    new = copy.deepcopy(node)
    new._pyvc_isgen = None
    if hasattr(new, "_loop_ords"):
        del new._loop_ords
    nl = loops_of(new)
    if mapping:
        align.apply(new, mapping, nested=False)  # (parameters in the signature are never renamed by apply; their uses in the body are)
        pre = []
        for prm in sorted(params & set(mapping)):  # the preamble `new_name = parameter` binds the new name
            st = ast.Assign(targets=[ast.Name(id=mapping[prm], ctx=ast.Store())], value=ast.Name(id=prm, ctx=ast.Load()))
            ast.copy_location(st, new.body[0])
            ast.fix_missing_locations(st)
            pre.append(st)
        new.body = pre + new.body
    follow = {}
    for li, (k, b, s) in chosen.items():
        ob = k if isinstance(k, int) else None
        follow[id(nl[li])] = (k, ob)
    new._pyvc_follow = follow
    FOLLOWED.setdefault(eng.cur_key, []).append(
        dict(helper=func.key, loops={str(li): dict(contract=str(k), similarity=round(s, 2)) for li, (k, b, s) in chosen.items()}, renamed=dict(mapping)))
    p.helpers[func.key] = new
    return new


def prepare_call(eng, func):
    """called by Interp.invoke for a function whose body is about to be inlined: the Func to run (a renamed copy when loop
    contracts of the carrier under verification follow into it) and whether its frame should see the caller's variables in clauses"""
    top = eng.cur_contract
    if top is None or not getattr(top, "loops", None) or eng.spec_mode or func.key == eng.cur_key or eng.cur_key is None:
        return func, False
    if func.key.split(":")[0] != eng.cur_key.split(":")[0] or "<locals>" in func.key:
        return func, False
    if eng.registry.get(func.key) is not None:
        return func, False
    new = helper_plan(eng, func)
    if new is None:
        return func, False
    from .values import Func

    return Func(new, func.frame, func.globs, func.key, func.defcls), True


def helper_spec(eng, fr, node):
    """(loop contract, ordinal, label function name) for a loop of a followed helper, or None"""
    func = fr.func
    m = getattr(func.node, "_pyvc_follow", None) if func is not None else None
    if not m or id(node) not in m or eng.cur_contract is None:
        return None
    k, ob = m[id(node)]
    spec = eng.cur_contract.loops.get(k)
    if spec is None:
        return None
    fn = eng.cur_key.split(":")[-1]
    if isinstance(spec, dict):
        spec = dict(spec)
        spec["_fn"] = fn
        spec["_followed"] = True
    return spec, ob


# ======================================================================================= (2) nested carriers that moved
MOVED: dict[str, dict] = {}  # carrier key -> what the contract of the vanished nested function was verified on


def _free_names(fn):
    bound = align.local_names(fn, True)
    return {x.id for x in ast.walk(fn) if isinstance(x, ast.Name) and isinstance(x.ctx, ast.Load) and x.id not in bound}


def _callees(fn):
    out = set()
    for x in ast.walk(fn):
        if isinstance(x, ast.Call):
            if isinstance(x.func, ast.Name):
                out.add(x.func.id)
            elif isinstance(x.func, ast.Attribute) and isinstance(x.func.value, ast.Name) and x.func.value.id in ("self", "cls"):
                out.add(x.func.attr)
    return out


def _bindings(outer, name):
    """every place where `name` is bound inside `outer`: [(kind, node, path info)]"""
    out = []
    for x in ast.walk(outer):
        if isinstance(x, ast.Assign):
            for t in x.targets:
                if isinstance(t, ast.Name) and t.id == name:
                    out.append(("assign", x, None))
                elif any(isinstance(y, ast.Name) and y.id == name for y in ast.walk(t)):
                    out.append(("other", x, None))
        elif isinstance(x, (ast.AnnAssign, ast.AugAssign, ast.NamedExpr)) and isinstance(x.target, ast.Name) and x.target.id == name:
            out.append(("assign", x, None) if isinstance(x, ast.AnnAssign) and x.value is not None else ("other", x, None))
        elif isinstance(x, (ast.comprehension, ast.For)):
            t = x.target
            if isinstance(t, ast.Name) and t.id == name:
                out.append(("other", x, None))
            elif isinstance(t, ast.Tuple) and all(isinstance(e, ast.Name) for e in t.elts) and name in [e.id for e in t.elts]:
                out.append(("unpack", x, [e.id for e in t.elts].index(name)))
            elif any(isinstance(y, ast.Name) and y.id == name for y in ast.walk(t)):
                out.append(("other", x, None))
        elif isinstance(x, ast.arg) and x.arg == name:
            out.append(("other", x, None))
        elif isinstance(x, (ast.FunctionDef, ast.AsyncFunctionDef)) and x is not outer and x.name == name:
            out.append(("other", x, None))
    return out


def _definition(outer, name):
    """the expression a singly-bound local of `outer` stands for, over names that are in scope where it is used; None if unknown"""
    b = _bindings(outer, name)
    if len(b) != 1:
        return None
    kind, node, j = b[0]
    if kind == "assign":
        return copy.deepcopy(node.value)
    if kind != "unpack":
        return None
    it = node.iter
    if isinstance(it, ast.Name):
        bb = _bindings(outer, it.id)
        if len(bb) != 1 or bb[0][0] != "assign":
            return None
        it = bb[0][1].value
    if not isinstance(it, (ast.ListComp, ast.GeneratorExp)) or len(it.generators) != 1 or it.generators[0].ifs:
        return None
    elt, gen = it.elt, it.generators[0]
    if not isinstance(elt, ast.Tuple) or len(elt.elts) != len(node.target.elts):
        return None
    inner_t = {y.id for y in ast.walk(gen.target) if isinstance(y, ast.Name)}
    ren = {}
    for e, t in zip(elt.elts, node.target.elts):  # a component that IS a variable of the comprehension is the unpacked name at that position
        if isinstance(e, ast.Name) and e.id in inner_t:
            ren[e.id] = t.id
    expr = copy.deepcopy(elt.elts[j])
    for y in ast.walk(expr):
        if isinstance(y, ast.Name):
            if y.id in ren:
                y.id = ren[y.id]
            elif y.id in inner_t:
                return None
    return expr


def moved_nested(key, src, mod, outer, part):
    """`outer.<locals>.part` is gone.  If `outer` now calls a function of the module (one it did not call in the baseline text) that
    resembles the baseline text of `part`, return (synthesised FunctionDef, source segment) of
        def part(<baseline parameters>): return <that function>(<the arguments `outer` passes, over part's parameters / closure names>)
    so that the contract of `part` is verified on the function that took its place (inlined from the repository AST).  Otherwise
    raise KeyError saying what was tried."""
    missing = f"carrier not found: {key} (missing '{part}'"
    base = baseline_fn(key)
    relpath = key.split(":")[0]
    outer_key = key[: key.index(".<locals>." + part)] if (".<locals>." + part) in key else None
    base_outer = baseline_fn(outer_key) if outer_key else None
    if base is None:
        raise KeyError(missing + ")")
    old_calls = _callees(base_outer) if base_outer is not None else set()
    defs = {}
    for st in ast.walk(mod):
        if isinstance(st, (ast.FunctionDef, ast.AsyncFunctionDef)) and st is not outer:
            defs.setdefault(st.name, st)
    cands = [defs[n] for n in sorted(_callees(outer) - old_calls) if n in defs and n != part]
    if not cands:
        raise KeyError(missing + f"; {outer.name} calls no new function of the module that could have taken its place)")
    bl = align.local_names(base, True)
    scored = sorted(((_ratio(_toks(ast.Module(body=base.body, type_ignores=[]), bl), _toks(ast.Module(body=c.body, type_ignores=[]), align.local_names(c, True))), c) for c in cands),
                    key=lambda t: -t[0])
    score, cand = scored[0]
    tried = f"tried `{cand.name}` (called by {outer.name}, similarity {score:.2f} with the baseline text of {part})"
    if score < 0.25:
        raise KeyError(missing + "; " + tried + ": too different)")
    sites = [c for c, _ in _call_sites(outer, cand.name)]
    if not sites or any(ast.dump(s) != ast.dump(sites[0]) for s in sites[1:]):
        raise KeyError(missing + "; " + tried + ": no single call site)")
    call = copy.deepcopy(sites[0])
    allowed = align._own_params(base) | _free_names(base)
    outer_locals = align.local_names(outer, True)
    for _ in range(6):
        todo = sorted({x.id for x in ast.walk(call) if isinstance(x, ast.Name) and isinstance(x.ctx, ast.Load) and x.id not in allowed and x.id in outer_locals})
        if not todo:
            break
        for nm in todo:
            d = _definition(outer, nm)
            if d is None:
                raise KeyError(missing + "; " + tried + f": the argument `{nm}` of the call cannot be expressed over the parameters and closure variables of {part})")

            class Sub(ast.NodeTransformer):
                def visit_Name(self, x):
                    return copy.deepcopy(d) if x.id == nm and isinstance(x.ctx, ast.Load) else x

            call = Sub().visit(call)
    else:
        raise KeyError(missing + "; " + tried + ": argument definitions too deep)")
    wrapper = ast.FunctionDef(name=part, args=copy.deepcopy(base.args), body=[ast.Return(value=call)], decorator_list=[], returns=None, type_comment=None)
    if hasattr(ast, "TypeVar"):
        wrapper.type_params = []
    for a in ast.walk(wrapper.args):
        if isinstance(a, ast.arg):
            a.annotation = None
    ast.copy_location(wrapper, cand)
    ast.fix_missing_locations(wrapper)
    seg = ast.unparse(wrapper) + "\n# verified on:\n" + (ast.get_source_segment(src, cand) or "")
    MOVED[key] = dict(function=relpath + ":" + cand.name, similarity=round(score, 2), wrapper=ast.unparse(wrapper))
    return wrapper, seg
