"""Python `re` pattern text -> z3 regular expression (sequence theory), for LANGUAGE facts about the patterns of /repo.

    P = parse(r"^\\s*([0-9]+)\\s+...$")            # via re._parser.parse (sre_parse) of the REAL pattern text
    P.search() / P.match() / P.fullmatch()         # { s | pattern.search(s) / .match(s) / .fullmatch(s) is not None }
    P.group(g)                                     # language of the sub-pattern inside group g (pure groups only)
    P.between(g, h) / P.before(g)                  # language of the top-level items between two top-level groups

Only the EXISTENCE of a match is modelled (a language), never which of several matches `re` picks: greedy / lazy
quantifiers and the order of alternatives do not change the language.

Faithfulness:
  * alphabet: z3's characters are the code points 0..0x2FFFF; Python's go up to 0x10FFFF.  Every class of a pattern is
    checked (natively, with `re` itself) to treat ALL code points above 0x2FFFF alike and like U+2FFFF, so they are
    represented by U+2FFFF; otherwise Unsupported.
  * \\s \\d \\w (and their negations) are the sets `re` itself matches in the running interpreter (computed by running the
    one-character pattern over every code point), i.e. Unicode whitespace / decimal digits for str patterns;
  * `$` is Python's: at the end of the string or just before a final newline; `\\Z` only at the end; `.` excludes "\\n";
  * look-aheads (?=..) (?!..) are intersections with the language of the rest of the subject (the translation is in
    continuation-passing form: lang(items, K) = { s | items match a prefix of s and the rest of s is in K });
  * supported: literals, classes, ranges, categories, `.`, ? * + {m,n} (greedy or lazy), capturing / non-capturing
    groups, alternation, ^ as the first item, $ / \\Z anywhere outside a repetition, look-aheads outside a repetition.
    Everything else (flags other than ASCII, back-references, look-behind, possessive / atomic, conditionals, \\b, ^ in
    the middle, an anchor inside a repetition) raises Unsupported -- never approximated.
"""
from __future__ import annotations

import re
import re._constants as C
import re._parser as P
from functools import lru_cache

import z3

from pyvc.engine import Unsupported

MAXCP = 0x2FFFF  # largest z3 character
_STR = z3.StringSort()
_RE = z3.ReSort(_STR)


# --------------------------------------------------------------------------- characters and classes
def zstr(s: str):
    """z3 string constant of a Python str (every character escaped, so that a backslash in s is never read as an escape)"""
    for ch in s:
        if ord(ch) > MAXCP:
            raise Unsupported(f"character U+{ord(ch):X} is outside z3's alphabet")
    return z3.StringVal("".join(ch if (ch.isascii() and ch.isalnum()) or ch == " " else "\\u{%x}" % ord(ch) for ch in s))


def norm(ranges):
    """sorted disjoint non-adjacent (lo, hi) ranges"""
    out = []
    for lo, hi in sorted(ranges):
        if lo > hi:
            continue
        if out and lo <= out[-1][1] + 1:
            out[-1] = (out[-1][0], max(out[-1][1], hi))
        else:
            out.append((lo, hi))
    return out


def complement(ranges, top=MAXCP):
    out, nxt = [], 0
    for lo, hi in norm(ranges):
        if lo > nxt:
            out.append((nxt, lo - 1))
        nxt = hi + 1
    if nxt <= top:
        out.append((nxt, top))
    return out


def _ranges_of(pred, top):
    out, start = [], None
    for c in range(top + 1):
        if pred(c):
            if start is None:
                start = c
        elif start is not None:
            out.append((start, c - 1))
            start = None
    if start is not None:
        out.append((start, top))
    return out


_ALL = None


def _all_chars():
    global _ALL
    if _ALL is None:
        _ALL = "".join(map(chr, range(0x110000)))
    return _ALL


@lru_cache(maxsize=None)
def class_ranges(src: str, flags: int = 0):
    """the set of code points a ONE-CHARACTER pattern (a class like `[\\s+\\-.0-9eE]`, `\\d`, `.`) matches, decided by `re`
    itself over every code point; ranges over 0..MAXCP.  Code points above MAXCP must all behave like MAXCP."""
    pat = re.compile(src, flags)
    hit = bytearray(0x110000)
    for m in pat.finditer(_all_chars()):
        if m.end() - m.start() != 1:
            raise Unsupported(f"class pattern {src!r} matched more than one character")
        hit[m.start()] = 1
    top = hit[MAXCP]
    if any(b != top for b in hit[MAXCP + 1:]):
        raise Unsupported(f"class {src!r} distinguishes code points above U+{MAXCP:X} (outside z3's alphabet)")
    return tuple(_ranges_of(lambda c: hit[c], MAXCP))


def re_of_ranges(ranges):
    ranges = norm(ranges)
    if not ranges:
        return z3.Empty(_RE)
    parts = [z3.Re(zstr(chr(lo))) if lo == hi else z3.Range(zstr(chr(lo)), zstr(chr(hi))) for lo, hi in ranges]
    return parts[0] if len(parts) == 1 else z3.Union(*parts)


_CATEGORY_SRC = {
    C.CATEGORY_DIGIT: r"\d", C.CATEGORY_NOT_DIGIT: r"\D", C.CATEGORY_SPACE: r"\s", C.CATEGORY_NOT_SPACE: r"\S",
    C.CATEGORY_WORD: r"\w", C.CATEGORY_NOT_WORD: r"\W",
}


def full():
    return z3.Full(_RE)


def eps():
    return z3.Re(zstr(""))


def cat(*rs):
    rs = [r for r in rs if r is not None]
    if not rs:
        return eps()
    return rs[0] if len(rs) == 1 else z3.Concat(*rs)


def alt(*rs):
    return rs[0] if len(rs) == 1 else z3.Union(*rs)


def lit(s):
    return z3.Re(zstr(s))


# --------------------------------------------------------------------------- the translator
_PURE_OPS = {C.LITERAL, C.NOT_LITERAL, C.ANY, C.IN, C.MAX_REPEAT, C.MIN_REPEAT, C.SUBPATTERN, C.BRANCH}


class Pat:
    def __init__(self, pattern: str, flags: int = 0):
        if not isinstance(pattern, str):
            raise Unsupported("bytes patterns are not supported")
        self.pattern, self.flags_in = pattern, int(flags)
        tree = P.parse(pattern, flags)
        fl = tree.state.flags
        self.ascii = bool(fl & re.ASCII)
        extra = fl & ~(re.UNICODE | re.ASCII)
        if extra:
            raise Unsupported(f"regex flags {re.RegexFlag(extra)!r} are not supported")
        self.cflags = re.ASCII if self.ascii else 0
        self.ngroups = tree.state.groups - 1
        self.items = list(tree)
        self.anchored = bool(self.items) and self.items[0] == (C.AT, C.AT_BEGINNING) or bool(self.items) and self.items[0] == (C.AT, C.AT_BEGINNING_STRING)
        self.body = self.items[1:] if self.anchored else self.items
        self._groups = {}
        self._index(self.items)

    # ------------------------------------------------------------ structure
    def _index(self, items):
        for op, av in items:
            if op is C.SUBPATTERN:
                g, add, dele, sub = av
                if add or dele:
                    raise Unsupported("inline flags in a group")
                if g is not None:
                    self._groups[g] = list(sub)
                self._index(sub)
            elif op is C.BRANCH:
                for a in av[1]:
                    self._index(a)
            elif op in (C.MAX_REPEAT, C.MIN_REPEAT, C.POSSESSIVE_REPEAT):
                self._index(av[2])
            elif op in (C.ASSERT, C.ASSERT_NOT):
                self._index(av[1])
            elif op is C.ATOMIC_GROUP:
                self._index(av)

    def top_groups(self):
        """numbers of the capturing groups that are top-level items, in order"""
        return [av[0] for op, av in self.body if op is C.SUBPATTERN and av[0] is not None]

    def _pos(self, g):
        for i, (op, av) in enumerate(self.body):
            if op is C.SUBPATTERN and av[0] == g:
                return i
        raise Unsupported(f"group {g} is not a top-level item of {self.pattern!r}")

    # ------------------------------------------------------------ classes
    def _cls(self, src):
        return list(class_ranges(src, self.cflags))

    def _in_ranges(self, av):
        neg, rs = False, []
        for op, a in av:
            if op is C.NEGATE:
                neg = True
            elif op is C.LITERAL or op is C.RANGE:
                lo, hi = (a, a) if op is C.LITERAL else a
                if hi >= MAXCP:  # U+2FFFF stands for every code point from there on: it may not be named on its own
                    raise Unsupported("class names a code point at or beyond the end of z3's alphabet")
                rs.append((lo, hi))
            elif op is C.CATEGORY:
                if a not in _CATEGORY_SRC:
                    raise Unsupported(f"category {a}")
                rs.extend(self._cls(_CATEGORY_SRC[a]))
            else:
                raise Unsupported(f"class member {op}")
        rs = norm(rs)
        return complement(rs) if neg else rs

    # ------------------------------------------------------------ pure part: plain regular expressions
    def pure(self, items):
        return all(self._pure1(op, av) for op, av in items)

    def _pure1(self, op, av):
        if op is C.SUBPATTERN:
            return self.pure(av[3])
        if op is C.BRANCH:
            return all(self.pure(a) for a in av[1])
        if op in (C.MAX_REPEAT, C.MIN_REPEAT):
            return self.pure(av[2])
        return op in _PURE_OPS

    def rx(self, items):
        """z3 regular expression of a pure item sequence"""
        return cat(*[self._rx1(op, av) for op, av in items])

    def _rx1(self, op, av):
        if op is C.LITERAL:
            if av >= MAXCP:
                raise Unsupported("literal at or beyond the end of z3's alphabet")
            return z3.Re(zstr(chr(av)))
        if op is C.NOT_LITERAL:
            if av >= MAXCP:
                raise Unsupported("literal at or beyond the end of z3's alphabet")
            return re_of_ranges(complement([(av, av)]))
        if op is C.ANY:
            return re_of_ranges(complement([(10, 10)]))  # no DOTALL (flags are refused above)
        if op is C.IN:
            return re_of_ranges(self._in_ranges(av))
        if op is C.SUBPATTERN:
            return self.rx(av[3])
        if op is C.BRANCH:
            return alt(*[self.rx(a) for a in av[1]])
        if op in (C.MAX_REPEAT, C.MIN_REPEAT):
            lo, hi, sub = av
            r = self.rx(sub)
            if hi is C.MAXREPEAT:
                if lo == 0:
                    return z3.Star(r)
                if lo == 1:
                    return z3.Plus(r)
                return z3.Concat(z3.Loop(r, lo, lo), z3.Star(r))
            if (lo, hi) == (0, 1):
                return z3.Option(r)
            return z3.Loop(r, lo, hi)
        raise Unsupported(f"regex construct {op} is not supported")

    # ------------------------------------------------------------ continuation-passing translation
    def lang(self, items, K):
        """{ s | the items match a prefix of s (from its start) and the rest of s is in K };  K = language of the rest"""
        items = list(items)
        i = len(items)
        while i > 0 and self._pure1(*items[i - 1]):
            i -= 1
        tail = cat(self.rx(items[i:]), K) if i < len(items) else K  # longest pure suffix: a plain concatenation
        for op, av in reversed(items[:i]):
            tail = self._step(op, av, tail)
        return tail

    def _step(self, op, av, K):
        if self._pure1(op, av):
            return cat(self._rx1(op, av), K)
        if op is C.AT:
            if av is C.AT_END:
                return z3.Intersect(K, z3.Union(eps(), lit("\n")))
            if av is C.AT_END_STRING:
                return z3.Intersect(K, eps())
            raise Unsupported(f"anchor {av} in this position")
        if op is C.ASSERT or op is C.ASSERT_NOT:
            direction, sub = av
            if direction != 1:
                raise Unsupported("look-behind")
            ahead = self.lang(sub, full())
            return z3.Intersect(ahead if op is C.ASSERT else z3.Complement(ahead), K)
        if op is C.SUBPATTERN:
            return self.lang(av[3], K)
        if op is C.BRANCH:
            return alt(*[self.lang(a, K) for a in av[1]])
        if op in (C.MAX_REPEAT, C.MIN_REPEAT):
            raise Unsupported("an anchor or look-ahead inside a repetition")
        raise Unsupported(f"regex construct {op} is not supported")

    # ------------------------------------------------------------ the three methods
    def match(self):
        return self.lang(self.body, full())

    def fullmatch(self):
        return self.lang(self.body, eps())

    def search(self):
        m = self.match()
        return m if self.anchored else cat(full(), m)

    def hit(self, method):
        if method not in ("search", "match", "fullmatch"):
            raise Unsupported(f"pattern method {method}")
        return getattr(self, method)()

    # ------------------------------------------------------------ pieces
    def group(self, g):
        if g not in self._groups:
            raise Unsupported(f"no group {g} in {self.pattern!r}")
        if not self.pure(self._groups[g]):
            raise Unsupported(f"group {g} holds an anchor / look-ahead")
        return self.rx(self._groups[g])

    def between(self, g, h):
        a, b = self._pos(g), self._pos(h)
        seg = self.body[a + 1:b]
        if not self.pure(seg):
            raise Unsupported(f"an anchor / look-ahead between groups {g} and {h}")
        return self.rx(seg)

    def before(self, g):
        seg = self.body[:self._pos(g)]
        if not self.pure(seg):
            raise Unsupported(f"an anchor / look-ahead before group {g}")
        return self.rx(seg)

    def after(self, g, K=None):
        """language of the REST of the subject after top-level group g (to the end for search/match: K = anything)"""
        return self.lang(self.body[self._pos(g) + 1:], full() if K is None else K)


@lru_cache(maxsize=None)
def parse(pattern: str, flags: int = 0) -> Pat:
    return Pat(pattern, flags)


# --------------------------------------------------------------------------- reference sets (decided by the running Python)
@lru_cache(maxsize=None)
def py_space():
    """str.isspace characters (= what a line.isspace() test and int()/float() stripping accept)"""
    rs = _ranges_of(lambda c: chr(c).isspace(), 0x10FFFF)
    if any(hi > MAXCP for _, hi in rs):
        raise Unsupported("whitespace outside z3's alphabet")
    return tuple(rs)


@lru_cache(maxsize=None)
def py_decimal():
    """Unicode decimal digits (category Nd): the digits int() / float() accept"""
    rs = _ranges_of(lambda c: chr(c).isdecimal(), 0x10FFFF)
    if any(hi > MAXCP for _, hi in rs):
        raise Unsupported("decimal digits outside z3's alphabet")
    return tuple(rs)


# --------------------------------------------------------------------------- concrete membership (used by the cross-check)
def member(s: str, r) -> bool:
    """is the concrete string s in the z3 regular expression r (decided by z3)"""
    t = z3.simplify(z3.InRe(zstr(s), r))
    if z3.is_true(t):
        return True
    if z3.is_false(t):
        return False
    sol = z3.Solver()
    sol.set("timeout", 20000)
    sol.add(t)
    v = sol.check()
    if v == z3.unknown:
        raise RuntimeError(f"z3 could not decide membership of {s!r}")
    return v == z3.sat
