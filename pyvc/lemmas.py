"""Lemma library: abstract real-arithmetic facts proved once (few variables) and
instantiated on the carriers' big terms, where the solver cannot find them itself.
Every lemma is an obligation of the property that uses it (kind 'lemma')."""
import z3

LEMMAS = {}


def lemma(name, nvars):
    def deco(f):
        LEMMAS[name] = (nvars, f)
        return f

    return deco


def use(E, name, *terms):
    nvars, f = LEMMAS[name]
    assert len(terms) == nvars, (name, len(terms))
    E.assume(f(*terms))
    E.used_lemmas.add(name)


def abstract_goal(name):
    nvars, f = LEMMAS[name]
    vs = [z3.Real(f"lv{i}") for i in range(nvars)]
    return f(*vs)


@lemma("quadratic-root", 5)
def _quadratic_root(a, b, c, y, t):
    return z3.Implies(z3.And(a != 0, y * y == b * b - 4 * a * c, z3.Or(2 * a * t + b == y, 2 * a * t + b == -y)), a * t * t + b * t + c == 0)


@lemma("no-real-root-when-discriminant-negative", 4)
def _no_root(a, b, c, t):
    return z3.Implies(z3.And(b * b - 4 * a * c < 0), a * t * t + b * t + c != 0)


@lemma("sum-of-three-squares-zero", 3)
def _sq0(a, b, c):
    return z3.Implies(a * a + b * b + c * c == 0, z3.And(a == 0, b == 0, c == 0))


def _cross(r, n):
    return (r[1] * n[2] - r[2] * n[1], r[2] * n[0] - r[0] * n[2], r[0] * n[1] - r[1] * n[0])


@lemma("zero-cross-product-means-parallel", 6)
def _par(rx, ry, rz, nx, ny, nz):
    cr = _cross((rx, ry, rz), (nx, ny, nz))
    k = rx * nx + ry * ny + rz * nz
    return z3.Implies(z3.And(cr[0] == 0, cr[1] == 0, cr[2] == 0, nx * nx + ny * ny + nz * nz == 1), z3.And(rx == k * nx, ry == k * ny, rz == k * nz))


@lemma("parallel-unit-vectors-are-equal-or-opposite", 7)
def _pm(rx, ry, rz, nx, ny, nz, k):
    return z3.Implies(z3.And(rx == k * nx, ry == k * ny, rz == k * nz, rx * rx + ry * ry + rz * rz == 1, nx * nx + ny * ny + nz * nz == 1), z3.Or(k == 1, k == -1))


@lemma("cross-product-is-orthogonal", 6)
def _orth(rx, ry, rz, nx, ny, nz):
    cr = _cross((rx, ry, rz), (nx, ny, nz))
    return z3.And(cr[0] * nx + cr[1] * ny + cr[2] * nz == 0, cr[0] * rx + cr[1] * ry + cr[2] * rz == 0)


@lemma("normalised-vector-is-unit", 4)
def _norm(a, b, c, y):
    return z3.Implies(z3.And(y * y == a * a + b * b + c * c, y != 0), (a / y) * (a / y) + (b / y) * (b / y) + (c / y) * (c / y) == 1)


@lemma("scaled-vector-stays-orthogonal", 7)
def _scaled_orth(a, b, c, y, n0, n1, n2):
    return z3.Implies(z3.And(a * n0 + b * n1 + c * n2 == 0, y != 0), (a / y) * n0 + (b / y) * n1 + (c / y) * n2 == 0)
