"""Expression / statement interpreter of pyvc (program mode and specification mode)."""
from __future__ import annotations

import ast
import copy
import inspect
from fractions import Fraction

import z3

from . import extract
from .engine import (
    BreakSig, ContinueSig, Engine, Frame, Infeasible, PathEnd, ProgExc, ReturnSig, Unsupported, _simp,
)
from .values import (
    Bound, Callback, DictListRef, Func, Iter, NArr, NativeMethod, Obj, Opaque, PDict, PList,
    SArr, Sym, fresh, fresh_name, is_scalar, kind_of, snapshot, to_z3, zint, frac,
)


from .spec_fn import SpecFn


class SuperProxy:
    def __init__(self, obj, after_cls):
        self.obj = obj
        self.after = after_cls


class ExcObj:
    """Instance of a (builtin) exception class created by the program."""

    def __init__(self, cls, args):
        self.cls = cls
        self.args = args
        self.cause = None


def is_repo_class(c):
    try:
        f = inspect.getsourcefile(c)
    except (TypeError, OSError):
        return False
    import os

    return bool(f) and os.path.realpath(f).startswith(os.path.realpath(extract.REPO) + os.sep)


class Rewrite:
    """result of a proof annotation (asserts_after / asserts_after_in): `the variable just assigned equals this simpler value`;
    scalars, or concrete-shape arrays (NArr) compared item by item"""

    def __init__(self, value):
        self.value = value

    def equation(self, cur):
        a, b = cur, self.value
        if isinstance(a, NArr) and isinstance(b, NArr):
            if a.shape != b.shape:
                return False
            return z3.And(*[to_z3(x, "real") == to_z3(y, "real") for x, y in zip(a.items, b.items)])
        if isinstance(a, NArr) or isinstance(b, NArr):
            return False
        k = "real" if "real" in (kind_of(a), kind_of(b)) else kind_of(a)
        return to_z3(a, k) == to_z3(b, k)


class Interp(Engine):
    # ---------------------------------------------------------------- lookup
    def func_from_py(self, pyfunc, defcls=None):
        f = inspect.unwrap(pyfunc) if callable(pyfunc) else pyfunc
        key = extract.func_key(f)
        if key is None:
            return None
        node, _, _ = extract.find(key)
        return Func(node, None, f.__globals__, key, defcls)

    def find_method(self, cls, name, after=None):
        """Resolve `name` along cls.__mro__ (after class `after` when given).
        Returns ('func', Func) | ('prop', property, owner) | ('raw', value) | None."""
        mro = list(cls.__mro__)
        if after is not None:
            mro = mro[mro.index(after) + 1 :]
        for c in mro:
            if name in c.__dict__:
                v = c.__dict__[name]
                if isinstance(v, staticmethod):
                    return ("static", v.__func__, c)
                if isinstance(v, classmethod):
                    return ("classm", v.__func__, c)
                if isinstance(v, property):
                    return ("prop", v, c)
                if inspect.isfunction(v):
                    return ("func", v, c)
                return ("raw", v, c)
        return None

    def getattr_(self, v, name):
        if hasattr(v, "__pyvc_getattr__"):
            return v.__pyvc_getattr__(self, name)
        if isinstance(v, Obj):
            if name in v.fields:
                return v.fields[name]
            if name == "__class__":
                return v.cls
            r = self.find_method(v.cls, name)
            if r is None:
                raise ProgExc(AttributeError, f"{v.cls.__name__}.{name}")
            return self.bind_member(r, v, name)
        if isinstance(v, SuperProxy):
            r = self.find_method(v.obj.cls, name, after=v.after)
            if r is None:
                raise ProgExc(AttributeError, name)
            return self.bind_member(r, v.obj, name)
        if isinstance(v, (SArr, NArr, PList, PDict, DictListRef, Iter)):
            m = self.models.method_of(self, v, name)
            return m
        if isinstance(v, slice) and name == "indices":
            return NativeMethod(self.models.slice_indices, v, name)
        if isinstance(v, Opaque):
            if "." + name in v.proto:
                return v.proto["." + name](self, v)
            if name in v.proto:
                return NativeMethod(lambda eng, recv, a, k, _m=v.proto[name]: _m(eng, recv, a, k), v, name)
            raise Unsupported(f"opaque object has no modelled attribute {name}")
        if isinstance(v, ExcObj):
            if name == "args":
                return v.args
            raise Unsupported(f"exception attribute {name}")
        if isinstance(v, Sym):
            h = getattr(self, "ref_attr_hook", None)  # contract option: a field heap for object REFERENCES (kind ref / oref)
            if h is not None and v.kind in ("ref", "oref"):
                r = h(self, v, name, None, False)
                if r is not NotImplemented:
                    return r
            return self.models.scalar_attr(self, v, name)
        if isinstance(v, type) and is_repo_class(v):
            r = self.find_method(v, name)
            if r is None:
                raise ProgExc(AttributeError, name)
            kind = r[0]
            if kind == "static":
                return self.func_from_py(r[1], r[2])
            if kind == "classm":
                return Bound(self.func_from_py(r[1], r[2]), v)
            if kind == "func":
                return self.func_from_py(r[1], r[2])
            return r[1]
        if isinstance(v, (Fraction, int, float)) and name == "item":  # numpy scalars are kept as Python numbers
            return NativeMethod(lambda eng, recv, a, k: recv, v, name)
        try:
            return getattr(v, name)
        except AttributeError:
            raise ProgExc(AttributeError, f"{type(v).__name__}.{name}")

    def bind_member(self, r, obj, name):
        kind = r[0]
        if kind == "func":
            f = self.func_from_py(r[1], r[2])
            if f is None:  # method of a non-repo base class (object, ABC, Generic, list ...)
                return NativeMethod(self.models.foreign_method(r[1], name), obj, name)
            return Bound(f, obj)
        if kind == "static":
            return self.func_from_py(r[1], r[2])
        if kind == "classm":
            return Bound(self.func_from_py(r[1], r[2]), obj.cls)
        if kind == "prop":
            prop = r[1]
            if prop.fget is None:
                raise ProgExc(AttributeError, name)
            f = self.func_from_py(prop.fget, r[2])
            if f is None:
                raise Unsupported(f"foreign property {name}")
            return self.invoke(f, [obj], {})
        v = r[1]
        if kind == "raw" and isinstance(v, __import__("functools").cached_property):
            # functools.cached_property: computed on the first read and STORED IN THE INSTANCE __dict__ under the attribute's name (later
            # reads find the field; copy.copy / copy.deepcopy of the object carry the stored value along: models.deepcopy_value copies
            # Obj.fields).  The store is a write to the object like any other: a frozen (input) object owes the frame obligation.
            f = self.func_from_py(v.func, r[2])
            val = self.invoke(f, [obj], {})
            if getattr(obj, "frozen", False) and not self.spec_mode:
                self.prove(self.site("frame-attr-write"), False, "frame", f"write to field {name} of an input object (functools.cached_property stores its value in the instance)")
            obj.fields[name] = val
            return val
        if kind == "raw" and callable(v) and isinstance(obj, Obj) and (("__items__" in obj.fields) or (name == "__init__" and isinstance(obj.cls, type) and issubclass(obj.cls, list))):
            return NativeMethod(self.models.foreign_method(v, name), obj, name)
        if kind == "raw" and name in ("__init__", "__init_subclass__") and callable(v):
            return NativeMethod(lambda eng, recv, a, k: None, obj, name)
        return v

    def setattr_(self, v, name, val):
        if hasattr(v, "__pyvc_setattr__"):  # extension values (pyvc/ext_*.py) with their own attribute store
            return v.__pyvc_setattr__(self, name, val)
        if isinstance(v, Obj):
            r = self.find_method(v.cls, name)
            if r is not None and r[0] == "prop":
                prop = r[1]
                if prop.fset is None:
                    raise ProgExc(AttributeError, name)
                key = extract.func_key(prop.fset)
                node, _, _ = extract.find(key + "@setter")
                f = Func(node, None, prop.fset.__globals__, key + "@setter", r[2])
                self.invoke(f, [v, val], {})
                return
            if getattr(v, "frozen", False) and not self.spec_mode:
                self.prove(self.site("frame-attr-write"), False, "frame", f"write to field {name} of an input object")
            rec = getattr(self, "record_attr_store", None)  # verify.Verifier: which EXTRA attributes a carrier keeps on its inputs (option extra_attrs_arbitrary)
            if rec is not None and not self.spec_mode:
                rec(v, name, val)
            v.fields[name] = val
            return
        h = getattr(self, "ref_attr_hook", None)
        if h is not None and isinstance(v, Sym) and v.kind in ("ref", "oref"):
            if h(self, v, name, val, True) is not NotImplemented:
                return
        raise Unsupported(f"attribute store on {type(v).__name__}")

    # ------------------------------------------------------------ expressions
    def ev(self, n, fr):
        m = getattr(self, "ev_" + type(n).__name__, None)
        if m is None:
            raise Unsupported(f"expression {type(n).__name__} at line {getattr(n, 'lineno', '?')}")
        return m(n, fr)

    def ev_Constant(self, n, fr):
        v = n.value
        if isinstance(v, float):
            return frac(v)
        return v

    def ev_Name(self, n, fr):
        return fr.lookup(n.id)

    def ev_Attribute(self, n, fr):
        base = self.ev(n.value, fr)
        if n.attr == "pi" and getattr(base, "__name__", "") in ("numpy", "math"):
            return self.pi_const()
        return self.getattr_(base, n.attr)

    def pi_const(self):
        """pi is an abstract real constant with 3.14159 < pi < 3.1416 (only algebraic
        facts about it are ever used)."""
        if "pi" not in self.ghost:
            p = Sym(z3.Real("pi"), "real")
            self.assume(z3.And(p.z > z3.RealVal("3.14159"), p.z < z3.RealVal("3.1416")))
            self.ghost["pi"] = p
            self.assumptions.add("pi: abstract constant with 3.14159 < pi < 3.1416")
        return self.ghost["pi"]

    def ev_Tuple(self, n, fr):
        out = []
        for e in n.elts:
            if isinstance(e, ast.Starred):
                out.extend(self.iterate_concrete(self.ev(e.value, fr)))
            else:
                out.append(self.ev(e, fr))
        return tuple(out)

    def ev_List(self, n, fr):
        if not any(isinstance(e, ast.Starred) for e in n.elts):
            return PList(list(self.ev_Tuple(n, fr)))
        vals = [(isinstance(e, ast.Starred), self.ev(e.value if isinstance(e, ast.Starred) else e, fr)) for e in n.elts]
        try:
            out = []
            for star, v in vals:
                if star:
                    out.extend(self.iterate_concrete(v))
                else:
                    out.append(v)
            return PList(out)
        except Unsupported:
            pass
        # [*a, x, *b] with a sequence of symbolic length: list(a), then .append(x) / .extend(b) - the display's own meaning
        acc = None
        for star, v in vals:
            if acc is None:
                acc = self.call(list, [v], {}) if star else PList([v])
            else:
                self.call(self.models.method_of(self, acc, "extend" if star else "append"), [v], {})
        return acc

    def ev_Set(self, n, fr):
        return set(self.ev_Tuple(n, fr))

    def ev_Dict(self, n, fr):
        d = {}
        if len(n.keys) == 1 and n.keys[0] is not None:
            k0, v0 = self.ev(n.keys[0], fr), self.ev(n.values[0], fr)
            if isinstance(k0, Sym):
                # {symbolic_int_key: scalar}: a symbolic dict with exactly that entry
                vk = "oref" if v0 is None else kind_of(v0)
                if vk is None:
                    raise Unsupported("dict literal with a symbolic key and a non-scalar value")
                pd = PDict.fresh(vk, name="dl", empty=True)
                pd.dom = z3.Store(pd.dom, to_z3(k0, "int"), z3.BoolVal(True))
                pd.val = z3.Store(pd.val, to_z3(k0, "int"), to_z3(v0, vk))
                return pd
            return PDict({self.hashable(k0): v0})
        for k, v in zip(n.keys, n.values):
            if k is None:
                src = self.ev(v, fr)
                src = src.items if isinstance(src, PDict) else src
                d.update(src)
            else:
                d[self.hashable(self.ev(k, fr))] = self.ev(v, fr)
        return PDict(d)

    def hashable(self, k):
        if isinstance(k, Sym):
            raise Unsupported("symbolic key in a concrete dict")
        return k

    def ev_BinOp(self, n, fr):
        return self.binop(n.op, self.ev(n.left, fr), self.ev(n.right, fr))

    def ev_UnaryOp(self, n, fr):
        return self.unop(n.op, self.ev(n.operand, fr))

    def ev_BoolOp(self, n, fr):
        is_and = isinstance(n.op, ast.And)
        if self.spec_mode:
            acc = None
            for e in n.values:
                t = self.truth(self.ev(e, fr))
                acc = t if acc is None else (self.and_(acc, t) if is_and else self.or_(acc, t))
            return acc
        if getattr(self, "pure_mode", 0):
            r = self._pure_boolop(n, fr, is_and)
            if r is not NotImplemented:
                return r
        v = None
        for e in n.values:
            v = self.ev(e, fr)
            if e is n.values[-1] and not isinstance(v, Sym):
                return v  # Python returns the last operand as it is (its truth value is never taken)
            t = self.branch(self.truth(v))
            if is_and and not t:
                return False if (isinstance(v, Sym) and v.kind == "bool") else v
            if not is_and and t:
                return True if (isinstance(v, Sym) and v.kind == "bool") else v
        if isinstance(v, Sym) and v.kind == "bool":
            return is_and
        return v

    def _pure_guarded(self, thunk, guard):
        """inside the element of a comprehension over a symbolic sequence (evaluated once for an arbitrary position, no fork possible):
        evaluate an operand that Python evaluates only where `guard` holds -- what it establishes on the path condition holds under the guard"""
        if not isinstance(guard, Sym):
            return thunk()
        k0 = len(self.pc)
        self.pc.append(guard.z)
        try:
            val = thunk()
        finally:
            new = self.pc[k0 + 1 :]
            del self.pc[k0:]
            self.pc.extend(z3.Implies(guard.z, h) for h in new)
        return val

    def _pure_boolop(self, n, fr, is_and):
        """`a and b and ...` / `a or b or ...` inside the element of a symbolic comprehension: operands of boolean KIND are combined without
        a fork (each later operand is evaluated under the guard under which Python evaluates it); anything else: NotImplemented (the stock
        short-circuit evaluation follows, whose branches the path condition must decide)"""
        acc, guard, k0 = None, True, len(self.pc)
        for e in n.values:
            v = self._pure_guarded(lambda e=e: self.ev(e, fr), guard)
            if not (isinstance(v, bool) or (isinstance(v, Sym) and v.kind == "bool")):
                del self.pc[k0:]
                return NotImplemented
            acc = v if acc is None else (self.and_(acc, v) if is_and else self.or_(acc, v))
            guard = acc if is_and else (not acc if isinstance(acc, bool) else Sym(z3.Not(acc.z), "bool"))
            if guard is False:
                break
        return acc

    def ev_Compare(self, n, fr):
        left = self.ev(n.left, fr)
        acc = True
        pure = getattr(self, "pure_mode", 0) and not self.spec_mode and len(n.ops) > 1
        for op, rn in zip(n.ops, n.comparators):
            if pure:
                # chained comparison inside the element of a symbolic comprehension: `a < b < c` is `a < b and b < c`, c evaluated only
                # where a < b holds; no fork (the element is evaluated once for an arbitrary position)
                right = self._pure_guarded(lambda rn=rn: self.ev(rn, fr), acc)
                r = self.compare(op, left, right)
                if isinstance(r, (NArr, SArr)):
                    raise Unsupported("chained comparison on arrays")
                acc = self.and_(acc, r)
                if acc is False:
                    return False
                left = right
                continue
            right = self.ev(rn, fr)
            r = self.compare(op, left, right)
            if isinstance(r, (NArr, SArr)):
                if len(n.ops) != 1:
                    raise Unsupported("chained comparison on arrays")
                return r
            if self.spec_mode or len(n.ops) == 1:
                acc = self.and_(acc, r)
            else:
                if not self.branch(r):
                    return False
            left = right
        return acc

    def ev_IfExp(self, n, fr):
        c = self.truth(self.ev(n.test, fr))
        if getattr(self, "pure_mode", 0) and not self.spec_mode and isinstance(c, Sym):
            # element of a comprehension over a symbolic sequence: both arms are
            # evaluated, each under its guard (obligations raised inside are guarded)
            def arm(node, guard):
                k0 = len(self.pc)
                self.pc.append(guard)
                try:
                    val = self.ev(node, fr)
                finally:
                    new = self.pc[k0 + 1 :]
                    del self.pc[k0:]
                    self.pc.extend(z3.Implies(guard, h) for h in new)
                return val

            a, b = arm(n.body, c.z), arm(n.orelse, z3.Not(c.z))
            ka, kb = kind_of(a), kind_of(b)
            if ka is None or kb is None:
                raise Unsupported("conditional over non-scalars inside a symbolic comprehension")
            k = ka if ka == kb else ("real" if "real" in (ka, kb) else "int")
            return Sym(z3.If(c.z, to_z3(a, k), to_z3(b, k)), k)
        if self.spec_mode and isinstance(c, Sym):
            a, b = self.ev(n.body, fr), self.ev(n.orelse, fr)
            ka, kb = kind_of(a), kind_of(b)
            if ka is None or kb is None:
                raise Unsupported("symbolic conditional over non-scalars in a clause")
            k = ka if ka == kb else ("real" if "real" in (ka, kb) else "int")
            return Sym(z3.If(c.z, to_z3(a, k), to_z3(b, k)), k)
        return self.ev(n.body, fr) if self.branch(c) else self.ev(n.orelse, fr)

    def ev_NamedExpr(self, n, fr):
        v = self.ev(n.value, fr)
        fr.store(n.target.id, v)
        return v

    def ev_Lambda(self, n, fr):
        key = (fr.func.key if fr.func else "?") + ".<locals>.<lambda>"
        return Func(n, fr, fr.globs, key)

    def ev_Yield(self, n, fr):
        f = fr
        while f is not None and not hasattr(f, "yield_sink"):
            f = f.parent
        if f is None:
            raise Unsupported("yield outside generator")
        self.models.LIST_METHODS["append"](self, f.yield_sink, [self.ev(n.value, fr) if n.value is not None else None], {})
        return None

    def ev_Starred(self, n, fr):
        raise Unsupported("starred expression outside call/tuple")

    def ev_Slice(self, n, fr):
        lo = self.ev(n.lower, fr) if n.lower else None
        hi = self.ev(n.upper, fr) if n.upper else None
        st = self.ev(n.step, fr) if n.step else None
        return slice(lo, hi, st)

    def ev_Subscript(self, n, fr):
        base = self.ev(n.value, fr)
        mine = (Obj, PList, PDict, SArr, NArr, Sym, Opaque, DictListRef, tuple, str, list, dict, range)
        if not isinstance(base, mine) and not hasattr(base, "__pyvc_getitem__"):
            if isinstance(base, type) or type(base).__module__ in ("typing", "types", "numpy._typing", "numpy.typing", "collections.abc") or hasattr(base, "__class_getitem__") or type(base).__name__ in ("TypeAliasType", "_GenericAlias", "GenericAlias"):
                return base  # generic alias such as dict[int, list[int]] or npt.NDArray[np.bool_]
        return self.models.getitem(self, base, self.ev(n.slice, fr))

    def ev_JoinedStr(self, n, fr):
        parts = []
        symbolic = False
        for p in n.values:
            if isinstance(p, ast.Constant):
                parts.append(p.value)
            else:
                v = self.ev(p.value, fr)
                spec = ""
                if p.format_spec is not None:
                    spec = self.ev_JoinedStr(p.format_spec, fr)
                r = self.models.format_value(self, v, spec, p.conversion)
                if not isinstance(r, str):
                    symbolic = True
                    parts.append(r)
                else:
                    parts.append(r)
        if symbolic:
            return self.models.SymStr(parts)
        return "".join(parts)

    def ev_ListComp(self, n, fr):
        return self.models.comprehension(self, n, fr, "list")

    def ev_GeneratorExp(self, n, fr):
        return self.models.comprehension(self, n, fr, "gen")

    def ev_DictComp(self, n, fr):
        return self.models.comprehension(self, n, fr, "dict")

    def ev_SetComp(self, n, fr):
        return self.models.comprehension(self, n, fr, "set")

    def ev_Call(self, n, fr):
        # zero-argument super()
        if isinstance(n.func, ast.Name) and n.func.id == "super" and not n.args:
            f = fr
            while f is not None and (f.func is None or f.func.defcls is None):
                f = f.parent
            if f is None:
                raise Unsupported("super() outside a method")
            a_ = f.func.node.args
            selfv = f.vars[(a_.posonlyargs + a_.args)[0].arg]
            return SuperProxy(selfv, f.func.defcls)
        if self.spec_mode and isinstance(n.func, ast.Name) and n.func.id in ("old", "entry"):
            attr = "old_vars" if n.func.id == "old" else "entry_vars"
            f = fr
            while f is not None and getattr(f, attr, None) is None:
                f = f.parent
            if f is None:
                raise Unsupported(f"{n.func.id}() used where no such state exists")
            of = Frame(vars=dict(getattr(f, attr)), parent=fr, globs=fr.globs, func=fr.func)
            return self.ev(n.args[0], of)
        fn = self.ev(n.func, fr)
        args, kwargs = [], {}
        for a in n.args:
            if isinstance(a, ast.Starred):
                sv = self.ev(a.value, fr)
                if hasattr(sv, "__pyvc_star__"):  # extension sequence of symbolic length: handed to the callee's model as ONE marker argument
                    args.append(sv.__pyvc_star__(self))
                else:
                    args.extend(self.iterate_concrete(sv))
            else:
                args.append(self.ev(a, fr))
        for kw in n.keywords:
            if kw.arg is None:
                d = self.ev(kw.value, fr)
                d = d.items if isinstance(d, PDict) else d
                if not isinstance(d, dict):
                    raise Unsupported("** on a symbolic mapping")
                kwargs.update(d)
            else:
                kwargs[kw.arg] = self.ev(kw.value, fr)
        return self.call(fn, args, kwargs, n, fr)

    # ------------------------------------------------------------------ calls
    def call(self, fn, args, kwargs, node=None, fr=None):
        if isinstance(fn, Func):
            return self.invoke(fn, args, kwargs)
        if isinstance(fn, SpecFn):
            return fn.f(self, args, kwargs)
        if hasattr(fn, "__pyvc_call__"):
            return fn.__pyvc_call__(self, args)
        if isinstance(fn, Bound):
            return self.invoke(fn.func, [fn.self_obj] + list(args), kwargs)
        if isinstance(fn, NativeMethod):
            return fn.model(self, fn.recv, args, kwargs)
        if isinstance(fn, Callback):
            if fn.model is None:
                raise Unsupported(f"callback {fn.name} has no model")
            return fn.model(self, args, kwargs)
        if isinstance(fn, Obj):
            m = self.getattr_(fn, "__call__")
            return self.call(m, args, kwargs, node, fr)
        if isinstance(fn, Opaque) and "__call__" in fn.proto:
            return fn.proto["__call__"](self, fn, args, kwargs)
        m = self.models.lookup_model(fn)
        if m is not None:
            return m(self, args, kwargs)
        if isinstance(fn, type):
            if is_repo_class(fn):
                return self.instantiate(fn, args, kwargs)
            if issubclass(fn, BaseException):
                return ExcObj(fn, tuple(args))
            raise Unsupported(f"constructor of foreign class {fn.__module__}.{fn.__name__}")
        if inspect.isfunction(fn) or inspect.ismethod(fn):
            if inspect.ismethod(fn):
                f = self.func_from_py(fn.__func__)
                if f is not None:
                    return self.invoke(f, [fn.__self__] + list(args), kwargs)
            f = self.func_from_py(fn)
            if f is not None:
                return self.invoke(f, args, kwargs)
        # foreign pure builtin on fully concrete arguments: run natively
        if self.models.all_concrete(args, kwargs) and self.models.is_pure_native(fn):
            try:
                return self.models.wrap_native(fn(*[self.models.unwrap(a) for a in args], **{k: self.models.unwrap(v) for k, v in kwargs.items()}))
            except Exception as e:  # real exception of a native call on concrete data
                raise ProgExc(type(e), str(e))
        raise Unsupported(f"call to unmodelled {getattr(fn, '__module__', '?')}.{getattr(fn, '__qualname__', repr(fn))}")

    def instantiate(self, cls, args, kwargs):
        obj = Obj(cls)
        r = self.find_method(cls, "__init__")
        if r is not None and r[0] == "func":
            f = self.func_from_py(r[1], r[2])
            if f is not None:
                self.invoke(f, [obj] + list(args), kwargs)
            else:
                self.models.foreign_init(self, obj, r[1], args, kwargs)
        return obj

    def bind_params(self, func, args, kwargs, fr):
        a = func.node.args
        params = [p.arg for p in a.posonlyargs + a.args]
        defaults = a.defaults
        nd = len(defaults)
        args = list(args)
        kwargs = dict(kwargs)
        defer = Frame(parent=func.frame, globs=func.globs, func=func)
        for i, p in enumerate(params):
            if i < len(args):
                fr.vars[p] = args[i]
                if p in kwargs:
                    raise ProgExc(TypeError, f"multiple values for {p}")
            elif p in kwargs:
                fr.vars[p] = kwargs.pop(p)
            else:
                di = i - (len(params) - nd)
                if di < 0:
                    raise ProgExc(TypeError, f"missing argument {p}")
                fr.vars[p] = self.ev(defaults[di], defer)
        extra = args[len(params) :]
        if a.vararg:
            fr.vars[a.vararg.arg] = tuple(extra)
        elif extra:
            raise ProgExc(TypeError, "too many positional arguments")
        for p, d in zip(a.kwonlyargs, a.kw_defaults):
            if p.arg in kwargs:
                fr.vars[p.arg] = kwargs.pop(p.arg)
            elif d is not None:
                fr.vars[p.arg] = self.ev(d, defer)
            else:
                raise ProgExc(TypeError, f"missing keyword argument {p.arg}")
        if a.kwarg:
            fr.vars[a.kwarg.arg] = PDict(kwargs)
        elif kwargs:
            raise ProgExc(TypeError, f"unexpected keyword arguments {sorted(kwargs)}")

    def invoke(self, func, args, kwargs):
        cc = self.cur_contract
        if cc is not None and cc.options.get("traverse_rule") is not None and func.key != self.cur_key:
            # carriers that declare a traverse rule: swc_utils.traverse is replaced by the higher-order client rule,
            # the thin wrappers Tree.traverse / Tree.Node.traverse are inlined so that their callbacks reach it
            if func.key.endswith("swc_utils/base.py:traverse"):
                from . import traverse_rule

                return traverse_rule.model(self, args, kwargs, getattr(self, "traverse_client_frame", None) or self.cur_frame)
            if func.key.endswith(":Tree.traverse") or func.key.endswith(":Tree.Node.traverse"):
                fr = Frame(parent=func.frame, globs=func.globs, func=func)
                self.bind_params(func, args, kwargs, fr)
                self.inline_stack.append(func.key)
                saved = self.cur_frame
                outer = getattr(self, "traverse_client_frame", None)
                if outer is None:
                    self.traverse_client_frame = saved  # the rule's J / modifies speak about the frame of the CLIENT of the wrapper
                try:
                    return self.run_body(func, fr)
                finally:
                    self.inline_stack.pop()
                    self.cur_frame = saved
                    self.traverse_client_frame = outer
        # options["inline_calls"] = [key suffixes]: the carrier's contract asks for these callees to be interpreted from
        # their repository AST (inlined) even though a modular contract exists -- always sound, used where the inputs are
        # concrete enough (fixed topology) for the real code to be executed symbolically
        force_inline = cc is not None and any(func.key.endswith(sfx) for sfx in cc.options.get("inline_calls", ()))
        if cc is not None and not force_inline and cc.options.get("inline_calls"):
            # an override that carries the contract of the method it overrides (vcheck.inherit_overrides) is inlined where that method is
            inh = self.registry.get(func.key)
            base = inh.options.get("inherited_from") if inh is not None else None
            force_inline = base is not None and any(base.endswith(sfx) for sfx in cc.options["inline_calls"])
        if func.key.endswith("swc_utils/base.py:traverse") and func.key != self.cur_key and not force_inline:
            cb = [kwargs.get("enter"), kwargs.get("leave")]
            if any(x is not None and not isinstance(x, Callback) for x in cb) and not (cc is not None and cc.options.get("modular_traverse_ok")):
                # a modular `traverse` contract cannot account for what real callbacks do to the caller's state
                raise Unsupported("call of traverse with real callbacks: the carrier's contract needs options['traverse_rule']")
        c = None if force_inline else self.registry.get(func.key)
        # the modular rule needs a contract that says what the call returns / may modify; a contract that only
        # constrains its own carrier (no `returns`, no `modifies`) is inlined at call sites (always sound)
        if c is not None and not c.pure_inline and (c.returns is not None or c.modifies or c.trusted or c.options.get("modular")):
            return self.modular_call(c, func, args, kwargs)
        depth = sum(1 for nd in getattr(self, "_active_nodes", ()) if nd is func.node)
        if depth and not self.spec_mode and getattr(self, "recursion_limit_model", False):
            self.reentrant_call(func, depth)  # contract option recursion_limit_model=True: recursion whose depth no contract bounds may raise RecursionError
        if len(self.inline_stack) > 40:
            raise Unsupported(f"inline depth exceeded at {func.key}" + (" (recursion on data of symbolic size: the recursive function needs a modular contract with a measure)" if depth else ""))
        followed = False
        if c is None and cc is not None and cc.loops:
            from . import follow

            func, followed = follow.prepare_call(self, func)  # loop contracts follow a loop that moved into a contract-less helper
        fr = Frame(parent=func.frame, globs=func.globs, func=func)
        if followed:
            fr.follow_outer = self.cur_frame
        self.bind_params(func, args, kwargs, fr)
        self.inline_stack.append(func.key)
        saved = self.cur_frame
        try:
            res = self.run_body(func, fr)
        finally:
            self.inline_stack.pop()
            self.cur_frame = saved
        if c is not None and c.ghost_exit is not None and c.options.get("ghost_exit_inlined") and func.key != self.cur_key:
            # ghost fields of an object are initialised by its constructor's ghost_exit; the same ghost code runs when the
            # constructor's body is inlined at a call site (ghost code updates ghost state only)
            v = dict(fr.vars)
            v["result"] = res
            c.ghost_exit(self, v, None)
        return res

    def reentrant_call(self, func, depth):
        """A call that RE-ENTERS a function which is already active (direct or mutual recursion) and whose body is inlined, i.e. no
        contract bounds how deep it goes.  How much interpreter stack is left is an unknown of the environment (the caller's own
        depth, sys.setrecursionlimit): a ghost integer `recursion_budget` >= 0, one per path.  The call that would make the
        function active for the (d+1)-th time raises RecursionError iff d > budget -- at the call, i.e. after exactly the
        effects of the calls before it, which is how CPython raises it.  Calls that do not re-enter anything are bounded by the
        static call depth and never raise it."""
        if getattr(self, "pure_mode", 0):
            raise Unsupported(f"recursive call of {func.key.split(':')[-1]} inside a comprehension over a sequence of symbolic length: the recursive function needs a modular contract with a measure")
        b = self.ghost.get("recursion-budget")
        if b is None:
            b = self.ghost["recursion-budget"] = fresh("int", "recursion_budget")
            self.assume(b.z >= 0)
            self.assumptions.add("recursion model: a call that re-enters an active function with no contract bounding its depth raises RecursionError iff its "
                                 "re-entrance depth exceeds an unknown stack budget >= 0 (one ghost integer per path)")
        if not self.branch(self.sbool(b.z >= depth)):
            raise ProgExc(RecursionError, f"maximum recursion depth exceeded (re-entrance depth {depth} of {func.key.split(':')[-1]})")

    def run_body(self, func, fr):
        act = self.__dict__.setdefault("_active_nodes", [])
        act.append(func.node)
        try:
            return self._run_body(func, fr)
        finally:
            act.pop()

    def _run_body(self, func, fr):
        node = func.node
        if isinstance(node, ast.Lambda):
            return self.ev(node.body, fr)
        isgen = getattr(node, "_pyvc_isgen", None)  # memoised on the AST node (pure function of the node)
        if isgen is None:
            isgen = node._pyvc_isgen = any(isinstance(x, (ast.Yield, ast.YieldFrom)) for x in ast.walk(node) if not isinstance(x, (ast.Lambda,)))
        if isgen:
            return self.models.run_generator(self, func, fr)
        try:
            self.exec_block(node.body, fr)
        except ReturnSig as r:
            return r.value
        return None

    # -------------------------------------------------------------- statements
    def exec_block(self, stmts, fr):
        prev = None
        for s in stmts:
            if isinstance(s, ast.For):
                fused = _fuse_accumulation_loop(prev, s)
                if fused is not None:
                    # `acc = []` directly followed by a loop whose body only appends to acc (or `d = {}` / `d[k] = v`) is the
                    # comprehension `acc = [e for x in it]`: used when the loop itself cannot be executed (symbolic length, no invariant)
                    try:
                        self.exec(s, fr)
                    except Unsupported as e:
                        if "has no invariant" not in str(e):
                            raise
                        self.exec(fused, fr)
                        for nm in fused._fused_temps:  # the comprehension binds neither the loop target nor the temporaries: a later read is refused, never answered wrongly
                            fr.vars.pop(nm, None)
                    prev = s
                    continue
            self.exec(s, fr)
            prev = s

    def exec(self, s, fr):
        self.cur_frame = fr
        m = getattr(self, "ex_" + type(s).__name__, None)
        if m is None:
            raise Unsupported(f"statement {type(s).__name__} at line {getattr(s, 'lineno', '?')}")
        r = m(s, fr)
        self.ghost_after_statement(s, fr)
        return r

    def ghost_after_statement(self, s, fr):
        """Ghost code of the sidecar contract: options["ghost_after"] = [(source-text-of-a-simple-statement, fn(E, vars))].
        `fn` runs right after every execution of a statement of the CARRIER ITSELF whose unparsed text equals the
        given text (simple statements only).  Ghost code may update ghost state only (objects handed in by setup);
        it cannot write program variables.  A hook whose statement no longer exists never fires - the proof then fails
        as undecided (the carrier changed shape), it is never a silent pass."""
        c = self.cur_contract
        if c is None or fr.func is None or (fr.func.key != self.cur_key and getattr(fr, "follow_outer", None) is None) or self.spec_mode:
            return  # (statements of a helper that loop contracts followed into, pyvc/follow.py, count as statements of the carrier)
        hooks = c.options.get("ghost_after")
        if not hooks or isinstance(s, (ast.For, ast.While, ast.If, ast.With, ast.Try, ast.FunctionDef, ast.Match)):
            return
        txt = ast.unparse(s)
        for want, fn in hooks:
            if (want(txt) if callable(want) else want == txt):
                self.cur_frame = fr
                fired = getattr(self, "_hooks_fired", None)
                if fired is not None:
                    fired.add(want)
                if getattr(fr, "follow_outer", None) is not None:
                    from .loops import _visible

                    fn(self, _visible(fr))
                    continue
                fn(self, self.visible_vars())

    def ex_Expr(self, s, fr):
        if isinstance(s.value, ast.Constant):
            return
        self.ev(s.value, fr)

    def ex_Pass(self, s, fr):
        pass

    def ex_Assign(self, s, fr):
        v = self.ev(s.value, fr)
        for t in s.targets:
            self.assign(t, v, fr)
        self.annotations_after(s.targets, fr)

    def annotations_after(self, targets, fr):
        """proof annotations of the sidecar contract: `asserts_after[var]` clauses are
        proved (then assumed) right after an assignment to `var` in the carrier itself."""
        c = self.cur_contract
        if c is None or fr.func is None or self.spec_mode:
            return
        where = ""
        if fr.func.key == self.cur_key:
            ann = c.options.get("asserts_after")
        else:
            # options["asserts_after_in"] = {"callee_name": {var: [clauses]}}: the same kind of proof annotation after an
            # assignment inside a callee that is INLINED into this carrier (clauses see the callee's locals; `old` = carrier's entry state)
            callee = fr.func.key.split(":")[-1]
            ann = (c.options.get("asserts_after_in") or {}).get(callee)
            where = f"in-{callee}/"
        if not ann:
            return
        names = [x.id for t in targets for x in ast.walk(t) if isinstance(x, ast.Name)]
        from .spec import eval_clause, split_label

        for nm in names:
            for j, cl in enumerate(ann.get(nm, [])):
                lab, text = split_label(cl, f"a{j}")
                self.cur_frame = fr
                if callable(text):
                    self.spec_mode += 1
                    try:
                        val = text(self, dict(self.visible_vars()), self.top_old)
                    finally:
                        self.spec_mode -= 1
                    if isinstance(val, Rewrite):
                        # proved-equal rewriting: the obligation `current value == simpler value` is emitted, then the local is
                        # rebound to the simpler value (sound: replacing a value by one that is equal under the path condition)
                        self.prove(f"{c.short}/annot/{where}after-{nm}/{lab}", val.equation(fr.vars[nm]), "annotation")
                        fr.vars[nm] = val.value
                        continue
                    val = self.truth(val)
                else:
                    val = eval_clause(self, text, self.visible_vars(), fr.globs, old_vars=self.top_old, extra=self.spec_extra)
                self.prove(f"{c.short}/annot/{where}after-{nm}/{lab}", val, "annotation")

    def ex_AnnAssign(self, s, fr):
        if s.value is not None:
            self.assign(s.target, self.ev(s.value, fr), fr)

    def ex_AugAssign(self, s, fr):
        t = s.target
        if isinstance(t, ast.Name):
            cur = fr.lookup(t.id)
            if hasattr(cur, "__pyvc_inplace__"):  # extension value with numpy in-place semantics
                cur.__pyvc_inplace__(self, s.op, self.ev(s.value, fr))
                return
            if isinstance(cur, (SArr, NArr)) or type(cur).__name__ == "S2Arr":
                self.models.inplace_binop(self, s.op, cur, self.ev(s.value, fr))
                return
            fr.store(t.id, self.binop(s.op, cur, self.ev(s.value, fr)))
        elif isinstance(t, ast.Subscript):
            base = self.ev(t.value, fr)
            idx = self.ev(t.slice, fr)
            cur = self.models.getitem(self, base, idx)
            if isinstance(cur, (SArr, NArr)):
                # numpy in-place update of the stored array (aliases see it)
                self.models.inplace_binop(self, s.op, cur, self.ev(s.value, fr))
                return
            if isinstance(cur, DictListRef) and isinstance(s.op, ast.Add):
                # `d[k] += [x, ...]` on the int list stored in a symbolic dict: list.__iadd__ is an in-place extend, the entry stays the same object
                self.models.LIST_METHODS["extend"](self, cur, [self.ev(s.value, fr)], {})
                return
            self.models.setitem(self, base, idx, self.binop(s.op, cur, self.ev(s.value, fr)))
        elif isinstance(t, ast.Attribute):
            base = self.ev(t.value, fr)
            cur = self.getattr_(base, t.attr)
            if isinstance(cur, (SArr, NArr)):
                self.models.inplace_binop(self, s.op, cur, self.ev(s.value, fr))
                return
            self.setattr_(base, t.attr, self.binop(s.op, cur, self.ev(s.value, fr)))
        else:
            raise Unsupported("augmented assignment target")

    def assign(self, t, v, fr):
        if isinstance(t, ast.Name):
            fr.store(t.id, v)
        elif isinstance(t, (ast.Tuple, ast.List)):
            items = self.iterate_concrete(v)
            if any(isinstance(e, ast.Starred) for e in t.elts):
                raise Unsupported("starred assignment")
            if len(items) != len(t.elts):
                raise ProgExc(ValueError, "unpack length mismatch")
            for e, x in zip(t.elts, items):
                self.assign(e, x, fr)
        elif isinstance(t, ast.Attribute):
            self.setattr_(self.ev(t.value, fr), t.attr, v)
        elif isinstance(t, ast.Subscript):
            self.models.setitem(self, self.ev(t.value, fr), self.ev(t.slice, fr), v)
        else:
            raise Unsupported(f"assignment target {type(t).__name__}")

    def iterate_concrete(self, v):
        """Elements of a value with concrete length (tuple unpacking, *args ...)."""
        return self.models.iterate_concrete(self, v)

    def ex_Return(self, s, fr):
        raise ReturnSig(self.ev(s.value, fr) if s.value is not None else None)

    def ex_If(self, s, fr):
        if self.branch(self.truth(self.ev(s.test, fr))):
            self.exec_block(s.body, fr)
        else:
            self.exec_block(s.orelse, fr)

    def ex_Assert(self, s, fr):
        if not self.branch(self.truth(self.ev(s.test, fr))):
            raise ProgExc(AssertionError)

    def ex_Raise(self, s, fr):
        if s.exc is None:
            cur = getattr(fr, "cur_exc", None)
            f = fr
            while cur is None and f.parent is not None:
                f = f.parent
                cur = getattr(f, "cur_exc", None)
            if cur is None:
                raise Unsupported("bare raise outside handler")
            raise cur
        e = self.ev(s.exc, fr)
        cause = self.ev(s.cause, fr) if s.cause is not None else None
        if isinstance(e, type) and issubclass(e, BaseException):
            raise ProgExc(e, None, cause)
        if isinstance(e, ExcObj):
            raise ProgExc(e.cls, e.args, cause)
        if isinstance(e, Obj) and isinstance(e.cls, type) and issubclass(e.cls, BaseException):
            raise ProgExc(e.cls, e, cause)  # instance of an exception class defined in the repository
        if isinstance(e, ProgExc):
            raise e
        raise ProgExc(TypeError, "exceptions must derive from BaseException")

    def ex_Break(self, s, fr):
        raise BreakSig()

    def ex_Continue(self, s, fr):
        raise ContinueSig()

    def ex_FunctionDef(self, s, fr):
        key = (fr.func.key if fr.func else "?") + ".<locals>." + s.name
        f = Func(s, fr, fr.globs, key)
        # a decorated NESTED def: the decorator expressions are evaluated and applied, innermost first, as CPython does; each needs a
        # model (an unmodelled decorator is Unsupported, never silently dropped).  Module / class level defs keep the rules of extract.py.
        for dec in reversed(s.decorator_list):
            f = self.call(self.ev(dec, fr), [f], {})
        fr.store(s.name, f)

    def ex_Nonlocal(self, s, fr):
        fr.nonlocals.update(s.names)

    def ex_Global(self, s, fr):
        raise Unsupported("global statement")

    def ex_Import(self, s, fr):
        """`import a.b [as c]` inside a function: binds the real module object (calls into it still need a model)"""
        import importlib

        for al in s.names:
            try:
                if al.asname:
                    fr.vars[al.asname] = importlib.import_module(al.name)
                else:
                    importlib.import_module(al.name)
                    fr.vars[al.name.split(".")[0]] = importlib.import_module(al.name.split(".")[0])
            except ImportError as e:
                raise ProgExc(type(e), str(e))

    def ex_ImportFrom(self, s, fr):
        """`from a.b import c [as d]` inside a function: binds the real object (calls into it still need a model / repository source)"""
        import importlib

        if s.level:
            raise Unsupported("relative from-import inside a carrier")
        try:
            mod = importlib.import_module(s.module)
            for al in s.names:
                if al.name == "*":
                    raise Unsupported("from-import * inside a carrier")
                try:
                    fr.vars[al.asname or al.name] = getattr(mod, al.name)
                except AttributeError:
                    fr.vars[al.asname or al.name] = importlib.import_module(s.module + "." + al.name)
        except ImportError as e:
            raise ProgExc(type(e), str(e))

    def ex_Delete(self, s, fr):
        for t in s.targets:
            if isinstance(t, ast.Name):
                fr.vars.pop(t.id, None)
            elif isinstance(t, ast.Subscript):
                self.models.delitem(self, self.ev(t.value, fr), self.ev(t.slice, fr))
            else:
                raise Unsupported("del target")

    def ex_Try(self, s, fr):
        try:
            try:
                self.exec_block(s.body, fr)
            except ProgExc as e:
                for h in s.handlers:
                    if h.type is None:
                        ok = True
                    else:
                        t = self.ev(h.type, fr)
                        ts = t if isinstance(t, tuple) else (t,)
                        ok = any(isinstance(c, type) and isinstance(e.cls, type) and issubclass(e.cls, c) for c in ts)
                    if ok:
                        if h.name:
                            fr.store(h.name, e)
                        prev = getattr(fr, "cur_exc", None)
                        fr.cur_exc = e
                        try:
                            self.exec_block(h.body, fr)
                        finally:
                            fr.cur_exc = prev
                        break
                else:
                    raise
            else:
                self.exec_block(s.orelse, fr)
        finally:
            if s.finalbody:
                # runs on normal and abrupt completion alike (PathEnd excluded)
                import sys

                et = sys.exc_info()[0]
                if et is None or not issubclass(et, (PathEnd, Infeasible, Unsupported)):
                    self.exec_block(s.finalbody, fr)

    def ex_With(self, s, fr):
        if len(s.items) != 1:
            raise Unsupported("with: multiple items")
        it = s.items[0]
        mgr = self.ev(it.context_expr, fr)
        val = self.call(self.getattr_(mgr, "__enter__"), [], {})
        if it.optional_vars is not None:
            self.assign(it.optional_vars, val, fr)
        try:
            self.exec_block(s.body, fr)
        except ProgExc as e:
            r = self.call(self.getattr_(mgr, "__exit__"), [e.cls, e, None], {})
            # Python's rule: the exception is suppressed iff __exit__ returns a true value
            if self.branch(self.truth(r)):
                return
            raise
        except (ReturnSig, BreakSig, ContinueSig):
            self.call(self.getattr_(mgr, "__exit__"), [None, None, None], {})
            raise
        self.call(self.getattr_(mgr, "__exit__"), [None, None, None], {})

    def match_pattern(self, p, subj, fr):
        if isinstance(p, ast.MatchValue):
            return self.branch(self.compare(ast.Eq(), subj, self.ev(p.value, fr)))
        if isinstance(p, ast.MatchSingleton):
            return subj is p.value
        if isinstance(p, ast.MatchOr):
            return any(self.match_pattern(q, subj, fr) for q in p.patterns)
        if isinstance(p, ast.MatchAs) and p.pattern is None:
            if p.name:
                fr.store(p.name, subj)
            return True
        raise Unsupported("match pattern")

    def ex_Match(self, s, fr):
        subj = self.ev(s.subject, fr)
        for case in s.cases:
            ok = self.match_pattern(case.pattern, subj, fr)
            if ok and case.guard is not None:
                ok = self.branch(self.truth(self.ev(case.guard, fr)))
            if ok:
                self.exec_block(case.body, fr)
                return

    def ex_While(self, s, fr):
        from .loops import exec_while

        exec_while(self, s, fr)

    def ex_For(self, s, fr):
        from .loops import exec_for

        exec_for(self, s, fr)


def _fuse_accumulation_loop(prev, loop):
    """`acc = []` ; `for T in IT: [tmp = pure-expr]* ; [if C:] acc.append(E)`  ->  `acc = [E' for T in IT [if C']]`   (E', C': temporaries inlined)
    `d = {}`  ; `for T in IT: [tmp = pure-expr]* ; d[K] = V`                ->  `d = {K': V' for T in IT}`
    None when the pair of statements does not have exactly this shape (the rewrite is then not attempted)."""
    if loop.orelse or not loop.body:
        return None
    body = list(loop.body)
    # which container does the last statement of the body feed?
    tail = body[-1].body[0] if (isinstance(body[-1], ast.If) and not body[-1].orelse and len(body[-1].body) == 1) else body[-1]
    if (isinstance(tail, ast.Expr) and isinstance(tail.value, ast.Call) and isinstance(tail.value.func, ast.Attribute) and tail.value.func.attr == "append"
            and isinstance(tail.value.func.value, ast.Name)):
        acc, is_list, is_dict = tail.value.func.value.id, True, False
    elif isinstance(tail, ast.Assign) and len(tail.targets) == 1 and isinstance(tail.targets[0], ast.Subscript) and isinstance(tail.targets[0].value, ast.Name):
        acc, is_list, is_dict = tail.targets[0].value.id, False, True
    else:
        return None
    fresh_init = False  # `acc = []` / `acc = {}` immediately before the loop: the pair is the comprehension itself
    if isinstance(prev, ast.Assign) and len(prev.targets) == 1 and isinstance(prev.targets[0], ast.Name) and prev.targets[0].id == acc:
        v = prev.value
        if is_list:
            fresh_init = (isinstance(v, ast.List) and not v.elts) or (isinstance(v, ast.Call) and isinstance(v.func, ast.Name) and v.func.id == "list" and not v.args and not v.keywords)
        else:
            fresh_init = (isinstance(v, ast.Dict) and not v.keys) or (isinstance(v, ast.Call) and isinstance(v.func, ast.Name) and v.func.id == "dict" and not v.args and not v.keywords)
    temps = {}

    class Inline(ast.NodeTransformer):
        def visit_Name(self, n):
            if isinstance(n.ctx, ast.Load) and n.id in temps:
                return copy.deepcopy(temps[n.id])
            return n

    def uses(node, name):
        return any(isinstance(x, ast.Name) and x.id == name for x in ast.walk(node))

    def pure(e):  # temporaries are inlined (possibly several times): only call-free, side-effect-free expressions qualify
        return not any(isinstance(x, (ast.Call, ast.NamedExpr, ast.Yield, ast.YieldFrom, ast.Await, ast.Lambda, ast.ListComp, ast.SetComp, ast.DictComp, ast.GeneratorExp)) for x in ast.walk(e))

    tnames = {x.id for x in ast.walk(loop.target) if isinstance(x, ast.Name)}
    if acc in tnames or uses(loop.iter, acc):
        return None
    while len(body) > 1:
        st = body[0]
        if not (isinstance(st, ast.Assign) and len(st.targets) == 1 and isinstance(st.targets[0], ast.Name) and pure(st.value)):
            return None
        nm = st.targets[0].id
        if nm == acc or nm in tnames or nm in temps:
            return None
        temps[nm] = Inline().visit(copy.deepcopy(st.value))
        body = body[1:]
    last, cond = body[0], None
    if isinstance(last, ast.If) and not last.orelse and len(last.body) == 1:
        cond, last = last.test, last.body[0]
    if is_list:
        if not (isinstance(last, ast.Expr) and isinstance(last.value, ast.Call) and isinstance(last.value.func, ast.Attribute) and last.value.func.attr == "append"
                and isinstance(last.value.func.value, ast.Name) and last.value.func.value.id == acc and len(last.value.args) == 1 and not last.value.keywords):
            return None
        elt = last.value.args[0]
        if uses(elt, acc) or (cond is not None and uses(cond, acc)):
            return None
        gen = ast.comprehension(target=loop.target, iter=loop.iter, ifs=[Inline().visit(copy.deepcopy(cond))] if cond is not None else [], is_async=0)
        new = ast.ListComp(elt=Inline().visit(copy.deepcopy(elt)), generators=[gen])
    else:
        if cond is not None or not (isinstance(last, ast.Assign) and len(last.targets) == 1 and isinstance(last.targets[0], ast.Subscript)
                                    and isinstance(last.targets[0].value, ast.Name) and last.targets[0].value.id == acc):
            return None
        key, val = last.targets[0].slice, last.value
        if uses(key, acc) or uses(val, acc):
            return None
        gen = ast.comprehension(target=loop.target, iter=loop.iter, ifs=[], is_async=0)
        new = ast.DictComp(key=Inline().visit(copy.deepcopy(key)), value=Inline().visit(copy.deepcopy(val)), generators=[gen])
    # the temporaries stay bound after the real loop; nothing after the loop may read them if the rewrite is to be exact
    if fresh_init:
        out = ast.Assign(targets=[ast.Name(id=acc, ctx=ast.Store())], value=new, lineno=loop.lineno, col_offset=loop.col_offset)
    else:  # an existing container: repeated append / item assignment in iteration order = extend / update with the comprehension
        call = ast.Call(func=ast.Attribute(value=ast.Name(id=acc, ctx=ast.Load()), attr="extend" if is_list else "update", ctx=ast.Load()), args=[new], keywords=[])
        out = ast.Expr(value=call, lineno=loop.lineno, col_offset=loop.col_offset)
    out._fused_temps = set(temps) | tnames
    return ast.fix_missing_locations(out)
