"""Library models added for C10 (registered through pyvc.models.EXTRA_MODELS when contracts/C10.py is imported).

Every model records what it assumes in engine.assumptions (reported as trusted_base).
  * np.logical_and / np.logical_or / np.logical_not : pointwise connectives on boolean arrays
  * np.count_nonzero : pass-through to the stock model, plus (a) a ghost log of (mask, result) pairs so that a clause can
    speak about "the mask that was counted", (b) the form count_nonzero([row0, row1, ...], axis=1) = per-row counts
  * np.arange with a real start/stop/step : ceil((stop-start)/step) elements start + i*step
"""
from __future__ import annotations

import ast
from fractions import Fraction

import numpy as np
import z3

from . import models, narr, npmodels
from .engine import ProgExc, Unsupported
from .values import NArr, PList, SArr, Sym, fresh, fresh_name, kind_of, next_uid, to_z3, zint


def used(eng, name):
    eng.assumptions.add("numpy-model:" + name)


# ------------------------------------------------------------------ (n, k) arrays, n symbolic
class Rows(npmodels.S2Arr):
    """npmodels.S2Arr whose column selection a[:, j] is reachable (the stock class tests the (row, int) form first)"""

    def __pyvc_getitem__(self, eng, idx):
        if not self.transposed and isinstance(idx, tuple) and len(idx) == 2 and isinstance(idx[0], slice) and idx[0] == slice(None) and isinstance(idx[1], int):
            if not -self.k <= idx[1] < self.k:
                raise ProgExc(IndexError, "column index")
            return SArr(self.cols[idx[1]], self.n, self.kind, name="col")
        return super().__pyvc_getitem__(eng, idx)

    def __pyvc_snapshot__(self, memo):
        c = Rows(self.cols, self.n, self.kind, self.transposed)
        c.uid = self.uid
        return c


# ------------------------------------------------------------------ logical connectives
def _as_bool_sarr(eng, a):
    if a.kind == "bool":
        return a
    return SArr(npmodels.lam(lambda i: to_z3(a.get(i), "bool"), "bool"), a.n, "bool")


def _logical(name, z3op, pyop):
    def model(eng, args, kwargs):
        used(eng, f"np.{name}-pointwise")
        a, b = args[0], args[1]
        if isinstance(a, SArr) and isinstance(b, SArr):
            npmodels._len_eq(eng, a, b, f"np.{name}")
            a, b = _as_bool_sarr(eng, a), _as_bool_sarr(eng, b)
            return SArr(npmodels.lam(lambda i: z3op(a.get(i).z, b.get(i).z), "bool"), a.n, "bool", name=name)
        if isinstance(a, SArr) or isinstance(b, SArr):
            arrv, sc = (a, b) if isinstance(a, SArr) else (b, a)
            if kind_of(sc) is None:
                raise Unsupported(f"np.{name} of a symbolic-length array and {type(sc).__name__}")
            arrv = _as_bool_sarr(eng, arrv)
            sz = to_z3(eng.truth(sc), "bool")
            return SArr(npmodels.lam(lambda i: z3op(arrv.get(i).z, sz), "bool"), arrv.n, "bool", name=name)
        f = (lambda x, y: pyop(eng, eng.truth(x), eng.truth(y)))
        return narr.emap(eng, f, a, b, kind="bool")

    return model


def _logical_not(eng, args, kwargs):
    used(eng, "np.logical_not-pointwise")
    (a,) = args
    if isinstance(a, SArr):
        a = _as_bool_sarr(eng, a)
        return SArr(npmodels.lam(lambda i: z3.Not(a.get(i).z), "bool"), a.n, "bool")
    return narr.emap(eng, lambda x: eng.unop(ast.Not(), eng.truth(x)), a, kind="bool")


# ------------------------------------------------------------------ count_nonzero
def counted(eng):
    """ghost log of this path: [(mask: SArr(bool), result: Sym int)] for every np.count_nonzero of a symbolic-length mask"""
    return eng.ghost.setdefault("count_nonzero_log", [])


def _count_nonzero(eng, args, kwargs):
    a = args[0]
    axis = kwargs.get("axis", args[1] if len(args) > 1 else None)
    if isinstance(a, RowFamily):
        if axis != 1:
            raise Unsupported("np.count_nonzero of a symbolic-length list of rows with axis != 1")
        return _count_rows(eng, a)
    if isinstance(a, PList) and a.items is not None and a.items and all(isinstance(x, SArr) for x in a.items):
        # a list of equally long 1-D arrays is a 2-D array (rows); axis=1 counts along each row
        used(eng, "np.count_nonzero(rows, axis=1) = per-row count")
        if axis != 1:
            raise Unsupported("np.count_nonzero of a list of symbolic rows with axis != 1")
        for x in a.items[1:]:
            npmodels._len_eq(eng, a.items[0], x, "rows of a 2-D array")
        out = [_count_nonzero(eng, [x], {}) for x in a.items]
        return NArr((len(out),), out, "int")
    if isinstance(a, PList) and a.items is not None and not a.items and axis is not None:
        if axis in (0, -1):
            return 0
        raise ProgExc(ValueError, f"axis {axis} is out of bounds for array of dimension 1")  # numpy.exceptions.AxisError
    if axis is not None:
        raise Unsupported("np.count_nonzero with an axis")
    if isinstance(a, SArr):
        m = _as_bool_sarr(eng, a)
        r = npmodels._np_count_nonzero(eng, [m], {})
        counted(eng).append((m, r))
        return r
    return npmodels._np_count_nonzero(eng, [a], {})


# ------------------------------------------------------------------ a symbolic-length list of equally long 1-D arrays
class RowFamily:
    """[row(j) for j in seq]: n_rows 1-D arrays of one common length; `row` is an SArr whose terms mention the position
    variable `j` (a z3 Int constant)"""

    def __init__(self, j, n_rows, row):
        self.j, self.n_rows, self.row = j, n_rows, row

    def at(self, jz, iz):
        return z3.substitute(self.row.get(iz).z, (self.j, jz))


def _free_in(t, v):
    seen, stack = set(), [t]
    while stack:
        x = stack.pop()
        if x.get_id() in seen:
            continue
        seen.add(x.get_id())
        if x.eq(v):
            return True
        stack.extend(x.children() if not z3.is_quantifier(x) else [x.body()])
    return False


def _rows_element(eng, vv, i, nz, kind):
    if not (isinstance(vv, SArr) and kind == "list"):
        return None
    if _free_in(vv.nz(), i):
        raise Unsupported("a list of 1-D arrays whose lengths depend on the position")
    return RowFamily(i, nz, vv)


def counted_rows(eng):
    """ghost log: [(family: RowFamily (boolean rows), CNT: z3 function (row, prefix) -> count, result: SArr)]"""
    return eng.ghost.setdefault("count_nonzero_rows_log", [])


def _count_rows(eng, fam):
    used(eng, "np.count_nonzero(symbolic-length list of equally long rows, axis=1) = per-row count (ghost function CNT(row, prefix) defined by its unfolding)")
    row = _as_bool_sarr(eng, fam.row)
    fam = RowFamily(fam.j, fam.n_rows, row)
    tag = fresh_name("cntrows")
    f = z3.Function(tag, z3.IntSort(), z3.IntSort(), z3.IntSort())
    j, i = z3.Int("j_" + tag), z3.Int("i_" + tag)
    b = z3.If(fam.at(j, i), 1, 0)
    eng.assume(z3.ForAll([j], f(j, 0) == 0, patterns=[f(j, 0)]))
    eng.assume(z3.ForAll([j, i], z3.Implies(i >= 0, f(j, i + 1) == f(j, i) + b), patterns=[f(j, i + 1)]))
    eng.assume(z3.ForAll([j, i], z3.Implies(i >= 0, z3.And(f(j, i) >= 0, f(j, i) <= i)), patterns=[f(j, i)]))
    q = z3.Int(fresh_name("q"))
    res = SArr(z3.Lambda([q], f(q, row.nz())), fam.n_rows, "int", name="rowcounts")
    counted_rows(eng).append((fam, f, res))
    return res


# ------------------------------------------------------------------ arange over the reals
def _arange(eng, args, kwargs):
    vals = list(args) + [kwargs[k] for k in ("start", "stop", "step") if k in kwargs]
    if not any(kind_of(v) == "real" for v in vals):
        return npmodels._np_arange(eng, args, kwargs)
    used(eng, "np.arange(start, stop, step) over the reals: max(0, ceil((stop-start)/step)) elements start+i*step (step != 0)")
    if len(args) == 1:
        lo, hi, st = 0, args[0], 1
    elif len(args) == 2:
        lo, hi, st = args[0], args[1], 1
    else:
        lo, hi, st = args[0], args[1], args[2]
    lz, hz, sz = to_z3(lo, "real"), to_z3(hi, "real"), to_z3(st, "real")
    if not eng.spec_mode:
        if eng.branch(eng.sbool(sz == 0)):
            raise ProgExc(ZeroDivisionError, "np.arange with step 0")
    n = fresh("int", "arange_len")
    q = (hz - lz) / sz
    # n = max(0, ceil(q)):  n - 1 < q <= n  when q > 0, else 0
    eng.assume(z3.If(q > 0, z3.And(n.z >= 1, z3.ToReal(n.z) - 1 < q, q <= z3.ToReal(n.z)), n.z == 0))
    return SArr(npmodels.lam(lambda i: lz + z3.ToReal(i) * sz, "real"), n.z, "real", name="arange")


# ------------------------------------------------------------------ allocation / concatenation with a symbolic length
def _dim(shape):
    """the single symbolic dimension of a 1-D shape argument, else None"""
    if isinstance(shape, Sym):
        return shape
    if isinstance(shape, (tuple, list)) and len(shape) == 1 and isinstance(shape[0], Sym):
        return shape[0]
    if isinstance(shape, PList) and shape.items is not None and len(shape.items) == 1 and isinstance(shape.items[0], Sym):
        return shape.items[0]
    return None


def _const_array(eng, n, fv, dt, name):
    if not eng.spec_mode:
        if not eng.branch(eng.sbool(n.z >= 0)):
            raise ProgExc(ValueError, "negative dimensions are not allowed")
    k = npmodels.kind_of_dtype(dt) if dt is not None else (kind_of(fv) or "real")
    return SArr(z3.K(z3.IntSort(), to_z3(narr.cast(eng, fv, k), k)), n.z, k, name=name, dtype=dt)


def _full(eng, args, kwargs):
    n = _dim(args[0] if args else kwargs.get("shape"))
    if n is None:
        return narr.np_full(eng, args, kwargs)
    used(eng, "np.full(n, v): n copies of v (n symbolic)")
    fv = kwargs.get("fill_value", args[1] if len(args) > 1 else None)
    return _const_array(eng, n, fv, kwargs.get("dtype", args[2] if len(args) > 2 else None), "full")


class Grid:
    """(P, T, n) float array, P and T concrete, the last extent n symbolic: rows[i][j] is a z3 array Int -> elem"""

    def __init__(self, P, T, n, kind, rows, dtype=None):
        self.P, self.T, self.n, self.kind, self.rows, self.dtype = P, T, n, kind, rows, dtype
        self.uid = next_uid()

    def row(self, i, j):
        return SArr(self.rows[i][j], self.n, self.kind, name="gridrow", dtype=self.dtype)

    def __pyvc_getattr__(self, eng, name):
        if name == "shape":
            return (self.P, self.T, Sym(self.n, "int") if isinstance(self.n, z3.ExprRef) else self.n)
        if name == "ndim":
            return 3
        if name == "dtype":
            return self.dtype
        raise Unsupported(f"attribute {name} of a (P, T, n) array with symbolic n")

    def __pyvc_snapshot__(self, memo):
        c = Grid(self.P, self.T, self.n, self.kind, [list(r) for r in self.rows], self.dtype)
        c.uid = self.uid
        return c

    def __pyvc_getitem__(self, eng, idx):
        if isinstance(idx, tuple) and len(idx) == 2 and all(isinstance(x, int) and not isinstance(x, bool) for x in idx):
            i, j = idx
            if not (-self.P <= i < self.P and -self.T <= j < self.T):
                raise ProgExc(IndexError, "index out of bounds")
            return self.row(i % self.P, j % self.T)  # (a copy: reads only)
        raise Unsupported("this index form of a (P, T, n) array with symbolic n")

    def __pyvc_setitem__(self, eng, idx, val):
        used(eng, "a[i, j, :L] = v on a (P, T, n) array: v must have min(max(L,0), n) elements; they replace the first elements of row (i, j)")
        if not (isinstance(idx, tuple) and len(idx) == 3 and all(isinstance(x, int) and not isinstance(x, bool) for x in idx[:2]) and isinstance(idx[2], slice)
                and idx[2].start is None and idx[2].step is None):
            raise Unsupported("this index form of a store into a (P, T, n) array with symbolic n")
        i, j, sl = idx
        if not (-self.P <= i < self.P and -self.T <= j < self.T):
            raise ProgExc(IndexError, "index out of bounds")
        i, j = i % self.P, j % self.T
        nz = zint(self.n)
        if sl.stop is None:
            L = nz
        else:
            st = to_z3(sl.stop, "int")
            st = z3.If(st < 0, z3.If(st + nz < 0, z3.IntVal(0), st + nz), st)
            L = z3.If(st < nz, st, nz)
        if not isinstance(val, SArr):
            raise Unsupported("store of a non-1-D-symbolic value into a (P, T, n) array")
        if not eng.branch(eng.sbool(val.nz() == L)):
            if eng.branch(eng.sbool(val.nz() == 1)):
                raise Unsupported("broadcast of a one-element array in a slice store")
            raise ProgExc(ValueError, "could not broadcast input array into the slice")
        q = z3.Int(fresh_name("q"))
        old = self.rows[i][j]
        self.rows[i][j] = z3.Lambda([q], z3.If(z3.And(q >= 0, q < L), to_z3(narr.cast(eng, val.get(q), self.kind), self.kind), z3.Select(old, q)))


def _grid_shape(shape):
    if isinstance(shape, PList) and shape.items is not None:
        shape = tuple(shape.items)
    if isinstance(shape, (tuple, list)) and len(shape) == 3 and all(isinstance(x, int) and not isinstance(x, bool) for x in shape[:2]) and isinstance(shape[2], Sym):
        return shape
    return None


def _zeros(eng, args, kwargs):
    g = _grid_shape(args[0] if args else kwargs.get("shape"))
    if g is not None:
        used(eng, "np.zeros((P, T, n)): zeros, P and T concrete, n symbolic")
        P, T, n = g
        if not eng.spec_mode:
            if not eng.branch(eng.sbool(n.z >= 0)):
                raise ProgExc(ValueError, "negative dimensions are not allowed")
        dt = kwargs.get("dtype", args[1] if len(args) > 1 else None)
        k = npmodels.kind_of_dtype(dt) if dt is not None else "real"
        zero = z3.K(z3.IntSort(), to_z3(narr.cast(eng, 0, k), k))
        return Grid(P, T, n.z, k, [[zero for _ in range(T)] for _ in range(P)], dt)
    n = _dim(args[0] if args else kwargs.get("shape"))
    if n is None:
        return narr.np_zeros(eng, args, kwargs)
    used(eng, "np.zeros(n): n zeros (n symbolic)")
    return _const_array(eng, n, 0, kwargs.get("dtype", args[1] if len(args) > 1 else None), "zeros")


def _concatenate(eng, args, kwargs):
    seq = args[0].items if isinstance(args[0], PList) else args[0]
    if not (isinstance(seq, (list, tuple)) and any(isinstance(x, SArr) for x in seq)) or npmodels.has_s2(seq):
        return narr.np_concatenate(eng, args, kwargs)
    used(eng, "np.concatenate of 1-D arrays: the parts in order")
    if kwargs.get("axis", args[1] if len(args) > 1 else 0) not in (0, None):
        raise ProgExc(ValueError, "axis out of bounds for 1-D concatenation")
    parts = []
    for x in seq:
        if isinstance(x, NArr):
            if x.ndim != 1:
                raise ProgExc(ValueError, "all the input array dimensions must match")
            its = list(x.items)
            parts.append((len(its), x.kind, (lambda i, k, _its=its: models._ite_chain(_its, i, k))))
        elif isinstance(x, SArr):
            parts.append((x.n, x.kind, (lambda i, k, _x=x: to_z3(_x.get(i), k))))
        else:
            raise Unsupported(f"np.concatenate part {type(x).__name__}")
    ks = {k for _, k, _ in parts}
    k = "real" if "real" in ks else ("int" if "int" in ks else "bool")
    offs, tot = [], z3.IntVal(0)
    for n, _, _ in parts:
        offs.append(tot)
        tot = z3.simplify(tot + zint(n))

    def body(i):
        z = parts[-1][2](i - offs[-1], k)
        for j in range(len(parts) - 2, -1, -1):
            z = z3.If(i < offs[j + 1], parts[j][2](i - offs[j], k), z)
        return z

    return SArr(npmodels.lam(body, k), tot, k, name="concat")


# ------------------------------------------------------------------ nonzero of a concrete mask
def _nonzero(eng, args, kwargs):
    (m,) = args
    if isinstance(m, NArr) and m.ndim == 1:
        ts = [eng.truth(x) for x in m.items]
        if all(isinstance(t, bool) for t in ts):
            used(eng, "np.nonzero(concrete 1-D mask) = (positions of the true entries in order,)")
            pos = [i for i, t in enumerate(ts) if t]
            return (NArr((len(pos),), pos, "int"),)
    return npmodels._np_nonzero(eng, args, kwargs)


# ------------------------------------------------------------------ setdiff1d of concrete integer arrays
def _setdiff1d(eng, args, kwargs):
    a, b = args[0], args[1]
    if all(isinstance(x, NArr) and x.ndim == 1 and all(isinstance(i, int) and not isinstance(i, bool) for i in x.items) for x in (a, b)):
        used(eng, "np.setdiff1d on concrete integer arrays: evaluated by numpy itself")
        kw = {k: v for k, v in kwargs.items()}
        if len(args) > 2:
            kw["assume_unique"] = args[2]
        r = np.setdiff1d(np.array(a.items, dtype=np.int64), np.array(b.items, dtype=np.int64), **kw)
        return NArr((len(r),), [int(i) for i in r], "int")
    m = npmodels.lookup_model(np.setdiff1d)
    if m is None:
        raise Unsupported("np.setdiff1d on symbolic arrays")
    return m(eng, args, kwargs)


# ------------------------------------------------------------------ degrees
def _degrees(eng, args, kwargs):
    used(eng, "np.degrees(x) = x * 180 / pi (pi: the engine's abstract constant)")
    pi = eng.pi_const()
    f = lambda x: eng.binop(ast.Div(), eng.binop(ast.Mult(), x, 180), pi)
    v = args[0]
    if isinstance(v, NArr):
        return narr.emap(eng, f, v, kind="real")
    return f(v)


# ------------------------------------------------------------------ linalg.norm with ord / keepdims
def _norm(eng, args, kwargs):
    kw = dict(kwargs)
    order = kw.pop("ord", args[1] if len(args) > 1 else None)
    keep = kw.pop("keepdims", False)
    if len(args) > 2:
        kw["axis"] = args[2]
    a = args[0]
    if isinstance(a, SArr) or npmodels.has_s2(a):
        return npmodels.s2_norm(eng, args, kwargs)
    if not isinstance(a, NArr) and not isinstance(a, (PList, list, tuple)):
        return narr.np_norm(eng, [a], kw)
    a = narr._as_narr(eng, a)
    axis = kw.get("axis")
    vector_norm = a.ndim == 1 or isinstance(axis, int)
    if order is not None and not (order == 2 and vector_norm):
        raise Unsupported("np.linalg.norm: only the Euclidean vector norm (ord None, or ord=2 along one axis) is modelled")
    if a.ndim > 1 and axis is None and order is not None:
        raise Unsupported("np.linalg.norm: matrix norms are not modelled")
    r = narr.np_norm(eng, [a], kw)
    if keep:
        used(eng, "np.linalg.norm(..., keepdims=True): the reduced axis is kept with size 1")
        if axis is None:
            return NArr((1,) * a.ndim, [r], "real")
        ax = axis % a.ndim
        shape = a.shape[:ax] + (1,) + a.shape[ax + 1:]
        return NArr(shape, list(r.items), "real")
    return r


# ------------------------------------------------------------------ ceil / int of a symbolic real
def _ceil(eng, args, kwargs):
    v = args[0]
    if isinstance(v, Sym):
        used(eng, "np.ceil(x) = -floor(-x), floor = the integer-part function of SMT-LIB (to_int); returned as a float")
        return Sym(-z3.ToReal(z3.ToInt(-to_z3(v, "real"))), "real")
    if kind_of(v) is None:
        raise Unsupported("np.ceil argument")
    import math

    return Fraction(math.ceil(models.frac(v)))


_stock_int = models.BUILTIN_MODELS.get(int)


def _int(eng, args, kwargs):
    if len(args) == 1 and not kwargs and isinstance(args[0], Sym) and args[0].kind == "real":
        used(eng, "int(x) of a float: truncation toward zero (to_int(x) for x >= 0, -to_int(-x) below)")
        z = args[0].z
        return eng.snum(z3.If(z >= 0, z3.ToInt(z), -z3.ToInt(-z)), "int")
    return _stock_int(eng, args, kwargs)


# ------------------------------------------------------------------ max / min of one scalar, chain.from_iterable
def _minmax(is_min):
    stock = models.BUILTIN_MODELS[min if is_min else max]

    def model(eng, args, kwargs):
        if len(args) == 1 and kind_of(args[0]) is not None:
            raise ProgExc(TypeError, f"'{'int' if kind_of(args[0]) == 'int' else 'float'}' object is not iterable")  # max(5): a single scalar is taken for the iterable
        if not args:
            raise ProgExc(TypeError, "expected at least 1 argument, got 0")
        return stock(eng, args, kwargs)

    return model


def _from_iterable(eng, args, kwargs):
    used(eng, "itertools.chain.from_iterable: the entries of the inner iterables in order")
    out = []
    for it in models.iterate_concrete(eng, args[0]):
        out.extend(models.iterate_concrete(eng, it))
    from .values import Iter

    return Iter(PList(out))


# ------------------------------------------------------------------ getattr / callable on interpreted objects
def _getattr(eng, args, kwargs):
    from .values import Obj, Opaque

    obj, name = args[0], args[1]
    if not isinstance(name, str):
        raise Unsupported("getattr with a non-constant attribute name")
    if isinstance(obj, (Obj, Opaque)):
        try:
            return eng.getattr_(obj, name)
        except ProgExc as e:
            if e.cls is AttributeError and len(args) > 2:
                return args[2]
            raise
    if len(args) > 2:
        return models.wrap_native(getattr(obj, name, args[2]))
    try:
        return models.wrap_native(getattr(obj, name))
    except AttributeError as e:
        raise ProgExc(AttributeError, str(e))


def _callable(eng, args, kwargs):
    from .values import Bound, Callback, Func, NativeMethod, Obj

    v = args[0]
    if isinstance(v, (Func, Bound, NativeMethod, Callback)):
        return True
    if isinstance(v, (Sym, SArr, NArr, PList)) or v is None:
        return False
    if isinstance(v, Obj):
        return eng.find_method(v.cls, "__call__") is not None
    return callable(v)


def install():
    models.EXTRA_MODELS[np.logical_and] = _logical("logical_and", z3.And, lambda e, x, y: e.and_(x, y))
    models.EXTRA_MODELS[np.logical_or] = _logical("logical_or", z3.Or, lambda e, x, y: e.or_(x, y))
    models.EXTRA_MODELS[np.logical_not] = _logical_not
    models.EXTRA_MODELS[np.count_nonzero] = _count_nonzero
    models.EXTRA_MODELS[np.arange] = _arange
    models.EXTRA_MODELS[np.full] = _full
    models.EXTRA_MODELS[np.zeros] = _zeros
    models.EXTRA_MODELS[np.concatenate] = _concatenate
    if _rows_element not in models.EXTRA_ELEMENT_HOOKS:
        models.EXTRA_ELEMENT_HOOKS.append(_rows_element)
    import itertools

    models.EXTRA_MODELS[max] = _minmax(False)
    models.EXTRA_MODELS[min] = _minmax(True)
    models.EXTRA_MODELS[itertools.chain.from_iterable] = _from_iterable
    models.EXTRA_MODELS[np.linalg.norm] = _norm
    models.EXTRA_MODELS[np.nonzero] = _nonzero
    models.EXTRA_MODELS[np.ceil] = _ceil
    models.EXTRA_MODELS[int] = _int
    models.EXTRA_MODELS[np.degrees] = _degrees
    models.EXTRA_MODELS[np.setdiff1d] = _setdiff1d
    models.EXTRA_MODELS[getattr] = _getattr
    models.EXTRA_MODELS[callable] = _callable
