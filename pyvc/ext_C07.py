"""C07 extensions of pyvc: lists of node handles, and the numpy primitives used by cat_tree.

NodeList -- a Python list whose elements are handles `Tree.Node(attach, idx)` onto ONE tree object: it is
stored as the list of the handles' indices (a symbolic PList of kind int) plus the shared `attach` object.
Reading an element re-creates the handle (handles are immutable value objects in the carriers: they are
never compared by identity and their fields attach / idx / names are never assigned after construction).
"""
from __future__ import annotations

import numpy as np
import z3

from .engine import ProgExc, Unsupported
from .values import NArr, Obj, PList, SArr, Sym, fresh_name, kind_of, to_z3, zint


class NodeList(PList):
    """symbolic list of Node handles on `self.attach` (element j is the handle with idx = cols[0][j])"""

    attach = None
    node_cls = None
    names = None

    def get(self, i):
        iz = to_z3(i, "int")
        return Obj(self.node_cls, dict(attach=self.attach, idx=Sym(z3.Select(self.cols[0], iz), "int"), names=self.names))

    def derive(self, p):
        q = NodeList()
        q.items, q.cols, q.kinds, q.n, q.tup, q.name = None, list(p.cols), ["int"], p.n, False, self.name
        q.attach, q.node_cls, q.names = self.attach, self.node_cls, self.names
        return q

    def __pyvc_getitem__(self, eng, idx):
        from . import npmodels
        from .models import norm_index

        if isinstance(idx, slice):
            return self.derive(npmodels.plist_slice(eng, self, idx))
        iz = norm_index(eng, idx, self.n, "list index")
        return self.get(iz)

    def __pyvc_snapshot__(self, memo):  # pragma: no cover  (snapshot() handles PList first)
        return self.derive(self)


def node_handles(eng, lst):
    """`types={"name": node_handles}` hint of a loop contract: promote a concrete list of Node handles (all on
    the same tree object) to a symbolic NodeList in place."""
    items = lst.items
    if not items or not all(isinstance(x, Obj) and "attach" in x.fields and "idx" in x.fields for x in items):
        raise Unsupported("node_handles: the list does not hold Node handles")
    att = items[0].fields["attach"]
    if any(x.fields["attach"] is not att or x.cls is not items[0].cls for x in items):
        raise Unsupported("node_handles: handles on different objects")
    eng.assumptions.add("list-model: a list of Node handles on one tree is stored as the list of their indices (handles are value objects: attach / idx / names are never reassigned, identity is never observed)")
    lst.__class__ = NodeList
    lst.attach, lst.node_cls, lst.names = att, items[0].cls, items[0].fields.get("names")
    lst.promote("int")


def _nl_append(eng, recv, args, kwargs):
    from .models import check_frame

    (x,) = args
    check_frame(eng, recv)
    if not (isinstance(x, Obj) and x.fields.get("attach") is recv.attach and x.cls is recv.node_cls):
        raise Unsupported("append of a foreign value to a list of node handles")
    recv.cols = [z3.Store(recv.cols[0], zint(recv.n), to_z3(x.fields["idx"], "int"))]
    recv.n = z3.simplify(zint(recv.n) + 1)
    return None


# ------------------------------------------------------------------ numpy: pad / delete (concrete shapes)
def used(eng, name):
    eng.assumptions.add("numpy-model:" + name)


def _defined(eng, name, kind, n, cell, dtype=None):
    """a fresh array (a z3 constant) DEFINED cell by cell: out[i] = cell(i) for 0 <= i < n.  Same meaning as the lambda term, but
    formulas about the result then read a constant array (stable triggers for the quantified clauses of the contracts)."""
    out = SArr.fresh(kind, n, name=name, dtype=dtype)
    i = z3.Int(fresh_name("ix"))
    eng.assume(z3.ForAll([i], z3.Implies(z3.And(i >= 0, i < zint(n)), z3.Select(out.arr, i) == cell(i)), patterns=[z3.Select(out.arr, i)]))
    return out


def np_pad(eng, args, kwargs):
    """np.pad(v, (before, after)) of a 1-D array, mode 'constant' (zeros).  Concrete shapes, or an array of symbolic
    length padded at the END only: np.pad(v, (0, m)) with m an int or a symbolic int (m >= 0 is an obligation: numpy
    raises ValueError for a negative width)."""
    v, width = args[0], args[1]
    if kwargs and set(kwargs) - {"mode"} or kwargs.get("mode", "constant") != "constant":
        raise Unsupported("np.pad mode")
    if not (isinstance(width, tuple) and len(width) == 2):
        raise Unsupported("np.pad width")
    if isinstance(v, NArr) and v.ndim == 1 and all(isinstance(w, int) for w in width):
        used(eng, "np.pad-1d-constant-zero")
        return NArr((v.shape[0] + width[0] + width[1],), [0] * width[0] + list(v.items) + [0] * width[1], v.kind, v.dtype)
    if type(v) is SArr and width[0] == 0 and not isinstance(width[0], Sym) and kind_of(width[1]) == "int":
        used(eng, "np.pad-1d-constant-zero")
        m = to_z3(width[1], "int")
        if not eng.spec_mode:
            g = z3.simplify(m >= 0)
            if z3.is_false(g):
                raise ProgExc(ValueError, "index can't contain negative values")
            if not z3.is_true(g):
                eng.prove(eng.site("pad-width-nonnegative"), m >= 0, "safety", "np.pad raises ValueError for a negative width")
        n = v.nz()
        zero = to_z3(False if v.kind == "bool" else 0, v.kind)
        return _defined(eng, "padded", v.kind, z3.simplify(n + m), lambda i: z3.If(i < n, z3.Select(v.arr, i), zero), v.dtype)
    raise Unsupported("np.pad on this array")


def np_delete(eng, args, kwargs):
    """np.delete(v, [j]) of a 1-D array (concrete shape or symbolic length): fresh array without position j (j may be
    symbolic: out[i] = v[i] if i < j else v[i+1]); an out-of-range j raises IndexError as numpy does."""
    v, obj = args[0], args[1]
    if kwargs:
        raise Unsupported("np.delete axis")
    idxs = obj.items if isinstance(obj, PList) and obj.items is not None else ([obj] if kind_of(obj) == "int" else None)
    if idxs is None or len(idxs) != 1 or not ((isinstance(v, NArr) and v.ndim == 1) or type(v) is SArr):
        raise Unsupported("np.delete form")
    used(eng, "np.delete-1d-single-position")
    if type(v) is SArr:
        jz, n = to_z3(idxs[0], "int"), v.nz()
        if not eng.spec_mode:
            if not eng.branch(eng.sbool(z3.And(jz >= -n, jz < n))):
                raise ProgExc(IndexError, "np.delete index out of bounds")
        jn = z3.simplify(z3.If(jz < 0, jz + n, jz))
        return _defined(eng, "deleted", v.kind, z3.simplify(n - 1), lambda i: z3.If(i < jn, z3.Select(v.arr, i), z3.Select(v.arr, i + 1)), v.dtype)
    j, n = idxs[0], v.shape[0]
    items = list(v.items)
    if not isinstance(j, Sym):
        if not -n <= j < n:
            raise ProgExc(IndexError, "np.delete index out of bounds")
        j = j % n
        return NArr((n - 1,), items[:j] + items[j + 1 :], v.kind, v.dtype)
    jz = j.z
    if not eng.spec_mode:
        if not eng.branch(eng.sbool(z3.And(jz >= -n, jz < n))):
            raise ProgExc(IndexError, "np.delete index out of bounds")
    jn = z3.If(jz < 0, jz + n, jz)
    out = []
    for i in range(n - 1):
        a, b = items[i], items[i + 1]
        out.append(Sym(z3.If(i < jn, to_z3(a, v.kind), to_z3(b, v.kind)), v.kind))
    return NArr((n - 1,), out, v.kind, v.dtype)


def install():
    from . import models

    models.EXTRA_METHODS[(NodeList, "append")] = _nl_append
    models.EXTRA_MODELS[np.pad] = np_pad
    models.EXTRA_MODELS[np.delete] = np_delete
