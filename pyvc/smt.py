"""SMT back ends: z3 (Python API, from SMT-LIB2 text) first, cvc5 CLI for z3's unknowns."""
from __future__ import annotations

import os
import subprocess
import tempfile
import time

import z3


def to_smt2(hyps, goal) -> str:
    s = z3.Solver()
    for h in hyps:
        s.add(h)
    s.add(z3.Not(goal))
    return s.to_smt2()


def run_z3(smt2: str, timeout_ms: int, seed: int = 0):
    t0 = time.time()
    ctx = z3.Context()
    s = z3.Solver(ctx=ctx)
    s.set("timeout", timeout_ms)
    if seed:
        s.set("random_seed", seed)
    s.from_string(smt2)
    r = s.check()
    model = None
    if r == z3.sat:
        try:
            model = s.model().sexpr()
        except Exception:  # pragma: no cover
            model = None
    reason = s.reason_unknown() if r == z3.unknown else ""
    return str(r), time.time() - t0, model, reason


def run_cvc5(smt2: str, timeout_ms: int):
    t0 = time.time()
    exe = "/usr/bin/cvc5"
    if not os.path.exists(exe):
        return "unknown", 0.0, None, "cvc5 not installed"
    with tempfile.NamedTemporaryFile("w", suffix=".smt2", delete=False, dir=os.environ.get("VERIF_SCRATCH", None)) as f:
        txt = smt2
        if "(set-logic" not in txt:
            txt = "(set-logic ALL)\n" + txt
        f.write(txt)
        path = f.name
    try:
        p = subprocess.run(
            [exe, "--lang", "smt2", f"--tlimit={timeout_ms}", *(["--strings-exp"] if "str.in_re" in txt else []), path],
            capture_output=True,
            text=True,
            timeout=timeout_ms / 1000 + 5,
        )
        out = (p.stdout or "").strip().splitlines()
        r = out[0] if out else "unknown"
        if r not in ("sat", "unsat", "unknown"):
            r = "unknown"
        return r, time.time() - t0, None, (p.stderr or "")[:200]
    except subprocess.TimeoutExpired:
        return "unknown", time.time() - t0, None, "timeout"
    finally:
        try:
            os.unlink(path)
        except OSError:
            pass


def discharge(job):
    """job = (name, smt2, timeout_ms).  Returns dict with verdict and back end."""
    name, smt2, timeout_ms = job[:3]
    if timeout_ms < 0:  # cover job: one quick z3 call, no fallback
        r, t, model, reason = run_z3(smt2, -timeout_ms)
        return dict(name=name, verdict=r, backend="z3", seconds=t, model=None, reason=reason)
    t_first = 0.0
    if len(job) > 3 and job[3] == "cvc5":  # contract option backend_first="cvc5": an `unsat` of cvc5 settles it, anything else goes the usual way
        r0, t_first, _, _ = run_cvc5(smt2, 5000)
        if r0 == "unsat":
            return dict(name=name, verdict="unsat", backend="cvc5", seconds=t_first, model=None, reason="")
    r, t, model, reason = run_z3(smt2, timeout_ms)
    backend = "z3"
    total = t + t_first
    if r == "unknown":
        for seed in (7, 31):  # nonlinear queries are sensitive to symbol names / seeds: a timeout is retried before cvc5 is asked
            r2, t2, model2, reason2 = run_z3(smt2, timeout_ms, seed)
            total += t2
            if r2 != "unknown":
                r, model, reason = r2, model2, reason2
                break
    if r == "unknown":
        r3, t3, _, reason3 = run_cvc5(smt2, min(timeout_ms, 30000) if timeout_ms > 20000 else 5000)
        total += t3
        if r3 == "unsat":
            r, backend = "unsat", "cvc5"
        elif r3 == "sat":
            r, backend = "sat", "cvc5"
        else:
            reason = (reason or "") + " | cvc5: " + (reason3 or "unknown")
    if r == "unknown":
        # fixed-size registrations: range-guarded quantifiers expanded, pointwise library axioms instantiated on the ground terms
        # (pyvc/finite_model.py says why a `sat` of that query is a counter-model of this one); None = outside the fragment
        from . import finite_model

        fm = finite_model.search(smt2, min(timeout_ms, 10000))
        if fm is not None:
            r, model, backend = fm[0], fm[1], "z3+finite-instantiation"
            total += fm[2]
    return dict(name=name, verdict=r, backend=backend, seconds=total, model=model, reason=reason)
