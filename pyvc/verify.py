"""Verify one carrier against its contract; modular call rule; discharge driver."""
from __future__ import annotations

import ast
import importlib
import os
import sys
import time
import traceback
from concurrent.futures import ProcessPoolExecutor

import z3

from . import extract, smt
from .engine import Frame, Infeasible, PathEnd, ProgExc, ReturnSig, Unsupported
from .interp import ExcObj, Interp
from .spec import Contract, Registry, SPECLIB, eval_clause, split_label
from .values import (
    Bound, Callback, Func, NArr, Obj, Opaque, PDict, PList, SArr, Sym, fresh, fresh_name, kind_of,
    snapshot, sort_of, to_z3, zint,
)


def module_of(relpath):
    mod = relpath[:-3].replace("/", ".")
    if extract.REPO not in sys.path:
        sys.path.insert(0, extract.REPO)
    return importlib.import_module(mod)


def resolve_py(key):
    """Real object for 'relpath:Qual.name' as far as it is reachable (no <locals>)."""
    relpath, qual = key.split(":")
    qual = qual.replace("@setter", "")
    m = module_of(relpath)
    obj, owner = m, None
    import inspect

    for part in qual.split("."):
        if part == "<locals>":
            return m, None, owner
        owner = obj if isinstance(obj, type) else None
        obj = inspect.getattr_static(obj, part) if isinstance(obj, type) else getattr(obj, part)
    return m, obj, owner


class Setup:
    """Helper handed to contract.setup(S) to build symbolic inputs."""

    def __init__(self, eng):
        self.eng = eng

    def int(self, name="i"):
        return fresh("int", name)

    def real(self, name="x"):
        return fresh("real", name)

    def bool(self, name="b"):
        return fresh("bool", name)

    def arr(self, kind="int", n=None, name="a", dtype=None):
        a = SArr.fresh(kind, n.z if isinstance(n, Sym) else n, name=name, dtype=dtype)
        if not isinstance(a.n, int):
            self.eng.assume(a.n >= 0)
        return a

    def plist(self, kinds="int", n=None, name="l"):
        p = PList.fresh(kinds, n.z if isinstance(n, Sym) else n, name=name)
        if not isinstance(p.n, int):
            self.eng.assume(p.n >= 0)
        return p

    def pdict(self, vkind, name="d", empty=False):
        d = PDict.fresh(vkind, name=name, empty=empty)
        if d.lens is not None and not empty:
            i = z3.Int(fresh_name("i"))
            self.eng.assume(z3.ForAll([i], z3.Select(d.lens, i) >= 0))
        return d

    def dframe(self, cols, n=None, name="df"):
        """cols: dict name -> kind"""
        from .npmodels import DFrame

        if n is None:
            n = fresh("int", name + "_n")
            self.eng.assume(n.z >= 0)
        nz = n.z if isinstance(n, Sym) else n
        return DFrame({c: SArr.fresh(k, nz, name=f"{name}_{c}") for c, k in cols.items()}, nz)

    def obj(self, cls, **fields):
        return Obj(cls, fields)

    def new(self, cls, *args, **kwargs):
        """An instance of a repository class AS ITS REAL CONSTRUCTOR BUILDS IT: `cls.__init__` is interpreted from the repository
        (re-read on every run) on the given symbolic arguments, so the object carries every field the constructor sets -- also
        one added by a change -- with the value the constructor computes.  Branches inside the constructor split the proof
        paths like any branch of the carrier; arguments on which the constructor raises (an exception, or a failed `safety`
        condition such as an index out of bounds) describe no object: such a path is dropped / the condition is assumed.
        Obligations of any other kind (frame writes ...) stay obligations of the carrier being verified.
        Everything the constructor allocates exists before the carrier is entered (it is part of `entry_uids`)."""
        eng = self.eng
        n0 = len(eng.obligs)
        try:
            o = eng.instantiate(cls, list(args), dict(kwargs))
        except ProgExc:
            raise Infeasible()
        finally:
            eng.obligs[n0:] = [ob for ob in eng.obligs[n0:] if ob.kind != "safety"]
        return o

    def call(self, target, *args, **kwargs):
        """HISTORY of an input: run a REAL repository function / method on symbolic values before the carrier is entered, so that the
        carrier receives objects "as an earlier call left them" (a memo filled by a query, the copy a transform made ...).
        `target` is a callable value (`Func` / `Bound`) or a pair (object or repository class, attribute name); the body is interpreted
        from the repository like any inlined callee.  Branches split the proof paths; arguments on which the earlier call raises
        describe no history (the path is dropped); the obligations of the earlier call are those of ITS OWN carrier and are not
        repeated here (its conditions are assumed, as with `new`).  Everything it allocates exists before the carrier is entered."""
        eng = self.eng
        n0 = len(eng.obligs)
        try:
            fn = eng.getattr_(target[0], target[1]) if isinstance(target, tuple) else target
            return eng.call(fn, list(args), dict(kwargs))
        except ProgExc:
            raise Infeasible()
        finally:
            del eng.obligs[n0:]

    def opaque(self, proto, name="o"):
        return Opaque(z3.Const(fresh_name(name), z3.IntSort()), proto)

    def assume(self, z):
        self.eng.assume(z)

    def callback(self, name, model):
        return Callback(name, model)


class Verifier(Interp):
    def __init__(self, registry, prop_id):
        super().__init__(registry, prop_id)
        self.strict_index = True
        self.top_old = None
        self.replay_ctx = None
        self.spec_extra = {}
        self.entry_uids = set()
        self.cover = {}
        self.covers = []
        self.exits = 0
        self.call_log = []
        self.variant = ""
        self.extra_attrs_arbitrary = False  # contract option, see extra_attrs.py
        self.extra_attr_templates = {}
        self.extra_pass = False

    def record_attr_store(self, obj, name, val):
        if self.extra_attrs_arbitrary and not self.extra_pass:
            from . import extra_attrs

            extra_attrs.record(self, obj, name, val)

    def old_vars_of(self, fr):
        return self.top_old

    # ----------------------------------------------------------- modular call
    def make_result(self, c, args_frame):
        r = c.returns
        if r is None or r == "none":
            return None
        if callable(r):
            return r(Setup(self), args_frame)
        if r in ("int", "real", "bool", "ref", "oref"):
            return fresh(r, "ret_" + c.short.split(".")[-1])
        if isinstance(r, str) and r.startswith("arr:"):
            a = SArr.fresh(r[4:], name="ret")
            self.assume(a.n >= 0)
            return a
        raise Unsupported(f"result spec {r!r}")

    def modular_call(self, c, func, args, kwargs):
        fr = Frame(parent=func.frame, globs=func.globs, func=func)
        self.bind_params(func, args, kwargs, fr)
        caller = (self.cur_key or "?").split(":")[-1]
        callee = c.short
        vars = dict(fr.vars)
        for j, cl in enumerate(c.requires):
            lab, text = split_label(cl, f"pre{j}")
            v = eval_clause(self, text, vars, func.globs, extra=self.spec_extra)
            self.prove(f"{caller}/call:{callee}/pre/{lab}", v, "precondition")
        if c.key == self.cur_key and "measure" in c.options:
            m_new = c.options["measure"](self, vars)
            m_old = c.options["measure"](self, self.top_old)
            self.prove(f"{caller}/recursion/measure-decreases", z3.And(to_z3(m_new, "int") >= 0, to_z3(m_new, "int") < to_z3(m_old, "int")), "termination")
        old = snapshot(vars)
        self.call_log.append((c.short, dict(vars)))
        for m in c.modifies:
            tgt = self._eval_in(m, vars, func.globs)
            from .loops import havoc_value
            from .models import check_frame

            check_frame(self, tgt)  # a callee that writes into its argument writes into the caller's INPUT if that is what it was handed
            havoc_value(self, tgt)
        if c.trusted:
            self.assumptions.add("assumed-contract:" + c.key)
        if c.ghost_entry is not None:
            c.ghost_entry(self, old)  # definitions of the contract's ghost symbols over the ENTRY state (same hook as in the carrier's own proof)
        for exc, cond in c.raises.items():
            if cond is None:
                continue
            lab, text = split_label(cond, exc)
            cv = eval_clause(self, text, vars, func.globs, old_vars=old, extra=self.spec_extra)
            if self.branch(cv):
                # options["raises_ensures"] = {ExcName: [clauses]}: EXCEPTIONAL postconditions (state in which the callee raises), proved on
                # the carrier's own raising paths (obligations <fn>/exc/<Name>/post/<label>) and assumed here before the exception propagates
                for j, xc in enumerate((c.options.get("raises_ensures") or {}).get(exc, [])):
                    xlab, xtext = split_label(xc, f"xpost{j}")
                    self.assume(eval_clause(self, xtext, vars, func.globs, old_vars=old, extra=self.spec_extra))
                raise ProgExc(_exc_class(exc))
        res = self.make_result(c, fr)
        vars["result"] = res
        self.call_log[-1][1]["__result__"] = res  # callarg(name, j, "__result__") in clauses
        for j, cl in enumerate(c.ensures):
            lab, text = split_label(cl, f"post{j}")
            if isinstance(text, str) and ("ncalls(" in text or "callarg(" in text):
                continue  # effect clause about the callee's own execution: not usable at a call site
            if lab.startswith("step/"):
                continue  # C03's step-contract clauses are proved on the owner's own body (they read its call log); callers do not use them
            v = eval_clause(self, text, vars, func.globs, old_vars=old, extra=self.spec_extra)
            self.assume(v)
        return res

    def _eval_in(self, text, vars, globs):
        node = ast.parse(text, mode="eval").body
        g = dict(globs)
        g.update(SPECLIB)
        fr = Frame(vars=dict(vars), globs=g)
        self.spec_mode += 1
        try:
            return self.ev(node, fr)
        finally:
            self.spec_mode -= 1

    # ------------------------------------------------------------- top level
    def verify(self, c: Contract):
        node, seg, sha = extract.find(c.key)
        mod, pyobj, owner = resolve_py(c.key)
        globs = mod.__dict__
        if c.options.get("globals_override"):
            globs = dict(globs)
            globs.update(c.options["globals_override"])
            self.assumptions.add("tolerance constants overridden for the proof over the reals: " + ", ".join(f"{k}={v}" for k, v in c.options["globals_override"].items()))
        self.cur_contract = c
        self.cur_key = c.key
        fn_label = c.short
        self.spec_extra = {}
        stats = dict(paths=0, exits=0)
        nr = c.options.get("no_recursion")
        if nr:
            # options["no_recursion"] = label | dict(label=, receivers={"self.attach": "relpath:Class"}): the obligation
            # <carrier>/safety/<label> "no cycle of the static call graph is reachable from this carrier" (pyvc/callgraph.py), computed
            # from the module as it is now; emitted first, so an Unsupported construct later in the body does not lose it
            from . import callgraph

            callgraph.obligation(self, c, nr if isinstance(nr, str) else nr["label"], None if isinstance(nr, str) else nr.get("receivers"))
        if c.options.get("refines"):
            return self.verify_refinement(c, node, sha, globs, owner)

        def body():
            S = Setup(self)
            self.call_log = []
            self._site_n = 0
            self.spec_extra = {}
            self.entry_uids = set()
            setup = variant_setup(S) if variant_setup else {}
            closure_vars = setup.pop("__closure__", None) if isinstance(setup, dict) else None
            parent = Frame(vars=closure_vars, globs=globs) if closure_vars else None
            func = Func(node, parent, globs, c.key, defcls=owner)
            fr = Frame(parent=parent, globs=globs, func=func)
            # ghost functions
            for gname, (doms, rng) in c.ghost_funcs.items():
                f = z3.Function(f"{gname}", *[sort_of(d) for d in doms], sort_of(rng))
                self.spec_extra[gname] = _GhostFn(f, doms, rng)
            ghost_vals = setup.pop("__ghost__", {}) if isinstance(setup, dict) else {}
            self.spec_extra.update(ghost_vals)
            params = dict(setup)
            self.bind_named(func, params, fr)
            vars = dict(fr.vars)
            self.entry_live = vars
            if self.extra_pass:
                from . import extra_attrs

                extra_attrs.populate(self, vars, self.extra_attr_templates.get(self.base_variant, {}))
            for j, cl in enumerate(c.requires):
                lab, text = split_label(cl, f"pre{j}")
                self.assume(eval_clause(self, text, vars, globs, extra=self.spec_extra))
            # reachability cover behind the preconditions
            if ("pre", self.variant) not in self.cover:
                self.cover[("pre", self.variant)] = True
                from .engine import Oblig

                self.covers.append(Oblig(f"{self.prop}/{fn_label}/cover/precondition-reachable", list(self.pc), z3.BoolVal(False), "cover", self.variant))
            self.top_old = snapshot(vars)
            self.entry_uids = _collect_uids(vars)
            # replay context (pyvc/cmreplay.py): what a counter-model of an obligation of THIS path is evaluated on -- the arguments
            # as they are at entry (snapshot), later the predicted result and the arguments as the path leaves them
            pnames = {p_.arg for p_ in node.args.posonlyargs + node.args.args + node.args.kwonlyargs} | {x.arg for x in (node.args.vararg, node.args.kwarg) if x}
            self.replay_ctx = None if closure_vars else dict(key=c.key, variant=self.variant, params={k_: v_ for k_, v_ in self.top_old.items() if k_ in pnames},
                                                             live={k_: v_ for k_, v_ in vars.items() if k_ in pnames})
            if c.ghost_entry is not None:
                c.ghost_entry(self, self.top_old)
            if c.lemmas:
                for lm in c.lemmas:
                    lm(self, fr)
            try:
                res = self.run_body(func, fr)
            except ProgExc as e:
                self.exits += 1
                name = getattr(e.cls, "__name__", str(e.cls))
                cond = c.raises.get(name, "__absent__")
                if cond == "__absent__":
                    for k2, v2 in c.raises.items():
                        kc = _exc_class(k2)
                        if isinstance(e.cls, type) and issubclass(e.cls, kc):
                            cond, name = v2, k2
                            break
                if cond == "__absent__":
                    self.prove(f"{fn_label}/exc/unexpected-{name}", False, "exception", str(e.msg))
                elif cond is not None:
                    lab, text = split_label(cond, name)
                    v = eval_clause(self, text, self.top_old, globs, old_vars=self.top_old, extra=self.spec_extra)
                    self.prove(f"{fn_label}/exc/{name}-only-when-allowed", v, "exception")
                    xvars = dict(fr.vars)
                    for k0 in params:
                        xvars.setdefault(k0, params[k0])
                    for j, xc in enumerate((c.options.get("raises_ensures") or {}).get(name, [])):  # exceptional postconditions
                        xlab, xtext = split_label(xc, f"xpost{j}")
                        self.prove(f"{fn_label}/exc/{name}/post/{xlab}", eval_clause(self, xtext, xvars, globs, old_vars=self.top_old, extra=self.spec_extra), "postcondition")
                return
            self.exits += 1
            post_vars = dict(fr.vars)
            for k0 in params:
                post_vars.setdefault(k0, params[k0])
            post_vars["result"] = res
            if self.replay_ctx is not None:
                self.replay_ctx["result"] = res
            if c.ghost_exit is not None:
                c.ghost_exit(self, post_vars, self.top_old)
            # must-fail canary: `False` must NOT be provable at a normal exit, i.e. the assumptions collected along the path
            # (preconditions, ghost definitions, library models, assumed invariants and callee postconditions) are consistent
            nx = self.cover.get(("exits", self.variant), 0)
            if nx < 4:
                self.cover[("exits", self.variant)] = nx + 1
                from .engine import Oblig

                self.covers.append(Oblig(f"{self.prop}/{fn_label}/cover/assumptions-consistent-at-exit-{nx}", list(self.pc), z3.BoolVal(False), "cover", self.variant))
            for j, cl in enumerate(c.ensures):
                lab, text = split_label(cl, f"post{j}")
                v = eval_clause(self, text, post_vars, globs, old_vars=self.top_old, extra=self.spec_extra)
                self.prove(f"{fn_label}/post/{lab}", v, "postcondition")
            if "post" not in self.cover:
                self.cover["post"] = True


        variants = c.variants if c.variants else {"": c.setup}
        npaths = 0
        for vname, variant_setup in variants.items():
            self.variant = self.base_variant = vname
            self.extra_pass = False
            self.explore(body)
            npaths += self.paths
            if self.extra_attrs_arbitrary and self.extra_attr_templates.get(vname):
                # HISTORY INDEPENDENCE (pyvc/extra_attrs.py): the carrier stored attributes on an input object that the object did not have at
                # entry (a cache, a lazily built table).  A later call finds them there, left by an EARLIER call in an earlier state of the
                # columns: the carrier is verified once more on inputs that already carry every such attribute with an ARBITRARY value of the
                # shape the code stores (same obligations, same names: the answer must be a function of the current columns only)
                self.variant = (vname + " | " if vname else "") + "extra attributes left by an earlier call: arbitrary"
                self.extra_pass = True
                try:
                    self.explore(body)
                finally:
                    self.extra_pass = False
                npaths += self.paths
        self.paths = npaths
        stats["paths"] = self.paths
        stats["exits"] = self.exits
        return dict(key=c.key, sha256=sha, stats=stats, cover={"pre": True, "post": bool(self.cover.get("post"))})

    # ------------------------------------------------------ contract refinement
    def verify_refinement(self, c, node, sha, globs, owner):
        """CONTRACT REFINEMENT.  The contract `c` (written in the vocabulary of the property that uses it) is not checked
        against the body of the function but against another contract `base` of the SAME function, the one of property
        options["refines"], which is verified against the body there:
            (a) requires(c)                     ==>  requires(base)    obligations <fn>/refines:<P>/pre/<label of base>
            (b) requires(c) and ensures(base)   ==>  ensures(c)        obligations <fn>/refines:<P>/post/<label of c>
        for arbitrary arguments (c's setup) and an arbitrary result of the declared shape; base may modify nothing that c
        does not declare.  options["refine_link"] = dict(entry=fn(E, vars), exit=fn(E, vars, result)) may DEFINE ghost
        symbols of one vocabulary from the other (definitional extensions only: the authors list them in `assumptions`).
        With base's own proof this is a proof of c, which is then used at call sites like any verified contract."""
        from .engine import Oblig
        from .loops import havoc_value

        ref = c.options["refines"]
        alts = getattr(self.registry, "alts", {}).get(c.key, [])
        bases = [x for x in alts if x.prop == ref and x is not c and not x.trusted and not x.options.get("refines")]
        if len(bases) != 1:
            raise Unsupported(f"refinement: no verified contract of {c.key} under {ref}")
        base = bases[0]
        if not set(base.modifies) <= set(c.modifies) or any(k not in c.raises for k, v in base.raises.items() if v is not None):
            raise Unsupported("refinement: the base contract modifies / raises more than the refined one declares")
        link = c.options.get("refine_link") or {}
        fn_label = c.short
        tag = f"{fn_label}/refines:{ref}"

        def body():
            S = Setup(self)
            self.call_log, self._site_n, self.spec_extra, self.entry_uids = [], 0, {}, set()
            setup = dict(variant_setup(S)) if variant_setup else {}
            func = Func(node, None, globs, c.key, defcls=owner)
            fr = Frame(globs=globs, func=func)
            for gname, (doms, rng) in c.ghost_funcs.items():
                self.spec_extra[gname] = _GhostFn(z3.Function(f"{gname}", *[sort_of(d) for d in doms], sort_of(rng)), doms, rng)
            self.spec_extra.update(setup.pop("__ghost__", {}))
            self.bind_named(func, setup, fr)
            vars = dict(fr.vars)
            for j, cl in enumerate(c.requires):
                lab, text = split_label(cl, f"pre{j}")
                self.assume(eval_clause(self, text, vars, globs, extra=self.spec_extra))
            if ("pre", self.variant) not in self.cover:
                self.cover[("pre", self.variant)] = True
                self.covers.append(Oblig(f"{self.prop}/{fn_label}/cover/precondition-reachable", list(self.pc), z3.BoolVal(False), "cover", self.variant))
            self.top_old = snapshot(vars)
            self.entry_uids = _collect_uids(vars)
            if c.ghost_entry is not None:
                c.ghost_entry(self, self.top_old)
            if link.get("entry"):
                link["entry"](self, vars)
            for j, cl in enumerate(base.requires):  # (a)
                lab, text = split_label(cl, f"pre{j}")
                self.prove(f"{tag}/pre/{lab}", eval_clause(self, text, vars, globs, extra=self.spec_extra), "precondition")
            old = snapshot(vars)
            self.call_log.append((base.short, dict(vars)))
            for m in base.modifies:
                havoc_value(self, self._eval_in(m, vars, globs))
            if base.ghost_entry is not None:
                base.ghost_entry(self, old)
            res = self.make_result(base, fr)
            if not _same_shape(res, self.make_result(c, fr)):
                raise Unsupported("refinement: the two contracts declare different result shapes")
            vars["result"] = res
            self.call_log[-1][1]["__result__"] = res
            for j, cl in enumerate(base.ensures):
                lab, text = split_label(cl, f"post{j}")
                if isinstance(text, str) and ("ncalls(" in text or "callarg(" in text):
                    continue
                self.assume(eval_clause(self, text, vars, globs, old_vars=old, extra=self.spec_extra))
            if link.get("exit"):
                link["exit"](self, vars, res)
            self.exits += 1
            for j, cl in enumerate(c.ensures):  # (b)
                lab, text = split_label(cl, f"post{j}")
                self.prove(f"{tag}/post/{lab}", eval_clause(self, text, vars, globs, old_vars=self.top_old, extra=self.spec_extra), "postcondition")
            self.cover["post"] = True

        variants = c.variants if c.variants else {"": c.setup}
        npaths = 0
        for vname, variant_setup in variants.items():
            self.variant = vname
            self.explore(body)
            npaths += self.paths
        self.paths = npaths
        self.assumptions.add(f"contract refinement: the {c.prop} contract of {c.key} is derived from the contract proved under {ref} (obligations {tag}/...)")
        return dict(key=c.key, sha256=sha, stats=dict(paths=npaths, exits=self.exits), cover={"pre": True, "post": bool(self.cover.get("post"))})

    def bind_named(self, func, params, fr):
        a = func.node.args
        names = [p.arg for p in a.posonlyargs + a.args + a.kwonlyargs]
        defer = Frame(parent=func.frame, globs=func.globs, func=func)
        pos = a.posonlyargs + a.args
        defaults = dict(zip([p.arg for p in pos][len(pos) - len(a.defaults) :], a.defaults))
        for p, d in zip(a.kwonlyargs, a.kw_defaults):
            if d is not None:
                defaults[p.arg] = d
        # A setup describes a CALL.  Keyword arguments it collects under the function's `**kwargs` name are bound as CPython binds
        # them: to an explicit parameter of that name where the (possibly changed) signature has one, else they stay in the dict.
        kwd = params.get(a.kwarg.arg) if a.kwarg else None
        if isinstance(kwd, PDict) and kwd.items is not None:
            moved = [nm for nm in names if nm not in params and nm in kwd.items]
            if moved:
                params = dict(params)
                params[a.kwarg.arg] = PDict({k: v for k, v in kwd.items.items() if k not in moved})
                for nm in moved:
                    params[nm] = kwd.items[nm]
        for nm in names:
            if nm in params:
                fr.vars[nm] = params[nm]
            elif nm in defaults:
                fr.vars[nm] = self.ev(defaults[nm], defer)
            else:
                raise Unsupported(f"contract setup gives no value for parameter {nm}")
        if a.vararg:
            fr.vars[a.vararg.arg] = params.get(a.vararg.arg, ())
        if a.kwarg:
            fr.vars[a.kwarg.arg] = params.get(a.kwarg.arg, PDict({}))
        for k, v in params.items():
            if k not in fr.vars:
                fr.vars[k] = v  # ghost / auxiliary names visible to clauses


class _GhostFn:
    def __init__(self, f, doms, rng):
        self.f, self.doms, self.rng = f, doms, rng

    def __pyvc_call__(self, eng, args):
        zs = [to_z3(a, d) for a, d in zip(args, self.doms)]
        r = self.f(*zs)
        return eng.sbool(r) if self.rng == "bool" else Sym(r, self.rng)


def _same_shape(a, b):
    """two declared result shapes agree: same nesting, same scalar kinds, arrays of the same kind and length"""
    if isinstance(a, (tuple, list)) or isinstance(b, (tuple, list)):
        return isinstance(a, (tuple, list)) and isinstance(b, (tuple, list)) and len(a) == len(b) and all(_same_shape(x, y) for x, y in zip(a, b))
    if type(a) is SArr and type(b) is SArr:
        return a.kind == b.kind and z3.is_true(z3.simplify(zint(a.n) == zint(b.n)))
    if isinstance(a, Sym) and isinstance(b, Sym):
        return a.kind == b.kind
    return a is None and b is None


def _collect_uids(v, acc=None, seen=None):
    acc = acc if acc is not None else set()
    seen = seen if seen is not None else set()
    if id(v) in seen:
        return acc
    seen.add(id(v))
    if isinstance(v, (SArr, NArr, PList, PDict, Obj)):
        acc.add(v.uid)
    if isinstance(v, Obj):
        for x in v.fields.values():
            _collect_uids(x, acc, seen)
    elif isinstance(v, PList) and v.items is not None:
        for x in v.items:
            _collect_uids(x, acc, seen)
    elif isinstance(v, PDict) and v.items is not None:
        for x in v.items.values():
            _collect_uids(x, acc, seen)
    elif isinstance(v, (tuple, list)):
        for x in v:
            _collect_uids(x, acc, seen)
    elif isinstance(v, dict):
        for x in v.values():
            _collect_uids(x, acc, seen)
    return acc


EXTRA_EXC = {}  # exception classes defined in the repository, registered by contract modules (name -> class)


def _exc_class(name):
    import builtins

    c = getattr(builtins, name, None) or EXTRA_EXC.get(name)
    if c is None:
        raise Unsupported(f"unknown exception class {name}")
    return c


# ------------------------------------------------------------------ driver
def discharge_all(obligs, timeout_ms, workers=16, cover_timeout_ms=3000):
    """Group obligation instances by name; an obligation is discharged iff every
    instance is unsat.  Returns {name: result}."""
    import os as _os

    workers = int(_os.environ.get("VERIF_WORKERS", workers) or workers)  # contract development in parallel worktrees uses fewer
    jobs = []
    trivial = {}
    for ob in obligs:
        g = z3.simplify(ob.goal)
        if z3.is_true(g) and ob.kind != "cover":
            trivial.setdefault(ob.name, []).append(dict(name=ob.name, verdict="unsat", backend="simplify", seconds=0.0, model=None, reason="", kind=ob.kind, note=ob.note))
            continue
        if ob.kind == "cover":
            jobs.append(((ob.name, smt.to_smt2(ob.hyps, ob.goal), -cover_timeout_ms), ob))
            continue
        first = ("cvc5",) if "[cvc5-first]" in (ob.note or "") else ()
        jobs.append(((ob.name, smt.to_smt2(ob.hyps, ob.goal), timeout_ms) + first, ob))
    results = {}
    for k, v in trivial.items():
        results.setdefault(k, []).extend(v)
    if jobs:
        # path re-execution emits the obligations of a shared prefix once per path, with identical text: solve each distinct job once
        uniq = {}
        for j, _ in jobs:
            uniq.setdefault(j, len(uniq))
        todo = list(uniq)
        if workers > 1 and len(todo) > 1:
            with ProcessPoolExecutor(max_workers=min(workers, len(todo))) as ex:
                done = list(ex.map(smt.discharge, todo, chunksize=1))
        else:
            done = [smt.discharge(j) for j in todo]
        outs = [dict(done[uniq[j]]) for j, _ in jobs]
        for (j, ob), r in zip(jobs, outs):
            r["kind"], r["note"] = ob.kind, ob.note
            r["_ob"] = ob  # in-process only (pyvc/cmreplay.py replays the counter-model of a `sat` instance on the real code)
            results.setdefault(ob.name, []).append(r)
    return results
