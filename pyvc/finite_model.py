"""Counter-models for obligations of FIXED-SIZE registrations that the solvers leave `unknown`.

An obligation of a fixed-size twin (arrays of a concrete length) is quantifier-free in substance, but its hypotheses are still written
with quantifiers: range-guarded ones (`forall k. 0 <= k < 3 -> ...`, the clauses shared with the symbolic-size registration) and the
axioms of uninterpreted library functions (`forall v. ... cast_int64_float64(v) ...`).  z3 / cvc5 then answer `unknown` where a
three-row counter-example exists.  `search(smt2)` decides such a query exactly:

1. a universal quantifier over integers whose body is TRIVIALLY TRUE as soon as one bound variable leaves [0, N) (checked by the
   solver, N = 1..6) is replaced by the conjunction of its N**k instances -- an equivalence;
2. a remaining quantifier is accepted only if it is a POINTWISE axiom of a function family listed in `LOCAL_AXIOM_PREFIXES`
   (one pattern `f(v)`): it is instantiated at every ground argument of f that occurs (to a fixpoint).  For these families any
   assignment that satisfies the instances extends to a model of the axioms -- outside the finitely many terms take the exact cast
   (`cast_<int>_<float>(v) = v`, `cast_<float>_<int>(r) = trunc r`, widen = narrow = identity, `fits` = true), which satisfies every
   axiom of pyvc/ext_C05_frame.py; the axioms constrain each argument separately, so the two parts do not interact.
   A family may be listed only with such an argument.
3. a quantified formula that is left (a range guard of SYMBOLIC length, say) is kept AS IT IS, provided no function of a listed family occurs in it
   (the argument of 2 then still holds: the pointwise axioms are the only quantified statements about those functions, and the kept formulas do
   not see how they are completed outside the ground terms) and at least one pointwise axiom was instantiated (otherwise the query is the one
   the solvers already answered).  If a listed function occurs under a quantifier that is left, nothing is claimed (None).
4. the query - ground part, instances, kept formulas - is solved: `sat` is a counter-model of the original query (by 1 - 3), `unsat` proves it
   (instances are consequences); `unknown` claims nothing.
"""
from __future__ import annotations

import itertools
import time

import z3

LOCAL_AXIOM_PREFIXES = ("cast_", "fits_")
MAX_N = 6


def _has_quant(f, seen):
    if f.get_id() in seen:
        return False
    seen.add(f.get_id())
    if z3.is_quantifier(f):
        return True
    return any(_has_quant(c, seen) for c in f.children())


def _bounded(q, ctx):
    nv = q.num_vars()
    if not q.is_forall() or any(q.var_sort(i).kind() != z3.Z3_INT_SORT for i in range(nv)) or nv > 3:
        return None
    vs = [z3.Int(f"__fm{i}", ctx) for i in range(nv)]
    body = z3.substitute_vars(q.body(), *reversed(vs))
    for n in range(1, MAX_N + 1):
        if n ** nv > 300:
            break
        s = z3.Solver(ctx=ctx)
        s.set("timeout", 300)
        s.add(z3.Or(*[z3.Or(v < 0, v >= n) for v in vs]), z3.Not(body))
        if s.check() == z3.unsat:
            return vs, body, n
    return None


def _expand(f, ctx, memo):
    k = f.get_id()
    if k in memo:
        return memo[k]
    out = f
    if z3.is_quantifier(f):
        b = _bounded(f, ctx)
        if b is not None:
            vs, body, n = b
            body = _expand(body, ctx, memo)
            insts = [z3.substitute(body, *[(v, z3.IntVal(c, ctx)) for v, c in zip(vs, combo)]) for combo in itertools.product(range(n), repeat=len(vs))]
            out = z3.And(*insts) if len(insts) > 1 else insts[0]
    elif z3.is_app(f) and f.num_args() and z3.is_bool(f):
        ch = [_expand(c, ctx, memo) if z3.is_bool(c) else c for c in f.children()]
        if any(a.get_id() != b.get_id() for a, b in zip(ch, f.children())):
            out = f.decl()(*ch)
    memo[k] = out
    return out


def _apps(f, decl, acc, seen):
    if f.get_id() in seen or z3.is_quantifier(f):
        return
    seen.add(f.get_id())
    if z3.is_app(f):
        if f.decl().eq(decl):
            acc[f.get_id()] = f
        for c in f.children():
            _apps(c, decl, acc, seen)


def _mentions_local(f, seen):
    """does a function of a family with pointwise axioms occur in f (quantifier bodies included)?"""
    if f.get_id() in seen:
        return False
    seen.add(f.get_id())
    if z3.is_quantifier(f):
        return _mentions_local(f.body(), seen)
    if z3.is_app(f):
        if f.decl().name().startswith(LOCAL_AXIOM_PREFIXES):
            return True
        return any(_mentions_local(c, seen) for c in f.children())
    return False


def _num_consts(f, acc, seen):
    if f.get_id() in seen or z3.is_quantifier(f):
        return
    seen.add(f.get_id())
    if z3.is_const(f) and f.decl().kind() == z3.Z3_OP_UNINTERPRETED and (z3.is_int(f) or z3.is_real(f)):
        acc[f.get_id()] = f
    elif z3.is_app(f):
        for c in f.children():
            _num_consts(c, acc, seen)


def _conjuncts(f):
    if z3.is_and(f):
        for c in f.children():
            yield from _conjuncts(c)
    else:
        yield f


def search(smt2: str, timeout_ms: int = 10000):
    """-> (verdict 'sat' | 'unsat', model text or None, seconds) or None when the query is outside the fragment"""
    t0 = time.time()
    ctx = z3.Context()
    try:
        fs = z3.parse_smt2_string(smt2, ctx=ctx)
    except z3.Z3Exception:
        return None
    memo = {}
    ground, local, rest = [], [], []
    for f in fs:
        for g in _conjuncts(z3.simplify(_expand(f, ctx, memo))):
            if z3.is_quantifier(g):
                pat = g.pattern(0).arg(0) if g.is_forall() and g.num_vars() == 1 and g.num_patterns() == 1 and g.pattern(0).num_args() == 1 else None
                if pat is not None and z3.is_app(pat) and pat.num_args() == 1 and z3.is_var(pat.arg(0)) and pat.decl().name().startswith(LOCAL_AXIOM_PREFIXES):
                    local.append((pat.decl(), g))
                elif _mentions_local(g, set()):
                    return None
                else:
                    rest.append(g)
            elif _has_quant(g, set()):
                if _mentions_local(g, set()):
                    return None
                rest.append(g)
            else:
                ground.append(g)
        if time.time() - t0 > 20:
            return None
    if rest and not local:
        return None
    done = set()
    for _ in range(4):
        new = []
        for decl, q in local:
            acc, seen = {}, set()
            for g in ground:
                _apps(g, decl, acc, seen)
            for a in acc.values():
                key = (q.get_id(), a.arg(0).get_id())
                if key not in done:
                    done.add(key)
                    new.append(z3.simplify(z3.substitute_vars(q.body(), a.arg(0))))
        if not new:
            break
        ground += new
    else:
        return None
    s = z3.Solver(ctx=ctx)
    s.set("timeout", timeout_ms)
    for g in ground + rest:
        s.add(g)
    # a READABLE counter-model first: the same query with every numeric constant confined to [-1000, 1000] (a restriction of the search space: a model
    # of the restricted query is a model of this one; only `sat` is taken from it)
    nums = {}
    for g in ground:
        _num_consts(g, nums, set())
    if nums:
        s.push()
        s.add(*[z3.And(c >= -1000, c <= 1000) for c in nums.values()])
        if s.check() == z3.sat:
            try:
                return "sat", s.model().sexpr(), time.time() - t0
            except Exception:  # pragma: no cover
                pass
        s.pop()
    r = s.check()
    if r == z3.sat:
        try:
            return "sat", s.model().sexpr(), time.time() - t0
        except Exception:  # pragma: no cover
            return "sat", None, time.time() - t0
    if r == z3.unsat:
        return "unsat", None, time.time() - t0
    return None
